package vroute

// Reference interpreter of a routing section, written from the statement of property C01 (and C11 for
// the domain kinds) and from /repo/docs/en/configuration/routing.md. It reads the PARSED rule AST
// ([]*config_parser.RoutingRule + fallback) and never calls any code of component/routing, control or
// config: aliases, must_ prefixes, (mark:…)/(must) parameters and value syntax are understood here.

import (
	"fmt"
	"net/netip"
	"regexp"
	"strconv"
	"strings"

	"github.com/daeuniverse/dae/pkg/config_parser"
)

// Packet is the packet description the statement quantifies over.
type Packet struct {
	Src, Dst netip.AddrPort // IPv4 either as 4-byte or as IPv4-mapped 16-byte address
	L4       string         // "tcp" | "udp"
	Domain   string         // learned or sniffed name; "" = none known
	Pname    string         // process name (at most 16 bytes are meaningful); "" = not known
	Mac      [6]byte        // source MAC; all-zero = frame without a MAC
	Dscp     uint8
}

// IPv4 reports the IP version of the packet: 4 iff its destination is an IPv4 address, in plain or in
// IPv4-mapped form ("IPv4 as IPv4-mapped").
func (p *Packet) IPv4() bool { a := p.Dst.Addr(); return a.Is4() || a.Is4In6() }

// Key is a stable, compact rendering (signatures, de-duplication).
func (p *Packet) Key() string {
	return fmt.Sprintf("%s>%s/%s dom=%q pname=%q mac=%x dscp=%d", p.Src, p.Dst, p.L4, p.Domain, p.Pname, p.Mac[:], p.Dscp)
}

// Decision is what the statement says a routing decision consists of.
type Decision struct {
	Outbound string // group name as written, "direct" or "block"
	Mark     uint32
	Must     bool
}

func (d Decision) String() string {
	return fmt.Sprintf("%s/mark=%#x/must=%v", d.Outbound, d.Mark, d.Must)
}

type condKind int

const (
	kDomain condKind = iota
	kDip
	kSip
	kDport
	kSport
	kL4
	kIPVer
	kMac
	kPname
	kDscp
)

type domKind int

const (
	dFull domKind = iota
	dSuffix
	dKeyword
	dRegex
)

type domPat struct {
	kind domKind
	pat  string
	re   *regexp.Regexp
}

type pfx struct {
	addr [16]byte
	bits int // in the 128-bit space (IPv4 prefix length + 96)
}

type refCond struct {
	kind   condKind
	not    bool
	pfx    []pfx
	ports  [][2]uint16
	tcp    bool
	udp    bool
	v4     bool
	v6     bool
	macs   [][6]byte
	pnames [][16]byte
	dscps  []uint8
	doms   []domPat
}

type refRule struct {
	conds     []refCond
	mustRules bool
	out       Decision
}

// Reference is a routing section compiled for repeated decisions.
type Reference struct {
	rules    []refRule
	fallback Decision
}

// SplitSections finds the routing section in a parsed configuration document and returns its rules in
// written order and its fallback, as the parser produced them (before any patching or optimisation).
// The fallback is returned as a Function: `fallback: g2` -> {Name:"g2"}, `fallback: g1(mark:1)` -> as parsed.
func SplitSections(sections []*config_parser.Section) (rules []*config_parser.RoutingRule, fallback *config_parser.Function, err error) {
	for _, s := range sections {
		if s.Name != "routing" {
			continue
		}
		for _, it := range s.Items {
			switch v := it.Value.(type) {
			case *config_parser.RoutingRule:
				rules = append(rules, v)
			case *config_parser.Param:
				if v.Key != "fallback" {
					return nil, nil, fmt.Errorf("vroute: unexpected routing declaration %q", v.Key)
				}
				if fallback != nil {
					return nil, nil, fmt.Errorf("vroute: two fallbacks")
				}
				switch {
				case len(v.AndFunctions) == 1:
					fallback = v.AndFunctions[0]
				case len(v.AndFunctions) == 0:
					fallback = &config_parser.Function{Name: v.Val}
				default:
					return nil, nil, fmt.Errorf("vroute: fallback with %d functions", len(v.AndFunctions))
				}
			default:
				return nil, nil, fmt.Errorf("vroute: unexpected item in routing section")
			}
		}
	}
	if fallback == nil {
		return nil, nil, fmt.Errorf("vroute: no fallback")
	}
	return rules, fallback, nil
}

// NewReferenceFromText parses a whole configuration document with config_parser.Parse (the grammar
// only) and compiles the reference from the raw AST.
func NewReferenceFromText(confText string) (*Reference, error) {
	sections, err := config_parser.Parse(confText)
	if err != nil {
		return nil, err
	}
	return NewReferenceFromSections(sections)
}

// NewReferenceFromSections compiles the reference from an already parsed document. It does not keep or
// modify the AST, so the same sections may afterwards be handed to config.New (which patches them in place).
func NewReferenceFromSections(sections []*config_parser.Section) (*Reference, error) {
	rules, fb, err := SplitSections(sections)
	if err != nil {
		return nil, err
	}
	return NewReference(rules, fb)
}

// NewReference compiles the reference from a rule AST. Rules may be as written (must_ prefixes, aliases)
// or already patched/aliased: both spellings mean the same.
func NewReference(rules []*config_parser.RoutingRule, fallback *config_parser.Function) (*Reference, error) {
	ref := &Reference{}
	for i, r := range rules {
		rr, err := compileRule(r)
		if err != nil {
			return nil, fmt.Errorf("vroute: rule %d: %w", i, err)
		}
		ref.rules = append(ref.rules, rr)
	}
	fb, mustRules, err := parseOutbound(fallback)
	if err != nil {
		return nil, fmt.Errorf("vroute: fallback: %w", err)
	}
	if mustRules {
		return nil, fmt.Errorf("vroute: fallback must_rules is not a decision")
	}
	ref.fallback = fb
	return ref, nil
}

// parseOutbound: `name`, `must_name` (= name with the must flag; must_rules is its own built-in),
// `name(mark: N)` with N in Go integer syntax (0x… allowed) and `name(must)`.
func parseOutbound(f *config_parser.Function) (d Decision, mustRules bool, err error) {
	name := f.Name
	if name == "must_rules" {
		mustRules = true
	} else if strings.HasPrefix(name, "must_") {
		name = strings.TrimPrefix(name, "must_")
		d.Must = true
	}
	d.Outbound = name
	for _, p := range f.Params {
		switch {
		case p.Key == "mark":
			m, e := strconv.ParseUint(p.Val, 0, 32)
			if e != nil {
				return d, false, fmt.Errorf("bad mark %q", p.Val)
			}
			d.Mark = uint32(m)
		case p.Key == "" && p.Val == "must":
			d.Must = true
		default:
			return d, false, fmt.Errorf("unknown outbound parameter %q:%q", p.Key, p.Val)
		}
	}
	return d, mustRules, nil
}

func compileRule(r *config_parser.RoutingRule) (refRule, error) {
	var rr refRule
	out, mustRules, err := parseOutbound(&r.Outbound)
	if err != nil {
		return rr, err
	}
	rr.out, rr.mustRules = out, mustRules
	if len(r.AndFunctions) == 0 {
		return rr, fmt.Errorf("rule without conditions")
	}
	for _, f := range r.AndFunctions {
		c, err := compileCond(f)
		if err != nil {
			return rr, fmt.Errorf("%s: %w", f.Name, err)
		}
		rr.conds = append(rr.conds, c)
	}
	return rr, nil
}

func parsePfx(s string) (pfx, error) {
	var p netip.Prefix
	if strings.Contains(s, "/") {
		var err error
		if p, err = netip.ParsePrefix(s); err != nil {
			return pfx{}, err
		}
	} else {
		a, err := netip.ParseAddr(s)
		if err != nil {
			return pfx{}, err
		}
		p = netip.PrefixFrom(a, a.BitLen())
	}
	bits := p.Bits()
	if p.Addr().Is4() {
		bits += 96 // IPv4 as IPv4-mapped
	}
	return pfx{addr: p.Addr().As16(), bits: bits}, nil
}

func (p pfx) contains(a [16]byte) bool {
	full, rem := p.bits/8, p.bits%8
	for i := 0; i < full; i++ {
		if p.addr[i] != a[i] {
			return false
		}
	}
	if rem != 0 {
		m := byte(0xff) << (8 - uint(rem))
		if p.addr[full]&m != a[full]&m {
			return false
		}
	}
	return true
}

func parsePort(s string) ([2]uint16, error) {
	lo, hi, isRange := strings.Cut(s, "-")
	a, err := strconv.ParseUint(lo, 10, 16)
	if err != nil {
		return [2]uint16{}, err
	}
	b := a
	if isRange {
		if b, err = strconv.ParseUint(hi, 10, 16); err != nil {
			return [2]uint16{}, err
		}
	}
	return [2]uint16{uint16(a), uint16(b)}, nil
}

func parseMac(s string) (m [6]byte, err error) {
	fs := strings.Split(s, ":")
	if len(fs) != 6 {
		return m, fmt.Errorf("bad mac %q", s)
	}
	for i, f := range fs {
		v, e := strconv.ParseUint(f, 16, 8)
		if e != nil || len(f) != 2 {
			return m, fmt.Errorf("bad mac %q", s)
		}
		m[i] = byte(v)
	}
	return m, nil
}

func first16(s string) (o [16]byte) { copy(o[:], s); return }

func compileCond(f *config_parser.Function) (refCond, error) {
	c := refCond{not: f.Not}
	switch f.Name {
	case "domain":
		c.kind = kDomain
	case "dip", "ip":
		c.kind = kDip
	case "sip":
		c.kind = kSip
	case "dport", "port":
		c.kind = kDport
	case "sport":
		c.kind = kSport
	case "l4proto":
		c.kind = kL4
	case "ipversion":
		c.kind = kIPVer
	case "mac":
		c.kind = kMac
	case "pname":
		c.kind = kPname
	case "dscp":
		c.kind = kDscp
	default:
		return c, fmt.Errorf("unknown function")
	}
	if len(f.Params) == 0 {
		return c, fmt.Errorf("no values")
	}
	for _, p := range f.Params {
		if c.kind != kDomain && p.Key != "" {
			return c, fmt.Errorf("key %q not supported by the reference", p.Key)
		}
		switch c.kind {
		case kDomain:
			var d domPat
			switch p.Key {
			case "", "domain", "suffix":
				d.kind = dSuffix
			case "full":
				d.kind = dFull
			case "keyword", "contains":
				d.kind = dKeyword
			case "regex":
				d.kind = dRegex
				re, err := regexp.Compile(p.Val)
				if err != nil {
					return c, err
				}
				d.re = re
			default:
				return c, fmt.Errorf("domain key %q not supported by the reference", p.Key)
			}
			d.pat = p.Val
			c.doms = append(c.doms, d)
		case kDip, kSip:
			x, err := parsePfx(p.Val)
			if err != nil {
				return c, err
			}
			c.pfx = append(c.pfx, x)
		case kDport, kSport:
			x, err := parsePort(p.Val)
			if err != nil {
				return c, err
			}
			c.ports = append(c.ports, x)
		case kL4:
			switch p.Val {
			case "tcp":
				c.tcp = true
			case "udp":
				c.udp = true
			default:
				return c, fmt.Errorf("bad l4proto %q", p.Val)
			}
		case kIPVer:
			switch p.Val {
			case "4":
				c.v4 = true
			case "6":
				c.v6 = true
			default:
				return c, fmt.Errorf("bad ipversion %q", p.Val)
			}
		case kMac:
			m, err := parseMac(p.Val)
			if err != nil {
				return c, err
			}
			c.macs = append(c.macs, m)
		case kPname:
			c.pnames = append(c.pnames, first16(p.Val))
		case kDscp:
			v, err := strconv.ParseUint(p.Val, 0, 8)
			if err != nil {
				return c, err
			}
			c.dscps = append(c.dscps, uint8(v))
		}
	}
	return c, nil
}

// NormalizeDomain: names are compared in lower case and without one trailing dot (C11: "in any letter
// case and with or without a trailing dot").
func NormalizeDomain(name string) string {
	return strings.ToLower(strings.TrimSuffix(name, "."))
}

func (d *domPat) matches(name string) bool { // name already normalised and non-empty
	switch d.kind {
	case dFull:
		return name == d.pat
	case dSuffix:
		if strings.HasPrefix(d.pat, ".") {
			return strings.HasSuffix(name, d.pat) // proper sub-names only
		}
		return name == d.pat || strings.HasSuffix(name, "."+d.pat)
	case dKeyword:
		return strings.Contains(name, d.pat)
	case dRegex:
		return d.re.MatchString(name)
	}
	return false
}

// anyValue: does any value of the condition match the packet (before '!').
func (c *refCond) anyValue(p *Packet, dom string, src16, dst16 [16]byte, pname [16]byte) bool {
	switch c.kind {
	case kDomain:
		if dom == "" { // no name known: nothing to match
			return false
		}
		for i := range c.doms {
			if c.doms[i].matches(dom) {
				return true
			}
		}
	case kDip:
		for _, x := range c.pfx {
			if x.contains(dst16) {
				return true
			}
		}
	case kSip:
		for _, x := range c.pfx {
			if x.contains(src16) {
				return true
			}
		}
	case kDport:
		for _, r := range c.ports {
			if r[0] <= p.Dst.Port() && p.Dst.Port() <= r[1] {
				return true
			}
		}
	case kSport:
		for _, r := range c.ports {
			if r[0] <= p.Src.Port() && p.Src.Port() <= r[1] {
				return true
			}
		}
	case kL4:
		return (p.L4 == "tcp" && c.tcp) || (p.L4 == "udp" && c.udp)
	case kIPVer:
		if p.IPv4() {
			return c.v4
		}
		return c.v6
	case kMac:
		for _, m := range c.macs {
			if m == p.Mac {
				return true
			}
		}
	case kPname:
		if p.Pname == "" { // compared only when one is known
			return false
		}
		for _, n := range c.pnames {
			if n == pname {
				return true
			}
		}
	case kDscp:
		for _, v := range c.dscps {
			if v == p.Dscp {
				return true
			}
		}
	}
	return false
}

func (c *refCond) holds(p *Packet, dom string, src16, dst16 [16]byte, pname [16]byte) bool {
	if c.kind == kMac && c.not && p.Mac == ([6]byte{}) {
		return false // a negated MAC rule never matches a frame without a MAC
	}
	return c.anyValue(p, dom, src16, dst16, pname) != c.not
}

// Hit tells how a decision came about: Rule is the index of the deciding rule (-1 = fallback), MustRules the
// number of must_rules rules that held on the way.
type Hit struct {
	Rule      int
	MustRules int
}

// Decide is the statement of C01: first rule, top to bottom, whose conditions all hold; must_rules sets a
// sticky must flag and continues; else the fallback.
func (r *Reference) Decide(p *Packet) (d Decision, h Hit) {
	dom := NormalizeDomain(p.Domain)
	src16, dst16 := p.Src.Addr().As16(), p.Dst.Addr().As16()
	pname := first16(p.Pname)
next:
	for i := range r.rules {
		rule := &r.rules[i]
		for j := range rule.conds {
			if !rule.conds[j].holds(p, dom, src16, dst16, pname) {
				continue next
			}
		}
		if rule.mustRules {
			h.MustRules++
			continue
		}
		d = rule.out
		d.Must = d.Must || h.MustRules > 0
		h.Rule = i
		return d, h
	}
	d = r.fallback
	d.Must = d.Must || h.MustRules > 0
	h.Rule = -1
	return d, h
}
