// Two history legs.
//
// legUDPHistories: ONE packet Sniffer lives through a sequence of datagrams and compactions, the way a
// PacketSniffer session of control/udp.go does (AppendData+SniffUdp per datagram, CompactPacketState when the caller
// stops holding datagrams, the session reused afterwards). Every history of length <= 4 over a 9-symbol alphabet.
//
// legTCPGlue: TWO connections go through the real control.prefetchForTcpSniff -> prefixedConn -> ConnSniffer glue of
// control/tcp.go in every interleaving of their (probe, sniff, relay) steps: each relay must receive exactly what its
// own client sent.
package main

import (
	"bytes"
	"fmt"
	"io"
	"net"
	"strings"
	"time"

	"github.com/daeuniverse/dae/component/sniffing"
	"github.com/daeuniverse/dae/control"
	"github.com/daeuniverse/dae/verifx/vlib"
)

type histSym struct {
	name   string
	dgram  []byte // nil: CompactPacketState
	strict bool   // a decryptable Initial holding only PADDING/PING/CRYPTO
}

type histObs struct {
	name     string
	err      string
	needMore bool
	panicked string
	dataOK   bool
}

func (o histObs) String() string {
	if o.panicked != "" {
		return "panic@" + o.panicked
	}
	return fmt.Sprintf("(%q,%s,needMore=%v,data=%v)", o.name, o.err, o.needMore, o.dataOK)
}

// runHistory executes ops on one sniffer (fresh when s == nil) and returns one observation per datagram op.
func runHistory(ops []histSym) (obs []histObs) {
	var s *sniffing.Sniffer
	var since [][]byte // datagrams appended since the last compaction
	for _, op := range ops {
		var o histObs
		if p, msg := vlib.Try(func() {
			if s == nil {
				s = sniffing.NewPacketSniffer(nil, time.Hour)
			}
			if op.dgram == nil {
				s.CompactPacketState()
				since = nil
				o.needMore = s.NeedMore()
				d := s.Data()
				o.dataOK = len(d) == 1 && len(d[0]) == 0
				o.err = "compact"
				return
			}
			in := clone(op.dgram)
			s.AppendData(in)
			name, err := s.SniffUdp()
			for k := range in {
				in[k] = 0xEE
			}
			since = append(since, op.dgram)
			o.name, o.err, o.needMore = name, errClass(err), s.NeedMore()
			d := s.Data()
			o.dataOK = len(d) == len(since)+1 && len(d[0]) == 0
			for j := 0; o.dataOK && j < len(since); j++ {
				o.dataOK = bytes.Equal(d[j+1], since[j])
			}
		}); p {
			o.panicked = panicSite(msg)
			obs = append(obs, o)
			return obs // a sniffer that panicked is abandoned (udp.go marks the DCID failed)
		}
		obs = append(obs, o)
	}
	if s != nil {
		vlib.Try(func() { s.Close() })
	}
	return obs
}

func legUDPHistories(thorough bool) {
	hs := buildHello(quicHellos[0]).hs
	cut := 70
	mk := func(pn uint32, pnLen int, payload []byte) []byte {
		return encodeInitial(pktSpec{v: quicV1, dcid: quicDcid, pn: pn, pnLen: pnLen, payload: payload})
	}
	p1 := mk(0, 2, cat(frCrypto(0, hs[:cut]), make([]byte, 120))) // the longest datagram
	p2 := mk(1, 2, frCrypto(cut, hs[cut:]))
	whole := mk(2, 1, cat(frCrypto(0, hs), []byte{0, 0, 0}))
	short := mk(3, 1, []byte{1, 0, 0, 0, 0, 0}) // a valid Initial with PING/PADDING only, shorter than every other datagram
	bad := clone(p2)
	bad[len(bad)-9] ^= 0x10 // Initial-shaped, same DCID, does not decrypt
	nonq := []byte("\x17\x03\x03 not a long-header packet")
	// the same Initials with a packet of another kind coalesced behind them (RFC 9000 section 12.2): what is left of such a
	// datagram behind its Initial must not be looked at again when the next datagram arrives
	p1z := cat(p1, otherPacket(quicV1, trZeroRTT, quicDcid, nil))
	sk := cat(short, otherPacket(quicV1, trShort, quicDcid, nil))
	alpha := []histSym{
		{"P1", p1, true}, {"P2", p2, true}, {"W", whole, true}, {"S", short, true}, {"X", bad, false}, {"N", nonq, false}, {"C", nil, false},
		{"P1z", p1z, true}, {"Sk", sk, true},
	}
	if !(len(short) < len(p2) && len(p2) < len(whole) && len(whole) < len(p1)) {
		report("udp-history", "harness", "0", fmt.Sprintf("datagram lengths not ordered: S=%d P2=%d W=%d P1=%d", len(short), len(p2), len(whole), len(p1)), nil)
	}
	want := normName(quicHellos[0].sni[0].name)
	depth := 4
	if thorough {
		depth = 5
	}
	var hists [][]int
	var rec func(cur []int)
	rec = func(cur []int) {
		if len(cur) > 0 {
			hists = append(hists, append([]int(nil), cur...))
		}
		if len(cur) == depth {
			return
		}
		for i := range alpha {
			rec(append(cur, i))
		}
	}
	rec(nil)
	R.Set("udp_histories", len(hists))
	cases := R.Counter("udp_history_cases")
	found := R.Counter("udp_history_name_found")
	diffs := R.Counter("udp_history_fresh_sniffer_comparisons")
	R.Sample(map[string]any{"leg": "udp-history", "alphabet": "P1=Initial with CRYPTO[0,70)+padding, P2=Initial with CRYPTO[70,end), W=whole hello, S=short Initial (PING/PADDING), X=P2 with one ciphertext bit flipped, N=not a long-header packet, C=CompactPacketState, P1z=P1 with a 0-RTT packet coalesced behind it, Sk=S with a short-header packet behind it",
		"example": "P1 X C P1 P2", "P1": hx(p1), "P2": hx(p2)})
	R.ParallelFor(len(hists), func(hi int) {
		h := hists[hi]
		ops := make([]histSym, len(h))
		var names []string
		for i, a := range h {
			ops[i] = alpha[a]
			names = append(names, alpha[a].name)
		}
		desc := strings.Join(names, " ")
		key := fmt.Sprintf("%d|%s", len(h), desc)
		cases.Add(1)
		evals.Add(int64(len(h)))
		distinct(fnv([]byte("hist"), []byte(desc)))
		obs := runHistory(ops)
		// reference, from the text: which CRYPTO bytes did well-formed Initials deliver since the last compaction
		var since [][]byte
		clean := true // every datagram since the last compaction is a well-formed Initial
		sticky := false
		for i, o := range obs {
			op := ops[i]
			detail := func() map[string]any {
				var os []string
				for _, x := range obs {
					os = append(os, x.String())
				}
				return map[string]any{"history": desc, "observations": os, "step": i}
			}
			if o.panicked != "" {
				report("udp-history", "panic "+o.panicked, key, fmt.Sprintf("panic at %s in step %d (%s) of history [%s] on one packet sniffer", o.panicked, i, op.name, desc), detail())
				return
			}
			if !o.dataOK {
				report("udp-history", "data-differs", key, fmt.Sprintf("Sniffer.Data() after step %d (%s) of history [%s] is not the datagrams appended since the last compaction", i, op.name, desc), detail())
			}
			if op.dgram == nil {
				since, clean = nil, true
				if o.needMore {
					report("udp-history", "needmore-after-compaction", key, fmt.Sprintf("NeedMore() still true after CompactPacketState, history [%s]", desc), detail())
				}
				continue
			}
			since = append(since, op.dgram)
			clean = clean && op.strict
			if o.err == "nil" && o.name != "" {
				found.Add(1)
				if normName(o.name) != want {
					report("udp-history", "wrong-name", key, fmt.Sprintf("reported %q in step %d of history [%s]; the only name any datagram carries is %q", o.name, i, desc, want), detail())
				}
				sticky = true
				continue
			}
			if sticky {
				report("udp-history", "result-lost", key, fmt.Sprintf("the name was reported earlier but step %d (%s) of history [%s] says %s", i, op.name, desc, o), detail())
				continue
			}
			if clean {
				if v := refQuicSequence(since); v.required {
					report("udp-history", "not-recognised", key, fmt.Sprintf("well-formed Initials since the last compaction hold the complete ClientHello of %q at step %d (%s) of history [%s]: sniffer says %s", v.name, i, op.name, desc, o), detail())
				}
			}
		}
		// CompactPacketState promises a session that only keeps its logical result: when no name was known at the
		// compaction, what follows must be observed exactly as on a fresh sniffer
		nameKnown := false
		for i, op := range ops {
			if i < len(obs) && obs[i].err == "nil" && obs[i].name != "" {
				nameKnown = true
			}
			if op.dgram != nil || nameKnown || i+1 >= len(ops) || i >= len(obs) {
				continue
			}
			diffs.Add(1)
			fresh := runHistory(ops[i+1:])
			rest := obs[i+1:]
			same := len(fresh) == len(rest)
			for j := 0; same && j < len(fresh); j++ {
				same = fresh[j] == rest[j]
			}
			if !same {
				report("udp-history", "compacted-differs-from-fresh", key, fmt.Sprintf("history [%s]: after the compaction at step %d the session answers %v, a fresh sniffer answers %v to the same datagrams", desc, i, rest, fresh),
					map[string]any{"history": desc, "compaction_at": i, "compacted": fmt.Sprint(rest), "fresh": fmt.Sprint(fresh)})
				return
			}
		}
	})
}

// ---- two connections through the real TCP sniff glue ------------------------------------------------------------------

type glueConn struct {
	name   string
	chunks [][]byte
}

type glueState struct {
	c      glueConn
	conn   *sconn
	probe  net.Conn
	sniff  bool
	cs     *sniffing.ConnSniffer
	name   string
	serr   error
	got    []byte
	derr   error
	failed string
}

// drainProbe: the relay reading a connection that was not handed to a ConnSniffer (prefixedConn or the bare conn).
func drainProbe(c net.Conn, route int, limit int, out *[]byte) (err error) {
	if route == 1 {
		if p, ok := c.(interface{ TakeRelayPrefix() []byte }); ok {
			*out = append(*out, p.TakeRelayPrefix()...)
		}
		if r, ok := c.(interface {
			CopyRelayRemainder(dst io.Writer, buf []byte, record func(int64)) (int64, error)
		}); ok {
			bp := relayBufs.Get().(*[]byte)
			defer relayBufs.Put(bp)
			_, err = r.CopyRelayRemainder(sink{out}, *bp, nil)
			return err
		}
	}
	buf := make([]byte, 7)
	for it := 0; it < limit+64; it++ {
		n, er := c.Read(buf)
		*out = append(*out, buf[:n]...)
		if er == io.EOF {
			return nil
		}
		if er != nil {
			return er
		}
	}
	return fmt.Errorf("relay read loop does not terminate")
}

func legTCPGlue() {
	rec := tlsRecord(13, buildHello(helloSpec{ver: 13, sidLen: 32, nCS: 2, exts: []int{extSNI, extALPN, extSV}, sni: []sniEntry{{0, "glue-a.example.com"}}}).hs)
	conns := []glueConn{
		{"tls", [][]byte{rec, later1}},
		{"tls-7+rest", [][]byte{rec[:7], rec[7:], later2}},
		{"http", [][]byte{[]byte("GET /x HTTP/1.1\r\nHost: glue-b.example.org\r\nAccept: */*\r\n\r\n"), later1}},
		{"ssh-banner", [][]byte{[]byte("SSH-2.0-OpenSSH_9.6p1 Debian-3\r\n"), later2}},
		{"binary-3", [][]byte{{0x00, 0x01, 0x02}, later1}},
		{"silent", nil},
	}
	// a ClientHello of 8 KiB (post-quantum key share) arriving in 1400-byte segments: many reads behind the 16-byte probe
	if bigSpec, ok := sizedHello(helloSpec{ver: 13, sidLen: 32, nCS: 2, exts: []int{extSV, extSNI}, sni: []sniEntry{{0, "glue-big.example.net"}}, bulkKind: bulkKeyShare, bulkAt: 0}, 8192); ok {
		big := tlsRecord(13, buildHello(bigSpec).hs)
		var chunks [][]byte
		for o := 0; o < len(big); o += 1400 {
			chunks = append(chunks, big[o:min(o+1400, len(big))])
		}
		conns = append(conns, glueConn{"tls-8k-in-1400s", append(chunks, later1)})
	}
	// every merge of A's (probe, sniff, relay) with B's (probe, sniff, relay)
	var merges [][]int // 0 = next step of A, 1 = next step of B
	var rec2 func(cur []int, a, b int)
	rec2 = func(cur []int, a, b int) {
		if a == 3 && b == 3 {
			merges = append(merges, append([]int(nil), cur...))
			return
		}
		if a < 3 {
			rec2(append(cur, 0), a+1, b)
		}
		if b < 3 {
			rec2(append(cur, 1), a, b+1)
		}
	}
	rec2(nil, 0, 0)
	cases := R.Counter("tcp_glue_cases")
	sniffed := R.Counter("tcp_glue_sniffed_connections")
	plain := R.Counter("tcp_glue_unsniffed_connections")
	R.Set("tcp_glue_interleavings", len(merges))
	R.Sample(map[string]any{"leg": "tcp-glue", "connections": []string{"tls", "tls-7+rest", "http", "ssh-banner", "binary-3", "silent", "tls-8k-in-1400s"}, "steps": "probe (control.prefetchForTcpSniff + isLikelyHttpOrTLSPrefix), sniff (ConnSniffer.SniffTcp when the gate says so), relay (drain to end of stream)", "interleavings": len(merges)})
	// sequential on one goroutine: the probe buffers come from a sync.Pool, whose reuse pattern is per P
	for ai, a := range conns {
		for bi, b := range conns {
			for mi, m := range merges {
				for routes := 0; routes < 4; routes++ {
					cases.Add(1)
					evals.Add(2)
					distinctExtra.Add(1)
					st := [2]*glueState{{c: a}, {c: b}}
					step := [2]int{}
					desc := fmt.Sprintf("A=%s B=%s order=%v routes=%d%d", a.name, b.name, m, routes&1, routes>>1)
					key := fmt.Sprintf("%d%d|%02d|%d", ai, bi, mi, routes)
					for _, who := range m {
						s := st[who]
						route := (routes >> uint(who)) & 1
						if s.failed == "" {
							if p, msg := vlib.Try(func() { glueStep(s, step[who], route) }); p {
								s.failed = "panic at " + panicSite(msg)
							}
						}
						step[who]++
					}
					for who, s := range st {
						tag := string(rune('A' + who))
						detail := map[string]any{"case": desc, "connection": tag + "=" + s.c.name, "client_sent": hx(cat(s.c.chunks...)), "relay_got": hx(s.got), "sniff": fmt.Sprintf("(%q,%v)", s.name, s.serr), "relay_error": fmt.Sprint(s.derr)}
						if s.failed != "" {
							report("tcp-glue", "failed "+s.failed, key, fmt.Sprintf("connection %s: %s in %s", tag, s.failed, desc), detail)
							continue
						}
						all := cat(s.c.chunks...)
						if s.sniff {
							sniffed.Add(1)
							v := refStream(all)
							checkName("tcp-glue", func() string { return key }, func() string { return "connection " + tag + " of " + desc }, s.name, s.serr, &v, true, func() map[string]any { return detail })
						} else {
							plain.Add(1)
						}
						if !bytes.Equal(s.got, all) {
							report("tcp-glue", "relay-bytes-differ", key, fmt.Sprintf("connection %s (%s): relay got %d bytes, client sent %d, first difference at %d, relay error=%v, in %s", tag, s.c.name, len(s.got), len(all), firstDiff(s.got, all), s.derr, desc), detail)
						}
						if s.cs != nil {
							vlib.Try(func() { s.cs.Close() })
						}
					}
				}
			}
		}
	}
}

func glueStep(s *glueState, step, route int) {
	switch step {
	case 0:
		s.conn = newSconn(s.c.chunks...)
		var err error
		s.probe, s.sniff, err = control.VerifTcpSniffProbe(s.conn, 30*time.Millisecond)
		if err != nil {
			s.failed = "probe error " + err.Error()
		}
	case 1:
		if s.sniff {
			s.cs = sniffing.NewConnSniffer(s.probe, time.Hour)
			s.name, s.serr = s.cs.SniffTcp()
		}
	case 2:
		limit := len(s.conn.all)
		if s.cs != nil && s.cs.VerifReadWouldBlock() {
			s.failed = "relay would block for ever: SniffTcp returned with the data-ready gate shut"
			return
		}
		if s.cs != nil {
			r := 0
			if route == 1 {
				r = 3
			}
			s.derr = drainRoute(s.cs, r, limit, &s.got)
		} else {
			s.derr = drainProbe(s.probe, route, limit, &s.got)
		}
	}
}
