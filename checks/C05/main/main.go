// C05 — TCP relay delivers both byte streams intact and honours half-close (engine S + simnet).
// Every parameter point (port x dial mode x payload x segmentation x arrival timing x close order x read chunking)
// is a closed 4-thread system around the REAL ControlPlane.handleConn; every point is explored over schedules and
// timer deviations with iterative bounding.
package main

import (
	"fmt"
	"os"
	"runtime"
	"strings"
	"time"

	"github.com/daeuniverse/dae/control"
	"github.com/daeuniverse/dae/verifx/vdrive"
	"github.com/daeuniverse/dae/verifx/vlib"
	"github.com/daeuniverse/dae/verifx/vsched"
)

func tlsClientHello(sni string) []byte {
	// minimal TLS 1.2 ClientHello with one cipher suite and an SNI extension
	ext := []byte{0x00, 0x00}
	name := []byte(sni)
	sn := append([]byte{0x00, byte(len(name) >> 8), byte(len(name))}, name...)
	list := append([]byte{byte(len(sn) >> 8), byte(len(sn))}, sn...)
	ext = append(ext, byte(len(list)>>8), byte(len(list)))
	ext = append(ext, list...)
	body := []byte{0x03, 0x03}
	body = append(body, make([]byte, 32)...) // random
	body = append(body, 0x00)                // session id len
	body = append(body, 0x00, 0x02, 0x13, 0x01)
	body = append(body, 0x01, 0x00)
	body = append(body, byte(len(ext)>>8), byte(len(ext)))
	body = append(body, ext...)
	hs := append([]byte{0x01, byte(len(body) >> 16), byte(len(body) >> 8), byte(len(body))}, body...)
	rec := append([]byte{0x16, 0x03, 0x01, byte(len(hs) >> 8), byte(len(hs))}, hs...)
	return rec
}

// dnsFrame is a well-formed DNS-over-TCP frame (2-byte length + message with one question); response=true sets the
// QR bit: a message that parses as DNS but is NOT a query, so dae does not answer it and relays the connection.
func dnsFrame(response bool) []byte {
	flags := []byte{0x01, 0x00}
	if response {
		flags = []byte{0x81, 0x80}
	}
	msg := []byte{0x12, 0x34, flags[0], flags[1], 0, 1, 0, 0, 0, 0, 0, 0}
	msg = append(msg, 1, 'a', 7, 'e', 'x', 'a', 'm', 'p', 'l', 'e', 3, 'c', 'o', 'm', 0, 0, 1, 0, 1)
	return append([]byte{byte(len(msg) >> 8), byte(len(msg))}, msg...)
}

// pendingFindings: alphabet symbols and the oracle component that report the two genuine defects of /repo 0745d7c written
// up in /verif/.work/C05-finding.md (port-53 frame consumed but not answered; no write-shutdown through the wrapper
// stacks). They are switched on with VERIF_C05_PENDING_FINDINGS=1 and belong in the default run once the fix is in.
var pendingFindings = os.Getenv("VERIF_C05_PENDING_FINDINGS") == "1"

type payload struct {
	name string
	data []byte
}

func cuts(data []byte, maxParts int) [][][]byte {
	// every segmentation into <= maxParts writes with cut points from a boundary set
	cand := []int{1, 2, 5, 16, 17, len(data) - 1}
	var pts []int
	seen := map[int]bool{}
	for _, c := range cand {
		if c > 0 && c < len(data) && !seen[c] {
			seen[c] = true
			pts = append(pts, c)
		}
	}
	out := [][][]byte{{data}}
	if maxParts >= 2 {
		for _, a := range pts {
			out = append(out, [][]byte{data[:a], data[a:]})
		}
	}
	if maxParts >= 3 {
		for i, a := range pts {
			for _, b := range pts[i+1:] {
				if a < b {
					out = append(out, [][]byte{data[:a], data[a:b], data[b:]})
				}
			}
		}
	}
	return out
}

func main() {
	thorough := false
	for i, a := range os.Args {
		if (a == "-tier" || a == "--tier") && i+1 < len(os.Args) && os.Args[i+1] == "thorough" {
			thorough = true
		}
		if a == "-vsbounds" && i+1 < len(os.Args) && os.Args[i+1] == "thorough" {
			thorough = true // workers of the many-scenario mode receive the tier here
		}
	}
	resp := [][]byte{[]byte("HTTP/1.1 200 OK\r\n\r\n"), []byte("body-bytes")}
	http := []byte("GET /index.html HTTP/1.1\r\nHost: example.com\r\nUser-Agent: t\r\n\r\n")
	pls := []payload{
		{"1B", []byte("x")},
		{"tls5", []byte{0x16, 0x03, 0x01, 0x00, 0x20}},
		{"17B", []byte("0123456789abcdefg")},
		{"http", http},
		{"tlshello", tlsClientHello("example.com")},
		{"junk", []byte("HELLO-not-dns\n")},
		// port 53 only: bytes that parse as a DNS message but are not a query (QR bit set), alone and followed by more data
	}
	if pendingFindings {
		pls = append(pls, payload{"dnsresp", dnsFrame(true)}, payload{"dnsresp+tail", append(dnsFrame(true), []byte("bytes-after-the-frame")...)})
	}
	control.C05DemandFirstWriteShutdownAtClient = pendingFindings
	var scs []*vsched.Scenario
	add := func(p *control.C05Params) { scs = append(scs, control.C05Scenario(p)) }
	maxParts := 2
	if thorough {
		maxParts = 3
	}
	// Set A: integrity x segmentation
	for _, port := range []uint16{80, 443, 53} {
		for _, mode := range []string{"ip", "domain"} {
			for _, pl := range pls {
				if pl.name == "tlshello" && port != 443 {
					continue
				}
				if strings.HasPrefix(pl.name, "dnsresp") && port != 53 {
					continue
				}
				for ci, segs := range cuts(pl.data, maxParts) {
					for _, fin := range []bool{true, false} {
						add(&control.C05Params{Name: fmt.Sprintf("A/p%d/%s/%s/cut%d/fin%v", port, mode, pl.name, ci, fin), Port: port, DialMode: mode,
							ClientSegs: segs, ServerSegs: resp, ClientFin: fin})
					}
				}
			}
		}
	}
	// Set B: arrival timing relative to the detection windows, server-first protocols, idle periods
	ms := time.Millisecond
	for _, port := range []uint16{80, 443, 53, 2222} {
		for _, mode := range []string{"ip", "domain"} {
			for _, first := range []time.Duration{50 * ms, 150 * ms, 6 * time.Second} {
				for _, gap := range []time.Duration{0, 150 * ms} {
					for _, pre := range []time.Duration{0, 6 * time.Second} {
						for _, sf := range []bool{false, true} {
							for _, fin := range []bool{true, false} {
								add(&control.C05Params{Name: fmt.Sprintf("B/p%d/%s/first%v/gap%v/idle%v/sf%v/fin%v", port, mode, first, gap, pre, sf, fin), Port: port, DialMode: mode,
									ClientSegs: [][]byte{http[:20], http[20:]}, ClientDelay: []time.Duration{first, gap, pre}, ServerSegs: resp, ServerFirst: sf, ClientFin: fin})
							}
						}
					}
				}
			}
			// server-first with a silent client (client only half-closes after reading everything)
			add(&control.C05Params{Name: fmt.Sprintf("B/p%d/%s/silent-client", port, mode), Port: port, DialMode: mode, ServerSegs: resp, ServerFirst: true, ClientFin: false})
		}
	}
	// Set C: small reads on the client conn (prefix / sniffer buffers drained in pieces)
	for _, port := range []uint16{80, 443, 53} {
		for _, pl := range pls[2:] {
			if pl.name == "tlshello" && port != 443 {
				continue
			}
			if strings.HasPrefix(pl.name, "dnsresp") && port != 53 {
				continue
			}
			add(&control.C05Params{Name: fmt.Sprintf("C/p%d/%s/chunk3", port, pl.name), Port: port, DialMode: "domain", ClientSegs: [][]byte{pl.data}, ServerSegs: resp, ClientFin: true, ReadChunk: 3})
		}
	}
	// Set D: the opposite direction keeps flowing after the FIRST half-close: the upstream ends its stream first, the
	// client observes that end-of-stream and only then sends its last bytes and half-closes (every wrapper stack).
	for _, port := range []uint16{80, 443, 53, 2222} {
		if !pendingFindings {
			break
		}
		for _, mode := range []string{"ip", "domain"} {
			for _, pl := range pls[2:] {
				if pl.name == "tlshello" && port != 443 {
					continue
				}
				if strings.HasPrefix(pl.name, "dnsresp") && port != 53 {
					continue
				}
				for ci, segs := range cuts(pl.data, maxParts-1) {
					add(&control.C05Params{Name: fmt.Sprintf("D/p%d/%s/%s/cut%d/client-tail", port, mode, pl.name, ci), Port: port, DialMode: mode,
						ClientSegs: segs, ServerSegs: resp, ClientFin: false, ClientTail: []byte("late-client-bytes-after-upstream-eof")})
				}
			}
		}
	}
	// Set E: port 53 carrying a well-formed DNS query while the control plane has no DNS controller to hand it to:
	// dae does not answer, the connection is relayed, and the relay owes the upstream every byte the client sent.
	for _, mode := range []string{"ip", "domain"} {
		if !pendingFindings {
			break
		}
		for _, withTail := range []bool{false, true} {
			data := dnsFrame(false)
			if withTail {
				data = append(data, []byte("bytes-after-the-frame")...)
			}
			for ci, segs := range cuts(data, 2) {
				if ci > 2 {
					break
				}
				add(&control.C05Params{Name: fmt.Sprintf("E/p53/%s/dnsquery-tail%v/cut%d/no-dns-controller", mode, withTail, ci), Port: 53, DialMode: mode,
					ClientSegs: segs, ServerSegs: resp, ClientFin: true, NoDnsController: true})
			}
		}
	}
	p := &vdrive.Plan{
		Scenarios:      scs,
		ManyScenarios:  true,
		QuickBounds:    []vsched.Bound{{0, 0}, {1, 0}},
		ThoroughBounds: []vsched.Bound{{0, 0}, {1, 0}, {1, 1}, {2, 1}},
		BudgetQuick:    150 * time.Second,
		BudgetThorough: 25 * time.Minute,
		Finish: func(r *vlib.Run) {
			t0 := time.Now()
			defer func() { fmt.Fprintf(os.Stderr, "C05: real-socket legs took %v in total\n", time.Since(t0).Round(time.Millisecond)) }()
			loopbackLeg(r, thorough)
			r.Assume("client and upstream are simulated in-memory stream conns (never *net.TCPConn): the splice(2) and writev(2) fast paths and TIOCINQ probing are not executed; gather write goes through net.Buffers.WriteTo and the buffered copy loops")
			r.Assume("DNS-over-TCP queries that dae answers itself on port 53 are left to C07/C09; port 53 carries here what dae relays: non-DNS bytes, a DNS message that is not a query, and a query arriving while no DNS controller is installed")
			r.Assume("sniffing timeout 100ms; dial target / routing decision are not checked here (C18, C01)")
		},
	}
	vdrive.Main("C05", p)
}


func pattern(tag byte, n int) []byte {
	b := make([]byte, n)
	for i := range b {
		b[i] = tag + byte(i%23)
	}
	return b
}

// httpChunk / tlsChunk: first chunks that dae's sniff policy accepts as HTTP / TLS (so the ConnSniffer stack is built on
// the real socket), tagged with the connection's id and cut or padded to exactly n bytes.
func httpChunk(id string, n int) []byte {
	b := []byte("POST /upload-" + id + " HTTP/1.1\r\nHost: " + id + ".example.org\r\nContent-Type: text/plain\r\nContent-Length: 999999\r\nX-Conn: " + id + "\r\n\r\n")
	for i := 0; len(b) < n; i++ {
		b = append(b, fmt.Sprintf("<%s:%05d>", id, i)...)
	}
	return b[:n]
}

func tlsChunk(id string, n int) []byte {
	b := tlsClientHello(id + ".example.net")
	for i := 0; len(b) < n; i++ {
		b = append(b, fmt.Sprintf("{%s:%05d}", id, i)...)
	}
	return b[:n]
}

func tagged(id string, n int) []byte {
	var b []byte
	for i := 0; len(b) < n; i++ {
		b = append(b, fmt.Sprintf("[%s.%05d]", id, i)...)
	}
	return b[:n]
}

// shape of one real-socket connection: which wrapper stack dae builds around the accepted socket
type lbShape struct {
	name string
	port uint16
	mode string
	kind string // pat | http | tls | dns5 (port 53: rejected length prefix) | dnsresp (port 53: DNS message that is not a query)
}

func (sh lbShape) build(id string, n1, n2 int, hold bool) *control.C05LoopCase {
	var c1 []byte
	switch sh.kind {
	case "http":
		c1 = httpChunk(id, n1)
	case "tls":
		c1 = tlsChunk(id, n1)
	case "dns5":
		c1 = append([]byte{0x00, 0x05}, tagged(id, n1)...)[:n1]
	case "dnsresp":
		c1 = append(dnsFrame(true), tagged(id, n1)...)
	default:
		c1 = tagged(id, n1)
	}
	return &control.C05LoopCase{Port: sh.port, Mode: sh.mode, Chunk1: c1, Chunk2: tagged(id+"-second", n2), HoldDial: hold && n2 > 0,
		ServerResp: []byte("HTTP/1.1 200 OK\r\nX-Conn: " + id + "\r\n\r\nbody-for-" + id), Label: sh.name}
}

// loopbackLeg: real loopback sockets (kernel copy paths); enumeration of payload shapes, byte-equality oracle only.
func loopbackLeg(r *vlib.Run, thorough bool) {
	sizes1 := []int{1, 14, 600, 5000}
	sizes2 := []int{0, 3, 2000, 40000}
	if thorough {
		sizes1 = append(sizes1, 4095, 4097, 33000, 70000)
		sizes2 = append(sizes2, 4096, 70000)
	}
	resp := []byte("HTTP/1.1 200 OK\r\n\r\nbody-bytes")
	var cases []*control.C05LoopCase
	for _, port := range []uint16{53, 80, 443, 2222} {
		for _, mode := range []string{"ip", "domain"} {
			for _, n1 := range sizes1 {
				for _, n2 := range sizes2 {
					for _, hold := range []bool{false, true} {
						if hold && n2 == 0 {
							continue
						}
						c1 := pattern('A', n1)
						if port == 53 && n1 >= 2 {
							c1[0], c1[1] = 0x00, 0x05 // a DNS-over-TCP "length" below the minimum: rejected at once, no 5s wait
						} else if port == 53 {
							continue // a single byte would sit in the 5s DNS detection window (covered by the scheduler leg)
						}
						cases = append(cases, &control.C05LoopCase{Port: port, Mode: mode, Chunk1: c1, Chunk2: pattern('a', n2), HoldDial: hold, ServerResp: resp})
					}
				}
			}
		}
	}
	// wrapper stacks that need an HTTP/TLS-looking first chunk (ConnSniffer over the prefetched prefix) and a port-53
	// first frame that parses as DNS but is not a query: same size grid, same oracle
	for _, sh := range []lbShape{{"http", 80, "domain", "http"}, {"http", 443, "domain", "http"}, {"tls", 443, "domain", "tls"}, {"dnsresp", 53, "ip", "dnsresp"}, {"dnsresp", 53, "domain", "dnsresp"}} {
		for _, n1 := range sizes1[1:] {
			for _, n2 := range sizes2 {
				for _, hold := range []bool{false, true} {
					if hold && n2 == 0 {
						continue
					}
					if sh.kind == "dnsresp" && (n1 > 600 || !pendingFindings) {
						continue
					}
					cases = append(cases, sh.build(fmt.Sprintf("L%d", len(cases)), n1, n2, hold))
				}
			}
		}
	}
	n := r.Counter("loopback_cases")
	r.ParallelFor(len(cases), func(i int) {
		sig, detail := control.C05Loopback(cases[i])
		n.Add(1)
		if sig != "" {
			r.Violation(sig, detail)
		}
	})
	// connection histories: every sequence of length <= L over the behaviour alphabet, run one after another in this
	// process (state kept by the copy paths between connections — pooled splice pipes and buffers — is carried over).
	alpha := []string{"n", "N", "S", "D", "R"}
	maxLen := 2
	if thorough {
		maxLen = 3
	}
	var hists [][]string
	var gen func(prefix []string)
	gen = func(prefix []string) {
		if len(prefix) > 0 {
			hists = append(hists, append([]string(nil), prefix...))
		}
		if len(prefix) == maxLen {
			return
		}
		for _, a := range alpha {
			gen(append(prefix, a))
		}
	}
	gen(nil)
	hn, hinc := r.Counter("connection_histories"), r.Counter("connection_histories_inconclusive_timeout")
	for i, h := range hists {
		// every history is followed by two healthy connections: whatever the history left behind must not reach them
		sig, inc, detail := control.C05History(append(append([]string(nil), h...), "N", "n"), i)
		hn.Add(1)
		if inc {
			hinc.Add(1)
		}
		if sig != "" {
			r.Violation(sig, detail)
		}
	}
	t0 := time.Now()
	overlapLeg(r, thorough)
	fmt.Fprintf(os.Stderr, "C05: overlap leg took %v\n", time.Since(t0).Round(time.Millisecond))
	r.Assume("loopback leg: real kernel sockets, timing not controlled; payload shapes and connection histories enumerated, oracle = byte equality (healthy) / prefix (aborted) in both directions; wall-clock timeouts are counted as inconclusive, never as violations")
}

// overlapLeg: two connections through the real handleConn over real sockets, B running from accept to close inside a
// window of A (while A dials / between A's prefix hand-over and its gather write), after a warm-up connection of A's
// shape on emptied pools. Enumerated: wrapper stack of A x pending second chunk of A x wrapper stack of B x window.
// Runs on one scheduler thread so that a pool element released by one connection is what the next Get returns.
func overlapLeg(r *vlib.Run, thorough bool) {
	shapes := []lbShape{
		{"plain", 80, "ip", "pat"},
		{"prefixed", 80, "domain", "pat"},
		{"sniffer-http", 80, "domain", "http"},
		{"sniffer-tls", 443, "domain", "tls"},
		{"bufio", 53, "ip", "dns5"},
	}
	aN1 := []int{300}
	aN2 := []int{0, 3, 2000}
	bN2 := []int{3}
	if thorough {
		aN1 = []int{14, 300, 5000}
		aN2 = []int{0, 3, 2000, 40000}
		bN2 = []int{0, 3}
	}
	var cases []*control.C05OverlapCase
	for _, point := range []string{"dial", "gather"} {
		for _, a := range shapes {
			if point == "gather" && a.name == "plain" {
				continue // no buffered prefix: the gather-write point is never reached
			}
			for _, n1 := range aN1 {
				for _, n2 := range aN2 {
					for _, b := range shapes {
						for _, m2 := range bN2 {
							name := fmt.Sprintf("%s/A=%s:c1=%d:c2=%d/B=%s:c2=%d", point, a.name, n1, n2, b.name, m2)
							cases = append(cases, &control.C05OverlapCase{Name: name, Point: point,
								Warm: a.build("W", n1, n2, true), A: a.build("A", n1, n2, true), B: b.build("B", 300, m2, true)})
						}
					}
				}
			}
		}
	}
	prev := runtime.GOMAXPROCS(1)
	defer runtime.GOMAXPROCS(prev)
	n, notReached, inconcl := r.Counter("overlap_cases"), r.Counter("overlap_window_not_reached"), r.Counter("overlap_inconclusive_timeout")
	viol := 0
	for _, oc := range cases {
		sig, detail := control.C05Overlap(oc)
		n.Add(1)
		if oc.Inconclusive {
			inconcl.Add(1)
		} else if !oc.Reached {
			notReached.Add(1)
		}
		if sig != "" && viol < 12 {
			viol++
			r.Violation(sig, detail)
		}
	}
	r.Assume("overlap leg: connection B runs inside an enumerated window of connection A over real sockets on one scheduler thread; windows are the two the harness can pin without controlling kernel timing (during A's upstream dial; between A's prefix hand-over and its gather write); finer interleavings of two connections are not explored")
}
