//go:build verif

// Shared in-package harness of checks C15/C16, NOT instrumented part: exact dumps of private state and views for
// the oracles (plain reads; the caller is the only running thread).
package dialer

import (
	"fmt"
	"sort"
	"strings"
	"time"

	"github.com/daeuniverse/dae/common/consts"
)

func VerifSuppressionCounter() int32 { return reloadProxyFailureSuppression.Load() }
func VerifSuppressedNow() bool       { return proxyFailureSuppressedForReload() }

// VerifProxyFailureCount: current entry of the process-wide per-address failure tracker.
func VerifProxyFailureCount(addr string) int {
	globalProxyIpHealthTracker.Lock()
	defer globalProxyIpHealthTracker.Unlock()
	return int(globalProxyIpHealthTracker.failures[addr].count)
}

func verifGlobalsDump(sb *strings.Builder, now int64) {
	fmt.Fprintf(sb, "G[sup=%d", reloadProxyFailureSuppression.Load())
	if u := reloadProxyFailureSuppressUntil.Load(); u > now {
		fmt.Fprintf(sb, " until=+%d", u-now)
	}
	globalProxyIpHealthTracker.Lock()
	var addrs []string
	for a := range globalProxyIpHealthTracker.failures {
		addrs = append(addrs, a)
	}
	sort.Strings(addrs)
	for _, a := range addrs {
		e := globalProxyIpHealthTracker.failures[a]
		fmt.Fprintf(sb, " pf[%s]=%d", a, e.count)
	}
	globalProxyIpHealthTracker.Unlock()
	sb.WriteString("]")
}

// VerifGlobalsDump: suppression counter, remaining quiesce window, per-address failure counts (now = virtual now).
func VerifGlobalsDump(sb *strings.Builder, now int64) { verifGlobalsDump(sb, now) }

// ---- nodes -----------------------------------------------------------------------------------------------

// VerifNewDialer builds a node exactly like production does (NewDialer) on a fake transport, with the
// background checker disabled (probes are driven by VerifProbe through the real check()).
func VerifNewDialer(opt *GlobalOption, name, address string) *Dialer {
	p := &Property{}
	p.Name = name
	p.Address = address
	return NewDialer(verifNoopDialer{}, opt, InstanceOption{DisableCheck: true}, p)
}

func VerifName(d *Dialer) string {
	if d == nil {
		return "<nil>"
	}
	return d.property.Name
}

// VerifStdTypes: the six health domains in collection-index order 2..7
// (dns-udp4, dns-udp6, tcp4, tcp6, data-udp4, data-udp6).
func VerifStdTypes() [6]*NetworkType {
	var out [6]*NetworkType
	for i, idx := range []int{IdxDnsUdp4, IdxDnsUdp6, IdxTcp4, IdxTcp6, IdxUdp4, IdxUdp6} {
		k, _ := HealthKeyFromCollectionIndex(idx)
		out[i] = k.NetworkType()
	}
	return out
}

func VerifTypeName(t *NetworkType) string {
	if t == nil {
		return "<nil>"
	}
	switch t.HealthDomain() {
	case HealthDomainTCP:
		return "tcp" + string(t.IpVersion)
	case HealthDomainDnsUDP:
		return "dnsudp" + string(t.IpVersion)
	case HealthDomainDataUDP:
		return "dataudp" + string(t.IpVersion)
	}
	return "?"
}

// VerifMeasure: the node's own measurements for typ (not the group's cache): last sample, window (oldest first),
// moving average, and the recovery penalty currently in force.
func (d *Dialer) VerifMeasure(typ *NetworkType) (window []time.Duration, moving time.Duration, penalty time.Duration) {
	c := d.collections[typ.Index()]
	ln := c.Latencies10
	n := len(ln.latencies)
	for i := 0; i < n; i++ {
		if n < ln.N {
			window = append(window, ln.latencies[i])
		} else {
			window = append(window, ln.latencies[(ln.head+i)%ln.N])
		}
	}
	return window, c.MovingAverage, d.getBackoffPenaltyForType(typ)
}

func (d *Dialer) VerifCounters(typ *NetworkType) (probeFails int, trafficFails int) {
	idx := typ.Index()
	return d.failCount[idx], int(d.trafficFailCount[idx].Load())
}

func (d *Dialer) VerifBackoffLevel(typ *NetworkType) int {
	return d.getBackoffLevelByIndex(d.recoveryIdxForType(typ))
}

// VerifDump writes the complete health state of the node (every collection, both counters, latency window,
// moving average, last probe, registered sets, recovery levels and pending confirmation timers as
// deadline-minus-now). Times are relative to the virtual now, so equal dumps mean equal futures.
func (d *Dialer) VerifDump(sb *strings.Builder, now int64) {
	fmt.Fprintf(sb, "N%s{", d.property.Name)
	for _, idx := range []int{IdxDnsUdp4, IdxDnsUdp6, IdxTcp4, IdxTcp6, IdxUdp4, IdxUdp6} {
		c := d.collections[idx]
		a := 0
		if c.Alive.Load() {
			a = 1
		}
		fmt.Fprintf(sb, "c%d:a%d f%d t%d m%d w", idx, a, d.failCount[idx], d.trafficFailCount[idx].Load(), int64(c.MovingAverage))
		ln := c.Latencies10
		fmt.Fprintf(sb, "%v/h%d/s%d", ln.latencies, ln.head, int64(ln.SumNLatencies))
		lp := c.LastProbe
		if !lp.CheckedAt.IsZero() {
			fmt.Fprintf(sb, " p(%v,%d,%v)", lp.Alive, int64(lp.Latency), lp.HasLatency)
		}
		if len(c.AliveDialerSetSet) > 0 {
			var names []string
			for s, n := range c.AliveDialerSetSet {
				names = append(names, fmt.Sprintf("%s:%s*%d", s.dialerGroupName, VerifTypeName(s.CheckTyp), n))
			}
			sort.Strings(names)
			fmt.Fprintf(sb, " S%v", names)
		}
		sb.WriteByte(';')
	}
	if d.collections[IdxDnsTcp4] != d.collections[IdxTcp4] || d.collections[IdxDnsTcp6] != d.collections[IdxTcp6] {
		sb.WriteString("!tcpdns-alias-broken;")
	}
	for i := range d.recoveryState {
		st := &d.recoveryState[i]
		fmt.Fprintf(sb, "r%d:l%d s%d", i, st.backoffLevel, st.stableSuccessCount)
		if st.confirmTimer != nil {
			fmt.Fprintf(sb, " T(%s@+%d)", VerifTypeName(st.pendingNetworkType), st.confirmDeadlineUnixNano-now)
		}
		if lp := d.lastPunish[i].Load(); lp != 0 {
			age := now - lp
			if age >= int64(time.Second) {
				sb.WriteString(" P>=1s") // only `age < 1s` is ever tested
			} else {
				fmt.Fprintf(sb, " P%d", age)
			}
		}
		sb.WriteByte(';')
	}
	if d.reloadInheritedHealth.Load() {
		sb.WriteString("inh;")
	}
	sb.WriteByte('}')
}

// ---- alive sets ------------------------------------------------------------------------------------------

// VerifSetView is the group's view for one network type.
type VerifSetView struct {
	Policy     consts.DialerSelectionPolicy
	Tolerance  time.Duration
	Alive      []*Dialer                 // aliveEntries order
	Sorting    map[*Dialer]time.Duration // cached sorting latency of alive entries
	RawLatency map[*Dialer]time.Duration // dialerToLatency (present = the set holds a measurement)
	Index      map[*Dialer]int
	Min        *Dialer
	MinLatency time.Duration
}

func (a *AliveDialerSet) VerifView() *VerifSetView {
	v := &VerifSetView{Policy: a.selectionPolicy, Tolerance: a.tolerance, Sorting: map[*Dialer]time.Duration{},
		RawLatency: map[*Dialer]time.Duration{}, Index: map[*Dialer]int{}, Min: a.minLatency.dialer, MinLatency: a.minLatency.sortingLatency}
	for _, e := range a.aliveEntries {
		v.Alive = append(v.Alive, e.dialer)
		v.Sorting[e.dialer] = e.sortingLatency
	}
	for d, l := range a.dialerToLatency {
		v.RawLatency[d] = l
	}
	for d, i := range a.dialerToIndex {
		v.Index[d] = i
	}
	return v
}

// VerifStructural checks the internal index of the set: dense array <-> index map bijection, legal negative
// markers, cached best is a member. Returns human-readable problems (empty = consistent).
func (a *AliveDialerSet) VerifStructural() []string {
	var bad []string
	seen := map[*Dialer]bool{}
	for i, e := range a.aliveEntries {
		if e.dialer == nil {
			bad = append(bad, fmt.Sprintf("aliveEntries[%d] holds a nil node", i))
			continue
		}
		if seen[e.dialer] {
			bad = append(bad, fmt.Sprintf("node %s twice in aliveEntries", e.dialer.property.Name))
		}
		seen[e.dialer] = true
		if idx, ok := a.dialerToIndex[e.dialer]; !ok || idx != i {
			bad = append(bad, fmt.Sprintf("aliveEntries[%d]=%s but dialerToIndex says %d", i, e.dialer.property.Name, idx))
		}
	}
	var ds []*Dialer
	for d := range a.dialerToIndex {
		ds = append(ds, d)
	}
	sort.Slice(ds, func(i, j int) bool { return ds[i].property.Name < ds[j].property.Name })
	for _, d := range ds {
		idx := a.dialerToIndex[d]
		switch {
		case idx >= 0:
			if idx >= len(a.aliveEntries) || a.aliveEntries[idx].dialer != d {
				bad = append(bad, fmt.Sprintf("dialerToIndex[%s]=%d does not point at the node (len %d)", d.property.Name, idx, len(a.aliveEntries)))
			}
		case idx != -Init && idx != -NotAlive:
			bad = append(bad, fmt.Sprintf("dialerToIndex[%s]=%d is not a legal marker", d.property.Name, idx))
		}
	}
	if isMinLatencyPolicy(a.selectionPolicy) && a.minLatency.dialer != nil {
		if idx, ok := a.dialerToIndex[a.minLatency.dialer]; !ok || idx < 0 {
			bad = append(bad, fmt.Sprintf("cached best %s is not a member of the alive array", a.minLatency.dialer.property.Name))
		}
	}
	if isMinLatencyPolicy(a.selectionPolicy) && a.minLatency.dialer == nil && len(a.aliveEntries) > 0 {
		bad = append(bad, fmt.Sprintf("no cached best although %d node(s) are alive", len(a.aliveEntries)))
	}
	return bad
}

// VerifDump: aliveEntries in order with cached latency, index map, raw latency map, cached best.
func (a *AliveDialerSet) VerifDump(sb *strings.Builder) {
	fmt.Fprintf(sb, "%s:%s[", VerifTypeName(a.CheckTyp), a.selectionPolicy)
	for _, e := range a.aliveEntries {
		fmt.Fprintf(sb, "%s@%d ", VerifName(e.dialer), int64(e.sortingLatency))
	}
	sb.WriteString("|")
	var ds []*Dialer
	for d := range a.dialerToIndex {
		ds = append(ds, d)
	}
	sort.Slice(ds, func(i, j int) bool { return ds[i].property.Name < ds[j].property.Name })
	for _, d := range ds {
		fmt.Fprintf(sb, "%s=%d", d.property.Name, a.dialerToIndex[d])
		if l, ok := a.dialerToLatency[d]; ok {
			fmt.Fprintf(sb, "/%d", int64(l))
		}
		sb.WriteByte(' ')
	}
	fmt.Fprintf(sb, "|min=%s@%d]", VerifName(a.minLatency.dialer), int64(a.minLatency.sortingLatency))
}
