// C13 — UDP flows: ordered exactly-once tasks, single stable endpoint, leak-free (engine S).
package main

import (
	"time"

	"github.com/daeuniverse/dae/control"
	"github.com/daeuniverse/dae/verifx/vdrive"
	"github.com/daeuniverse/dae/verifx/vsched"
)

func main() {
	p := &vdrive.Plan{
		Scenarios:      append(control.VerifTaskPoolScenarios(), control.VerifEndpointPoolScenarios()...),
		QuickBounds:    []vsched.Bound{{0, 0}, {1, 1}, {2, 1}},
		ThoroughBounds: []vsched.Bound{{0, 0}, {1, 1}, {2, 1}, {2, 2}, {3, 2}},
		PerScenario: map[string]map[string][]vsched.Bound{
			"tp-overflow":    {"quick": {{0, 0}, {1, 0}, {1, 1}}, "thorough": {{0, 0}, {1, 1}, {2, 1}, {2, 2}}},
			"tp-2keys-3prod": {"quick": {{0, 0}, {1, 0}, {2, 0}}, "thorough": {{0, 0}, {2, 0}, {1, 1}, {2, 1}}},
		},
		BudgetQuick:    100 * time.Second,
		BudgetThorough: 20 * time.Minute,
	}
	vdrive.Main("C13", p)
}
