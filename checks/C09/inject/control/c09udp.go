//go:build verif

// C09 harness, packet path: the transparent-UDP reply path of the DNS controller (Handle_ with lConn set,
// writeCachedResponse / dialSend -> sendRuntimeTrackedPkt -> sendPkt -> DefaultAnyfromPool) needs a real socket.
// This file (NOT rewritten by vbuild: real clock, real sockets) provides loopback sockets created once per
// process: one sending socket pre-seeded into a janitor-less AnyfromPool under the address the harness uses as
// the clients' original destination, and one receiving socket per client. Loopback delivery is synchronous with
// sendto(), the sockets are only ever read without blocking after the clients are done.
package control

import (
	"fmt"
	"net"
	"net/netip"
	"sync"
	"syscall"
	"time"
)

const c9PktClients = 3

var (
	c9PktOnce     sync.Once
	c9PktErr      error
	c9PktSend     *net.UDPConn
	c9PktSendAddr netip.AddrPort
	c9PktRecv     [c9PktClients]*net.UDPConn
	c9PktRecvAddr [c9PktClients]netip.AddrPort
)

func c9PktInit() error {
	c9PktOnce.Do(func() {
		listen := func() (*net.UDPConn, netip.AddrPort, error) {
			c, err := net.ListenUDP("udp4", &net.UDPAddr{IP: net.IPv4(127, 0, 0, 1)})
			if err != nil {
				return nil, netip.AddrPort{}, err
			}
			ap := c.LocalAddr().(*net.UDPAddr).AddrPort()
			return c, netip.AddrPortFrom(ap.Addr().Unmap(), ap.Port()), nil
		}
		if c9PktSend, c9PktSendAddr, c9PktErr = listen(); c9PktErr != nil {
			return
		}
		for i := range c9PktRecv {
			if c9PktRecv[i], c9PktRecvAddr[i], c9PktErr = listen(); c9PktErr != nil {
				return
			}
		}
	})
	return c9PktErr
}

// c9PktInstall: a fresh pool without janitor holding the one sending socket; receiving sockets emptied.
func c9PktInstall() error {
	if err := c9PktInit(); err != nil {
		return fmt.Errorf("loopback sockets: %w", err)
	}
	for i := range c9PktRecv {
		c9PktDrain(i, 0)
	}
	p := &AnyfromPool{janitorStop: make(chan struct{}), janitorDone: make(chan struct{})}
	for i := range p.shards {
		p.shards[i].pool = make(map[netip.AddrPort]*Anyfrom, 1)
	}
	p.shardFor(c9PktSendAddr).pool[c9PktSendAddr] = &Anyfrom{UDPConn: c9PktSend} // ttl 0: never refreshed, never expired
	DefaultAnyfromPool = p
	return nil
}

// c9PktDrain returns every datagram queued on client i's socket without blocking; when fewer than want are
// there yet it retries briefly (real time; never decides anything: a missing reply is reported by the oracle).
func c9PktDrain(i int, want int) [][]byte {
	var out [][]byte
	rc, err := c9PktRecv[i].SyscallConn()
	if err != nil {
		return nil
	}
	for try := 0; ; try++ {
		for {
			buf := make([]byte, 4096)
			n := -1
			_ = rc.Read(func(fd uintptr) bool {
				k, _, e := syscall.Recvfrom(int(fd), buf, syscall.MSG_DONTWAIT)
				if e == nil {
					n = k
				}
				return true // never wait for readiness
			})
			if n < 0 {
				break
			}
			out = append(out, buf[:n])
		}
		if len(out) >= want || try >= 10 {
			return out
		}
		time.Sleep(200 * time.Microsecond)
	}
}
