// Reference reader for the dae configuration language, written from the grammar
// (module github.com/daeuniverse/dae-config-dist: lexer rules recovered from the serialized lexer
// ATN, parser rules from the generated recursive-descent code) and from the property text.
// It shares no code with pkg/config_parser and does not use ANTLR.
//
// Lexer (maximal munch; on a tie the earlier rule wins; rule order as below):
//
//	',' '{' '}' ':' '[' ']' '!' '(' ')' '->' '&&'
//	WHITESPACE          : [ \t\r\n]+                       (not seen by the parser)
//	COMMENT_BLOCK       : '/*' .*? '*/'                    (not seen by the parser)
//	COMMENT_LINE_SHARP  : '#' .*? ([\r\n]+ | EOF)          (not seen by the parser)
//	ID                  : [A-Za-z_] SAFE*
//	NON_ID              : [*+\-./0-9\\^] SAFE*
//	QUOTE_STRING        : '"' ('\\"' | .)*? '"'  |  '\'' ('\\\'' | .)*? '\''
//	SAFE                : [A-Za-z_] | [*+\-./0-9\\^] | [!#$%=@]
//
// Parser:
//
//	start      : section* EOF
//	section    : ID '{' item* '}'
//	item       : rule | declaration | literal | section
//	declaration: ID ':' (funcExpr | literal (',' literal)*) annotation?
//	annotation : '[' paramList? ']'
//	funcExpr   : function ('&&' function)*
//	function   : '!'? ID '(' paramList? ')'
//	paramList  : param (',' param)*
//	param      : ID ':' literal | literal
//	rule       : funcExpr '->' (ID | NON_ID | function)
//	literal    : ID | NON_ID | QUOTE_STRING
//
// On top of the grammar the reader reports (as the production walker must) an error for an empty
// parameter list "f()" and an empty annotation "[]": a function/annotation that spells no
// parameter has no faithful representation in the result.
package main

import (
	"fmt"
	"strconv"
	"strings"
	"unicode/utf8"
)

type tokKind int

const (
	tComma tokKind = iota
	tLBrace
	tRBrace
	tColon
	tLBrack
	tRBrack
	tNot
	tLParen
	tRParen
	tArrow
	tAnd
	tWS
	tCommentBlock
	tCommentLine
	tID
	tNonID
	tQuote
	tEOF
)

var literalToks = []string{",", "{", "}", ":", "[", "]", "!", "(", ")", "->", "&&"}

type token struct {
	kind tokKind
	text string
	pos  int
}

func isIDHead(c rune) bool { return c == '_' || (c >= 'A' && c <= 'Z') || (c >= 'a' && c <= 'z') }
func isNonIDHead(c rune) bool {
	return c == '*' || c == '+' || (c >= '-' && c <= '9') || c == '\\' || c == '^'
}
func isInter(c rune) bool {
	return c == '!' || c == '#' || c == '$' || c == '%' || c == '=' || c == '@'
}
func isSafe(c rune) bool { return isIDHead(c) || isNonIDHead(c) || isInter(c) }

// chars: the text as a sequence of characters with byte offsets; an invalid UTF-8 byte is one
// character that belongs to no class (it can only appear inside quotes and comments).
type char struct {
	r   rune
	off int
}

func decode(text string) []char {
	out := make([]char, 0, len(text)+1)
	for i := 0; i < len(text); {
		r, sz := utf8.DecodeRuneInString(text[i:])
		if r == utf8.RuneError && sz == 1 {
			r = -2 // invalid byte: no class
		}
		out = append(out, char{r, i})
		i += sz
	}
	return out
}

// refLex returns all parser-visible tokens plus every token incl. hidden ones (for token-level mutation).
func refLex(text string) (visible []token, all []token, err error) {
	cs := decode(text)
	n := len(cs)
	offAt := func(i int) int {
		if i >= n {
			return len(text)
		}
		return cs[i].off
	}
	i := 0
	for i < n {
		bestLen, bestKind := 0, tokKind(-1)
		consider := func(l int, k tokKind) {
			if l > bestLen { // strictly longer: rules are tried in declaration order, so ties keep the earlier
				bestLen, bestKind = l, k
			}
		}
		c := cs[i].r
		// literals
		for k, lit := range literalToks {
			ok := true
			for j, lc := range lit {
				if i+j >= n || cs[i+j].r != lc {
					ok = false
					break
				}
			}
			if ok {
				consider(len(lit), tokKind(k))
			}
		}
		// whitespace
		if c == ' ' || c == '\t' || c == '\n' || c == '\r' {
			j := i
			for j < n && (cs[j].r == ' ' || cs[j].r == '\t' || cs[j].r == '\n' || cs[j].r == '\r') {
				j++
			}
			consider(j-i, tWS)
		}
		// block comment
		if c == '/' && i+1 < n && cs[i+1].r == '*' {
			for j := i + 2; j+1 < n; j++ {
				if cs[j].r == '*' && cs[j+1].r == '/' {
					consider(j+2-i, tCommentBlock)
					break
				}
			}
		}
		// line comment
		if c == '#' {
			j := i + 1
			for j < n && cs[j].r != '\n' && cs[j].r != '\r' {
				j++
			}
			for j < n && (cs[j].r == '\n' || cs[j].r == '\r') {
				j++
			}
			consider(j-i, tCommentLine)
		}
		if isIDHead(c) {
			j := i + 1
			for j < n && isSafe(cs[j].r) {
				j++
			}
			consider(j-i, tID)
		}
		if isNonIDHead(c) {
			j := i + 1
			for j < n && isSafe(cs[j].r) {
				j++
			}
			consider(j-i, tNonID)
		}
		if c == '"' || c == '\'' {
			// non-greedy body with the alternative '\' quote: a quote that directly follows a backslash may
			// end the string only if no later quote can (the lexer keeps the longest overall match);
			// a quote not preceded by a backslash always ends it.
			soft := 0
			for j := i + 1; j < n; j++ {
				if cs[j].r == c {
					if j-1 > i && cs[j-1].r == '\\' {
						soft = j + 1 - i
						continue
					}
					soft = j + 1 - i
					break
				}
			}
			if soft > 0 {
				consider(soft, tQuote)
			}
		}
		if bestLen == 0 {
			return nil, nil, fmt.Errorf("lex: no token at offset %d", cs[i].off)
		}
		tk := token{kind: bestKind, text: text[cs[i].off:offAt(i+bestLen)], pos: cs[i].off}
		all = append(all, tk)
		if bestKind != tWS && bestKind != tCommentBlock && bestKind != tCommentLine {
			visible = append(visible, tk)
		}
		i += bestLen
	}
	return visible, all, nil
}

// ---- reference tree ----

type RParam struct {
	Key   string
	Val   string
	Funcs []*RFunc // declaration with a function expression
	Ann   []*RParam
}
type RFunc struct {
	Name   string
	Not    bool
	Params []*RParam
}
type RRule struct {
	And []*RFunc
	Out *RFunc
}
type RItem struct {
	P *RParam
	R *RRule
	S *RSection
}
type RSection struct {
	Name  string
	Items []*RItem
}

type refParser struct {
	toks []token
	p    int
}

func (p *refParser) la(k int) tokKind {
	if p.p+k >= len(p.toks) {
		return tEOF
	}
	return p.toks[p.p+k].kind
}
func (p *refParser) next() token { t := p.toks[p.p]; p.p++; return t }
func (p *refParser) expect(k tokKind) (token, error) {
	if p.la(0) != k {
		return token{}, fmt.Errorf("parse: token %d: want kind %d got %d", p.p, k, p.la(0))
	}
	return p.next(), nil
}
func isLit(k tokKind) bool { return k == tID || k == tNonID || k == tQuote }

func litValue(t token) string {
	if t.kind == tQuote {
		return t.text[1 : len(t.text)-1]
	}
	return t.text
}

func refParse(text string) ([]*RSection, error) {
	toks, _, err := refLex(text)
	if err != nil {
		return nil, err
	}
	p := &refParser{toks: toks}
	var out []*RSection
	for p.la(0) != tEOF {
		s, err := p.section()
		if err != nil {
			return nil, err
		}
		out = append(out, s)
	}
	return out, nil
}

func (p *refParser) section() (*RSection, error) {
	name, err := p.expect(tID)
	if err != nil {
		return nil, err
	}
	if _, err := p.expect(tLBrace); err != nil {
		return nil, err
	}
	s := &RSection{Name: name.text}
	for {
		k0, k1 := p.la(0), p.la(1)
		switch {
		case k0 == tID && k1 == tLBrace:
			sub, err := p.section()
			if err != nil {
				return nil, err
			}
			s.Items = append(s.Items, &RItem{S: sub})
		case k0 == tID && k1 == tColon:
			d, err := p.declaration()
			if err != nil {
				return nil, err
			}
			s.Items = append(s.Items, &RItem{P: d})
		case k0 == tNot || (k0 == tID && k1 == tLParen):
			r, err := p.rule()
			if err != nil {
				return nil, err
			}
			s.Items = append(s.Items, &RItem{R: r})
		case isLit(k0):
			s.Items = append(s.Items, &RItem{P: &RParam{Val: litValue(p.next())}})
		default:
			if _, err := p.expect(tRBrace); err != nil {
				return nil, err
			}
			return s, nil
		}
	}
}

func (p *refParser) declaration() (*RParam, error) {
	key := p.next()
	p.next() // ':'
	d := &RParam{Key: key.text}
	if p.la(0) == tNot || (p.la(0) == tID && p.la(1) == tLParen) {
		fs, err := p.funcExpr()
		if err != nil {
			return nil, err
		}
		d.Funcs = fs
	} else {
		var vals []string
		for {
			if !isLit(p.la(0)) {
				return nil, fmt.Errorf("parse: declaration value expected at token %d", p.p)
			}
			vals = append(vals, litValue(p.next()))
			if p.la(0) != tComma {
				break
			}
			p.next()
		}
		// the data model stores a value list as one string joined by ','
		d.Val = strings.Join(vals, ",")
	}
	if p.la(0) == tLBrack {
		p.next()
		ps, err := p.paramList(tRBrack)
		if err != nil {
			return nil, err
		}
		if len(ps) == 0 {
			return nil, fmt.Errorf("empty annotation")
		}
		d.Ann = ps
	}
	return d, nil
}

func (p *refParser) funcExpr() ([]*RFunc, error) {
	var fs []*RFunc
	for {
		f, err := p.function()
		if err != nil {
			return nil, err
		}
		fs = append(fs, f)
		if p.la(0) != tAnd {
			return fs, nil
		}
		p.next()
	}
}

func (p *refParser) function() (*RFunc, error) {
	f := &RFunc{}
	if p.la(0) == tNot {
		p.next()
		f.Not = true
	}
	name, err := p.expect(tID)
	if err != nil {
		return nil, err
	}
	f.Name = name.text
	if _, err := p.expect(tLParen); err != nil {
		return nil, err
	}
	ps, err := p.paramList(tRParen)
	if err != nil {
		return nil, err
	}
	if len(ps) == 0 {
		return nil, fmt.Errorf("empty parameter list")
	}
	f.Params = ps
	return f, nil
}

func (p *refParser) paramList(closer tokKind) ([]*RParam, error) {
	var ps []*RParam
	if p.la(0) == closer {
		p.next()
		return nil, nil
	}
	for {
		var pr *RParam
		if p.la(0) == tID && p.la(1) == tColon {
			k := p.next()
			p.next()
			if !isLit(p.la(0)) {
				return nil, fmt.Errorf("parse: parameter value expected at token %d", p.p)
			}
			pr = &RParam{Key: k.text, Val: litValue(p.next())}
		} else if isLit(p.la(0)) {
			pr = &RParam{Val: litValue(p.next())}
		} else {
			return nil, fmt.Errorf("parse: parameter expected at token %d", p.p)
		}
		ps = append(ps, pr)
		if p.la(0) == tComma {
			p.next()
			continue
		}
		if _, err := p.expect(closer); err != nil {
			return nil, err
		}
		return ps, nil
	}
}

func (p *refParser) rule() (*RRule, error) {
	fs, err := p.funcExpr()
	if err != nil {
		return nil, err
	}
	if _, err := p.expect(tArrow); err != nil {
		return nil, err
	}
	r := &RRule{And: fs}
	if p.la(0) == tNot || (p.la(0) == tID && p.la(1) == tLParen) {
		f, err := p.function()
		if err != nil {
			return nil, err
		}
		r.Out = f
	} else if p.la(0) == tID || p.la(0) == tNonID {
		r.Out = &RFunc{Name: p.next().text}
	} else {
		return nil, fmt.Errorf("parse: outbound expected at token %d", p.p)
	}
	return r, nil
}

// ---- canonical text of a tree (own format; both sides are rendered with it and compared) ----

func q(s string) string { return strconv.Quote(s) }

func canonParams(b *strings.Builder, ps []*RParam) {
	b.WriteString("[")
	for i, p := range ps {
		if i > 0 {
			b.WriteString(" ")
		}
		canonParam(b, p)
	}
	b.WriteString("]")
}
func canonParam(b *strings.Builder, p *RParam) {
	b.WriteString("P(k=" + q(p.Key) + " v=" + q(p.Val))
	if p.Funcs != nil {
		b.WriteString(" and=")
		canonFuncs(b, p.Funcs)
	}
	if p.Ann != nil {
		b.WriteString(" ann=")
		canonParams(b, p.Ann)
	}
	b.WriteString(")")
}
func canonFuncs(b *strings.Builder, fs []*RFunc) {
	b.WriteString("[")
	for i, f := range fs {
		if i > 0 {
			b.WriteString(" && ")
		}
		canonFunc(b, f)
	}
	b.WriteString("]")
}
func canonFunc(b *strings.Builder, f *RFunc) {
	if f.Not {
		b.WriteString("!")
	}
	b.WriteString("F(" + q(f.Name))
	if f.Params != nil {
		b.WriteString(" ")
		canonParams(b, f.Params)
	}
	b.WriteString(")")
}
func canonSection(b *strings.Builder, s *RSection) {
	b.WriteString("S(" + q(s.Name) + "){")
	for i, it := range s.Items {
		if i > 0 {
			b.WriteString("; ")
		}
		switch {
		case it.P != nil:
			canonParam(b, it.P)
		case it.R != nil:
			b.WriteString("R(")
			canonFuncs(b, it.R.And)
			b.WriteString(" -> ")
			canonFunc(b, it.R.Out)
			b.WriteString(")")
		case it.S != nil:
			canonSection(b, it.S)
		}
	}
	b.WriteString("}")
}
func canonSections(ss []*RSection) string {
	var b strings.Builder
	for i, s := range ss {
		if i > 0 {
			b.WriteString("\n")
		}
		canonSection(&b, s)
	}
	return b.String()
}
