#!/bin/bash
# tools/covrun.sh <ID> <tier> <coverpkg,...> — statement coverage of repo packages under a check (gap finder, not a check).
# go's -cover does not read overlay-only files, so the overlay is materialised into a scratch copy of the repo.
set -u
ID="$1"; TIER="${2:-quick}"; PKGS="$3"
VERIF="$(cd "$(dirname "$0")/.." && pwd)"
export GOFLAGS=-mod=mod GOPROXY=off GOSUMDB=off GOTOOLCHAIN=local
W="$VERIF/.work/cov"; mkdir -p "$W"
VERIF_BUILD_ONLY=1 VERIF_WORK="$W" "$VERIF/run" "$ID" "$TIER" || exit 2
S="/var/tmp/verif-covrepo-$ID"; rm -rf "$S"; mkdir -p "$S"
rsync -a --exclude .git /repo/ "$S/"
python3 - "$W/$ID/overlay.json" "$S" <<'PY'
import json,sys,os,shutil
ov=json.load(open(sys.argv[1]))['Replace']; S=sys.argv[2]
for k,v in ov.items():
    assert k.startswith('/repo/'),k
    d=S+k[len('/repo'):]
    if v=="":
        if os.path.exists(d): os.remove(d)
        continue
    os.makedirs(os.path.dirname(d),exist_ok=True); shutil.copyfile(v,d)
PY
cp "$W/$ID/go.mod" "$S/go.mod"; cp "$W/$ID/go.sum" "$S/go.sum" 2>/dev/null
LID="$(echo "$ID" | tr 'A-Z' 'a-z')"
(cd "$S" && go1.26 build -cover -coverpkg="$PKGS,github.com/daeuniverse/dae/verifx/$LID" -tags "$(cat "$W/$ID/tags")" -o "$W/$ID/check.cov" "./verifx/$LID") || exit 2
export GOCOVERDIR="$W/$ID/covdata"; rm -rf "$GOCOVERDIR"; mkdir -p "$GOCOVERDIR"
export VERIF_REPO=/repo VERIF_WORKDIR="$W/$ID" VERIF_ROOT="$VERIF"
mkdir -p "$W/ev" "$W/rp/$ID"
"$W/$ID/check.cov" -tier "$TIER" -evidence "$W/ev/$ID.json" -known "$VERIF/known_findings.json" -replaydir "$W/rp/$ID" >"$W/$ID/cov-run.log" 2>&1
echo "check exit=$?"
go1.26 tool covdata textfmt -i="$GOCOVERDIR" -o "$W/$ID/cover.txt"
(cd "$S" && go1.26 tool cover -func="$W/$ID/cover.txt" > "$W/$ID/cover-func.txt")
rm -rf "$S"
echo "wrote $W/$ID/cover.txt and cover-func.txt"
