package main

// Leg 1: C layout (kdrv --layout, i.e. the C compiler) vs Go layout (unsafe.Sizeof/Offsetof + reflect of the
// types package control compiles), field by field, padding included.
//
// Name normalisation (documented, symmetric): norm(x) = lower-case(x) with every '_' removed.
//   C  `last_seen_ns`, `u6_addr8`, `__value`, `prefixlen`, `dae0peer_mac`
//   Go `LastSeenNs`,   `U6Addr8`,  `Value`,   `PrefixLen`, `Dae0peerMac` / `dae0peerMac` (PARAM literal)
// Record names: C `struct tuples_key` / `union ip6`  <->  Go `bpfTuplesKey` (leading '_' and the `bpf` prefix
// dropped, then norm). Exceptions are the explicit tables below.

import (
	"fmt"
	"reflect"
	"sort"
	"strings"

	"github.com/daeuniverse/dae/control"
	"github.com/daeuniverse/dae/verifx/vkern"
)

// Go bpf* data structs with no C counterpart by design.
var goOnlyTypes = map[string]string{
	"bpfIfParams": "NIC checksum-offload capabilities detected by the control plane; never written to a map or constant",
}

func norm(s string) string { return strings.ToLower(strings.ReplaceAll(s, "_", "")) }

func goRecordNorm(goName string) string {
	n := strings.TrimPrefix(goName, "_")
	n = strings.TrimPrefix(n, "bpf")
	return norm(n)
}

func cRecordNorm(cName string) string {
	f := strings.Fields(cName)
	return norm(f[len(f)-1])
}

func isPadName(n string) bool {
	n = strings.TrimLeft(strings.ToLower(n), "_")
	return strings.HasPrefix(n, "pad") || strings.HasPrefix(n, "reserved") || strings.HasPrefix(n, "unused")
}

type unionStep struct{ uid, member int }

type cell struct {
	path   string // normalised, dot separated
	raw    string // as written
	off    int
	size   int
	elem   int // element size for arrays, else == size
	pad    bool
	blank  bool // Go `_` field
	unions []unionStep
	typ    string
	matched bool
}

type flatC struct {
	lay    *vkern.Layout
	cells  []*cell
	nextID int
	refs   map[string]bool
}

func (f *flatC) walk(fields []*vkern.LField, base int, npath, rpath string, unions []unionStep, inUnion int) {
	for i, fl := range fields {
		us := unions
		if inUnion >= 0 {
			us = append(append([]unionStep(nil), unions...), unionStep{inUnion, i})
		}
		if fl.Bitfield {
			continue
		}
		if fl.Anon {
			uid := -1
			if fl.Kind == "union" {
				f.nextID++
				uid = f.nextID
			}
			f.walk(fl.Fields, base, npath, rpath, us, uid)
			continue
		}
		np, rp := npath+norm(fl.Name), rpath+fl.Name
		off := base + fl.Offset
		isArr := fl.ElemSize > 0 && fl.ElemSize != fl.Size || strings.HasSuffix(strings.TrimSpace(fl.Type), "]")
		switch {
		case len(fl.Fields) > 0 && !isArr: // inline anonymous struct/union type with a member name
			uid := -1
			if fl.Kind == "union" {
				f.nextID++
				uid = f.nextID
			}
			// children offsets of inline records are relative to the enclosing NAMED record already
			f.walk(fl.Fields, base, np+".", rp+".", us, uid)
		case fl.Ref != "" && !isArr && f.lay.Record(fl.Ref) != nil:
			r := f.lay.Record(fl.Ref)
			f.refs[r.Name] = true
			uid := -1
			if r.Kind == "union" {
				f.nextID++
				uid = f.nextID
			}
			f.walk(r.Fields, off, np+".", rp+".", us, uid)
		default:
			es := fl.Size
			if fl.ElemSize > 0 {
				es = fl.ElemSize
			}
			f.cells = append(f.cells, &cell{path: np, raw: rp, off: off, size: fl.Size, elem: es, pad: isPadName(fl.Name), unions: us, typ: fl.Type})
		}
	}
}

func flattenC(lay *vkern.Layout, r *vkern.LRecord, refs map[string]bool) []*cell {
	f := &flatC{lay: lay, refs: refs}
	uid := -1
	if r.Kind == "union" {
		f.nextID++
		uid = f.nextID
	}
	f.walk(r.Fields, 0, "", "", nil, uid)
	return f.cells
}

func flattenGo(t reflect.Type, base uintptr, npath, rpath string, out *[]*cell) {
	for i := 0; i < t.NumField(); i++ {
		sf := t.Field(i)
		if sf.Type.Size() == 0 {
			continue // structs.HostLayout marker
		}
		off := int(base + sf.Offset)
		if sf.Name == "_" {
			*out = append(*out, &cell{path: npath + "_", raw: rpath + "_", off: off, size: int(sf.Type.Size()), elem: int(sf.Type.Size()), blank: true, typ: sf.Type.String()})
			continue
		}
		np, rp := npath+norm(sf.Name), rpath+sf.Name
		switch sf.Type.Kind() {
		case reflect.Struct:
			flattenGo(sf.Type, base+sf.Offset, np+".", rp+".", out)
		case reflect.Array:
			*out = append(*out, &cell{path: np, raw: rp, off: off, size: int(sf.Type.Size()), elem: int(sf.Type.Elem().Size()), pad: isPadName(sf.Name), typ: sf.Type.String()})
		default:
			*out = append(*out, &cell{path: np, raw: rp, off: off, size: int(sf.Type.Size()), elem: int(sf.Type.Size()), pad: isPadName(sf.Name), typ: sf.Type.String()})
		}
	}
}

func overlap(a, b *cell) bool { return a.off < b.off+b.size && b.off < a.off+a.size }

func (c *checker) compareRecord(r *vkern.LRecord, gt control.VerifC19Type) {
	tag := fmt.Sprintf("%s<->%s[%s %s]", r.Name, gt.Name, gt.Variant, gt.File)
	c.item("layout:size:"+tag, fmt.Sprintf("%d", r.Size))
	if r.Size != int(gt.Size) {
		c.viol("layout", fmt.Sprintf("layout %s: sizeof differs: C=%d Go=%d", tag, r.Size, gt.Size), map[string]any{"c": r, "go_type": gt.Type.String()})
	}
	cc := flattenC(c.lay, r, c.mirrored)
	var gc []*cell
	flattenGo(gt.Type, 0, "", "", &gc)
	// internal consistency of the two Go sources: unsafe.Offsetof table vs reflect
	for _, o := range gt.Offs {
		c.item("layout:unsafe-vs-reflect:"+tag+":"+o.Path, "")
		ft := gt.Type
		var off uintptr
		ok := true
		for _, part := range strings.Split(o.Path, ".") {
			sf, found := ft.FieldByName(part)
			if !found {
				ok = false
				break
			}
			off += sf.Offset
			ft = sf.Type
		}
		if !ok || off != o.Off || ft.Size() != o.Size {
			c.viol("layout", fmt.Sprintf("layout %s: unsafe.Offsetof table and reflect disagree on %s", tag, o.Path), nil)
		}
	}
	byPath := map[string]*cell{}
	for _, x := range cc {
		if _, dup := byPath[x.path]; dup {
			c.viol("layout", fmt.Sprintf("layout %s: C field names collide after normalisation: %s", tag, x.raw), nil)
		}
		byPath[x.path] = x
	}
	matchedUnion := map[unionStep]bool{}
	for _, g := range gc {
		if g.blank {
			continue
		}
		x := byPath[g.path]
		c.item("layout:field:"+tag+":"+g.raw, fmt.Sprintf("%d/%d", g.off, g.size))
		if x == nil {
			c.viol("layout", fmt.Sprintf("layout %s: Go field %s (offset %d, %d bytes) has no C counterpart", tag, g.raw, g.off, g.size), nil)
			continue
		}
		x.matched, g.matched = true, true
		for _, u := range x.unions {
			matchedUnion[u] = true
		}
		if x.off != g.off || x.size != g.size || x.elem != g.elem {
			c.viol("layout", fmt.Sprintf("layout %s: field %s/%s differs: C offset=%d size=%d elem=%d (%s) vs Go offset=%d size=%d elem=%d (%s)",
				tag, x.raw, g.raw, x.off, x.size, x.elem, x.typ, g.off, g.size, g.elem, g.typ), nil)
		}
	}
	excused := func(x *cell) bool { // alternative member of a union that Go views through another member
		for _, u := range x.unions {
			for m := range matchedUnion {
				if m.uid == u.uid && m.member != u.member {
					return true
				}
			}
		}
		return false
	}
	for _, x := range cc {
		if x.matched {
			continue
		}
		c.item("layout:c-only-field:"+tag+":"+x.raw, fmt.Sprintf("%d/%d", x.off, x.size))
		if excused(x) {
			continue
		}
		covered := false
		for _, g := range gc {
			if !g.blank && overlap(x, g) {
				covered = true
			}
		}
		if x.pad && !covered {
			continue // C names its padding, Go leaves it blank / implicit
		}
		c.viol("layout", fmt.Sprintf("layout %s: C field %s (offset %d, %d bytes, %s) has no Go counterpart", tag, x.raw, x.off, x.size, x.typ), nil)
	}
	for _, g := range gc {
		if !g.blank {
			continue
		}
		c.item("layout:go-pad:"+tag+fmt.Sprintf(":%d", g.off), fmt.Sprintf("%d", g.size))
		if g.off+g.size > r.Size {
			c.viol("layout", fmt.Sprintf("layout %s: Go padding at offset %d (%d bytes) lies beyond the C struct (%d bytes)", tag, g.off, g.size, r.Size), nil)
		}
		for _, x := range cc {
			if overlap(x, g) && !(x.pad && !x.matched) && !excused(x) {
				c.viol("layout", fmt.Sprintf("layout %s: Go padding at offset %d (%d bytes) overlaps C field %s (offset %d, %d bytes)", tag, g.off, g.size, x.raw, x.off, x.size), nil)
			}
		}
	}
}

func (c *checker) legLayout() {
	lay := c.lay
	cByNorm := map[string]*vkern.LRecord{}
	for _, r := range lay.Records {
		cByNorm[cRecordNorm(r.Name)] = r
	}
	mirrored := c.mirrored
	for _, gt := range control.VerifC19Types {
		if why, ok := goOnlyTypes[gt.Name]; ok {
			c.item("layout:go-only:"+gt.Name+":"+gt.Variant, why)
			continue
		}
		r := cByNorm[goRecordNorm(gt.Name)]
		if r == nil {
			c.viol("layout", fmt.Sprintf("layout: Go struct %s (%s) has no C struct/union of the same name", gt.Name, gt.File), nil)
			continue
		}
		mirrored[r.Name] = true
		c.compareRecord(r, gt)
	}
	// the load-time constant literal(s)
	for _, p := range lay.Params {
		r := lay.Record(p.Record)
		c.item("layout:param:"+p.Name, p.Record)
		if p.Name != "PARAM" || r == nil {
			c.viol("layout", fmt.Sprintf("layout: load-time constant %s (%s) is not written by the control plane's constants map", p.Name, p.Record), nil)
			continue
		}
		mirrored[r.Name] = true
		c.compareRecord(r, control.VerifC19Param)
	}
	if len(lay.Params) == 0 {
		c.viol("layout", "layout: the C program declares no load-time constant block but the control plane writes \"PARAM\"", nil)
	}
	// ebpf tags <-> C names
	cMaps, cProgs, cVars := map[string]bool{}, map[string]bool{}, map[string]bool{}
	for _, m := range lay.Maps {
		cMaps[m.Name] = true
	}
	for _, p := range lay.Programs {
		cProgs[p.Name] = true
	}
	for _, p := range lay.Params {
		cVars[p.Name] = true
	}
	goMaps := map[string]bool{}
	for _, t := range control.VerifC19Tags {
		var set map[string]bool
		switch t.Container {
		case "bpfMaps", "bpfMapSpecs":
			set = cMaps
			goMaps[t.Tag] = true
		case "bpfPrograms", "bpfProgramSpecs":
			set = cProgs
		default:
			set = cVars
		}
		c.item("layout:tag:"+t.Container+"."+t.Field, t.Tag)
		if !set[t.Tag] {
			c.viol("layout", fmt.Sprintf("layout: %s.%s is bound to %q, which the C program does not define", t.Container, t.Field, t.Tag), nil)
		}
	}
	// Go's assumptions on maps
	assumed := map[string]bool{}
	for _, a := range control.VerifC19MapAssumptions() {
		assumed[a.Map] = true
		m := lay.Map(a.Map)
		c.item("layout:map:"+a.Map, fmt.Sprintf("%d/%d/%d", a.KeySize, a.ValueSize, a.MaxEntries))
		if m == nil {
			c.viol("layout", fmt.Sprintf("layout: map %s used by the control plane (%s) is not declared in the C program", a.Map, a.Site), nil)
			continue
		}
		if a.KeySize != 0 && int(a.KeySize) != m.KeySize {
			c.viol("layout", fmt.Sprintf("layout: map %s key_size: C=%d (%s), Go passes %d bytes (%s)", a.Map, m.KeySize, m.KeyType, a.KeySize, a.Site), nil)
		}
		if a.ValueSize != 0 && int(a.ValueSize) != m.ValueSize {
			c.viol("layout", fmt.Sprintf("layout: map %s value_size: C=%d (%s), Go passes %d bytes (%s)", a.Map, m.ValueSize, m.ValueType, a.ValueSize, a.Site), nil)
		}
		switch a.Rel {
		case "==":
			if int64(m.MaxEntries) != a.MaxEntries {
				c.viol("layout", fmt.Sprintf("layout: map %s max_entries: C=%d, Go assumes exactly %d (%s)", a.Map, m.MaxEntries, a.MaxEntries, a.Site), nil)
			}
		case ">=":
			if int64(m.MaxEntries) < a.MaxEntries {
				c.viol("layout", fmt.Sprintf("layout: map %s max_entries: C=%d, Go needs at least %d (%s)", a.Map, m.MaxEntries, a.MaxEntries, a.Site), nil)
			}
		}
	}
	// a shared map's record key/value types must be mirrored when Go passes typed keys/values of that size
	var cOnly, privMaps, noAssume []string
	for _, m := range lay.Maps {
		if !goMaps[m.Name] {
			privMaps = append(privMaps, m.Name)
			continue
		}
		if !assumed[m.Name] {
			noAssume = append(noAssume, m.Name)
		}
	}
	for _, r := range lay.Records {
		if !mirrored[r.Name] {
			cOnly = append(cOnly, r.Name)
		}
	}
	sort.Strings(cOnly)
	c.r.Set("c_records", len(lay.Records))
	c.r.Set("c_records_mirrored_in_go", len(mirrored))
	c.r.Set("c_only_records", cOnly)
	c.r.Set("kernel_private_maps", privMaps)
	c.r.Set("shared_maps_handle_only", noAssume)
	c.r.Set("go_structs", len(control.VerifC19Types)+1)
}
