// Package vctx mirrors package context for instrumented files: cancellation and deadlines created by a managed
// thread are owned by the vsched scheduler (virtual time, cancellation as a visible operation). Contexts created
// outside the scheduler are the real ones. The Context interface and the sentinel errors are the real types, so
// values flow freely between instrumented and uninstrumented code.
package vctx

import (
	"context"
	"sync"
	"time"
	"unsafe"

	"github.com/daeuniverse/dae/verifx/vsched"
	"github.com/daeuniverse/dae/verifx/vtime"
)

type (
	Context         = context.Context
	CancelFunc      = context.CancelFunc
	CancelCauseFunc = context.CancelCauseFunc
)

var (
	Canceled         = context.Canceled
	DeadlineExceeded = context.DeadlineExceeded
)

func Background() Context                         { return context.Background() }
func TODO() Context                               { return context.TODO() }
func WithValue(p Context, k, v any) Context       { return &valueCtx{p, k, v} }
func Cause(c Context) error                       { return context.Cause(c) }
func WithoutCancel(p Context) Context             { return context.WithoutCancel(p) }

// valueCtx keeps the parent's identity reachable so that parentOf can find a vctx ancestor.
type valueCtx struct {
	Context
	k, v any
}

func (c *valueCtx) Value(k any) any {
	if k == c.k {
		return c.v
	}
	return c.Context.Value(k)
}

type vkey struct{}

// cctx is a cancellable context living under the scheduler.
type cctx struct {
	parent   Context
	mu       sync.Mutex
	done     chan struct{}
	err      error
	cause    error
	children map[*cctx]struct{}
	deadline time.Time
	hasDL    bool
	timer    vsched.TimerHandle
}

func (c *cctx) Deadline() (time.Time, bool) {
	if c.hasDL {
		return c.deadline, true
	}
	return c.parent.Deadline()
}
func (c *cctx) Done() <-chan struct{} { return c.done }
func (c *cctx) Err() error {
	vsched.Point(vsched.OpCtx, unsafe.Pointer(c))
	c.mu.Lock()
	defer c.mu.Unlock()
	return c.err
}
func (c *cctx) Value(k any) any {
	if _, ok := k.(vkey); ok {
		return c
	}
	return c.parent.Value(k)
}

func (c *cctx) cancel(err, cause error, removeFromParent bool) {
	c.mu.Lock()
	if c.err != nil {
		c.mu.Unlock()
		return
	}
	c.err = err
	if cause == nil {
		cause = err
	}
	c.cause = cause
	close(c.done)
	kids := c.children
	c.children = nil
	c.mu.Unlock()
	c.timer.Stop()
	for k := range kids {
		k.cancel(err, cause, false)
	}
	if removeFromParent {
		if p, ok := c.parent.Value(vkey{}).(*cctx); ok {
			p.mu.Lock()
			delete(p.children, c)
			p.mu.Unlock()
		}
	}
}

func newCctx(parent Context) *cctx {
	c := &cctx{parent: parent, done: make(chan struct{})}
	if p, ok := parent.Value(vkey{}).(*cctx); ok {
		p.mu.Lock()
		if p.err != nil {
			err, cause := p.err, p.cause
			p.mu.Unlock()
			c.cancel(err, cause, false)
			return c
		}
		if p.children == nil {
			p.children = map[*cctx]struct{}{}
		}
		p.children[c] = struct{}{}
		p.mu.Unlock()
	} else if parent.Done() != nil {
		// a real cancellable ancestor: bridge with the real package (its watcher goroutine is unmanaged; it only
		// closes c.done, which managed threads observe at their next poll). Rare: harness contexts are vctx or Background.
		stop := context.AfterFunc(parent, func() { c.cancel(parent.Err(), context.Cause(parent), false) })
		_ = stop
	}
	return c
}

func WithCancel(parent Context) (Context, CancelFunc) {
	if !vsched.Active() {
		return context.WithCancel(parent)
	}
	vsched.Point(vsched.OpCtx, nil)
	c := newCctx(parent)
	return c, func() {
		vsched.Point(vsched.OpCtx, unsafe.Pointer(c))
		c.cancel(Canceled, nil, true)
	}
}

func WithCancelCause(parent Context) (Context, CancelCauseFunc) {
	if !vsched.Active() {
		return context.WithCancelCause(parent)
	}
	vsched.Point(vsched.OpCtx, nil)
	c := newCctx(parent)
	return c, func(cause error) {
		vsched.Point(vsched.OpCtx, unsafe.Pointer(c))
		c.cancel(Canceled, cause, true)
	}
}

func WithDeadline(parent Context, d time.Time) (Context, CancelFunc) {
	if !vsched.Active() {
		return context.WithDeadline(parent, d)
	}
	vsched.Point(vsched.OpCtx, nil)
	c := newCctx(parent)
	if cur, ok := parent.Deadline(); ok && cur.Before(d) {
		// parent expires first: no own timer needed
	} else {
		c.deadline, c.hasDL = d, true
		dur := d.Sub(vtime.Now())
		if dur <= 0 {
			c.cancel(DeadlineExceeded, nil, true)
		} else if h, ok := vsched.AddTimer(int64(dur), "ctx-deadline", func() { c.cancel(DeadlineExceeded, nil, true) }); ok {
			c.timer = h
		}
	}
	return c, func() {
		vsched.Point(vsched.OpCtx, unsafe.Pointer(c))
		c.cancel(Canceled, nil, true)
	}
}

func WithTimeout(parent Context, d time.Duration) (Context, CancelFunc) {
	if !vsched.Active() {
		return context.WithTimeout(parent, d)
	}
	return WithDeadline(parent, vtime.Now().Add(d))
}

func WithDeadlineCause(parent Context, d time.Time, cause error) (Context, CancelFunc) {
	return WithDeadline(parent, d)
}

func WithTimeoutCause(parent Context, d time.Duration, cause error) (Context, CancelFunc) {
	return WithTimeout(parent, d)
}

func AfterFunc(ctx Context, f func()) (stop func() bool) {
	if !vsched.Active() {
		return context.AfterFunc(ctx, f)
	}
	var once sync.Once
	stopped := false
	vsched.GoNamed("ctx-afterfunc", func() {
		vsched.Recv(ctx.Done())
		if !stopped {
			once.Do(f)
		}
	})
	return func() bool {
		was := !stopped && ctx.Err() == nil
		stopped = true
		return was
	}
}
