//go:build verif

package control

import (
	"net"
	"time"
)

// VerifTcpSniffProbe is the pre-sniff glue of handleConn (control/tcp.go) for one accepted connection: the real
// prefetchForTcpSniff with the production prefix size, then the real isLikelyHttpOrTLSPrefix gate evaluated at once,
// as handleConn does. probe is the connection the relay (or the ConnSniffer when sniff is true) must read from.
func VerifTcpSniffProbe(conn net.Conn, wait time.Duration) (probe net.Conn, sniff bool, err error) {
	probeConn, prefetched, ready, err := prefetchForTcpSniff(conn, wait, tcpSniffPrefetchBytes)
	if err != nil {
		return nil, false, err
	}
	return probeConn, ready && isLikelyHttpOrTLSPrefix(prefetched), nil
}
