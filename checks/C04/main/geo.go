package main

// Tiny geodata files written by the harness (through the protobuf types of /repo/pkg/geodata) into a scratch
// asset directory, and the harness's own table of what it wrote: the reference never reads the files, it is
// handed the listed values instead of `geosite:tiny` / `geoip:tiny` / `ext:"file:code"`.

import (
	"fmt"
	"net/netip"
	"os"
	"path/filepath"
	"strings"

	"github.com/daeuniverse/dae/common/assets"
	"github.com/daeuniverse/dae/pkg/geodata"
	"google.golang.org/protobuf/proto"
)

type kv struct{ Key, Val string }

type siteItem struct {
	kind  string // full | suffix | keyword | regex  (what the statement calls the four pattern kinds)
	val   string
	attrs []string
}

// what the files contain, by file name (without .dat) and lower-case code
var geoSites = map[string]map[string][]siteItem{
	"geosite": {
		"other": {{"suffix", "other-site.net", nil}, {"full", "tiny.org", nil}},
		"tiny": {
			{"suffix", "tiny.org", []string{"ads"}},
			{"full", "www.test.org", nil},
			{"keyword", "tinyk", []string{"ADS", "x"}},
			{"regex", `^x?tiny\.`, nil},
		},
		"last":  {{"keyword", "zzz", nil}},
		"empty": {}, // an entry without any domain
	},
	"c04site": {
		"tiny": {{"full", "ext.example.com", nil}, {"suffix", "tiny.org", nil}},
	},
}

var geoIPs = map[string]map[string][]string{
	"geoip": {
		"other": {"192.0.2.0/24", "10.0.0.1/32"},
		"tiny":  {"10.7.0.0/16", "2001:db8:7::/48", "10.0.0.2/32", "10.9.8.7/24"},
		"last":  {"203.0.113.0/24"},
		"empty": {}, // an entry without any prefix
	},
	"c04ip": {
		"tiny": {"10.8.0.0/16"},
	},
}

// order of the entries inside each file (the decoder scans sequentially; the wanted code is never the first)
var fileOrder = []string{"other", "empty", "tiny", "last"}

func siteType(kind string) geodata.Domain_Type {
	switch kind {
	case "full":
		return geodata.Domain_Full
	case "suffix":
		return geodata.Domain_RootDomain
	case "keyword":
		return geodata.Domain_Plain
	case "regex":
		return geodata.Domain_Regex
	}
	panic("bad kind " + kind)
}

func writeFileAtomic(path string, b []byte) error {
	tmp := fmt.Sprintf("%s.tmp%d", path, os.Getpid())
	if err := os.WriteFile(tmp, b, 0o644); err != nil {
		return err
	}
	return os.Rename(tmp, path)
}

// writeGeoAssets writes geosite.dat, geoip.dat, c04site.dat, c04ip.dat into dir and returns a LocationFinder
// that searches dir first (the way control_plane.go passes the config directory).
func writeGeoAssets(dir string) (*assets.LocationFinder, error) {
	if err := os.MkdirAll(dir, 0o755); err != nil {
		return nil, err
	}
	mo := proto.MarshalOptions{Deterministic: true}
	for file, codes := range geoSites {
		var list geodata.GeoSiteList
		for _, code := range fileOrder {
			items, ok := codes[code]
			if !ok {
				continue
			}
			gs := &geodata.GeoSite{CountryCode: strings.ToUpper(code)}
			for _, it := range items {
				d := &geodata.Domain{Type: siteType(it.kind), Value: it.val}
				for _, a := range it.attrs {
					d.Attribute = append(d.Attribute, &geodata.Domain_Attribute{Key: a, TypedValue: &geodata.Domain_Attribute_BoolValue{BoolValue: true}})
				}
				gs.Domain = append(gs.Domain, d)
			}
			list.Entry = append(list.Entry, gs)
		}
		b, err := mo.Marshal(&list)
		if err != nil {
			return nil, err
		}
		if err := writeFileAtomic(filepath.Join(dir, file+".dat"), b); err != nil {
			return nil, err
		}
	}
	for file, codes := range geoIPs {
		var list geodata.GeoIPList
		for _, code := range fileOrder {
			cidrs, ok := codes[code]
			if !ok {
				continue
			}
			g := &geodata.GeoIP{CountryCode: strings.ToUpper(code)}
			for _, c := range cidrs {
				p := netip.MustParsePrefix(c)
				g.Cidr = append(g.Cidr, &geodata.CIDR{Ip: p.Addr().AsSlice(), Prefix: uint32(p.Bits())})
			}
			list.Entry = append(list.Entry, g)
		}
		b, err := mo.Marshal(&list)
		if err != nil {
			return nil, err
		}
		if err := writeFileAtomic(filepath.Join(dir, file+".dat"), b); err != nil {
			return nil, err
		}
	}
	os.Unsetenv("DAE_LOCATION_ASSET")
	return assets.NewLocationFinder([]string{dir}), nil
}

func siteValues(file, code string) []kv {
	code, attr, _ := strings.Cut(strings.ToLower(code), "@")
	items, ok := geoSites[file][code]
	if !ok {
		panic("harness: no geosite " + file + ":" + code)
	}
	var out []kv
	for _, it := range items {
		if attr != "" {
			hit := false
			for _, a := range it.attrs {
				if strings.EqualFold(a, attr) {
					hit = true
				}
			}
			if !hit {
				continue
			}
		}
		out = append(out, kv{it.kind, it.val})
	}
	return out
}

func ipValues(file, code string) []kv {
	cidrs, ok := geoIPs[file][strings.ToLower(code)]
	if !ok {
		panic("harness: no geoip " + file + ":" + code)
	}
	var out []kv
	for _, c := range cidrs {
		out = append(out, kv{"", c})
	}
	return out
}

// expandGeo replaces the geodata references among the values of one condition by the listed values.
// nameFn tells whether the function takes names (domain/qname) or addresses.
func expandGeo(takesNames bool, ps []kv) (out []kv, expanded bool) {
	for _, p := range ps {
		switch p.Key {
		case "geosite":
			out = append(out, siteValues("geosite", p.Val)...)
			expanded = true
		case "geoip":
			out = append(out, ipValues("geoip", p.Val)...)
			expanded = true
		case "ext":
			file, code, _ := strings.Cut(p.Val, ":")
			if takesNames {
				out = append(out, siteValues(file, code)...)
			} else {
				out = append(out, ipValues(file, code)...)
			}
			expanded = true
		default:
			out = append(out, p)
		}
	}
	return out, expanded
}
