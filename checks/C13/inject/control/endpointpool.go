//go:build verif

package control

import (
	"context"
	"errors"
	"fmt"
	"io"
	"net"
	"net/netip"
	"os"
	"sort"
	"strings"
	"sync"
	"syscall"
	"time"
	"unsafe"

	"github.com/cilium/ebpf"
	"github.com/daeuniverse/dae/component/outbound/dialer"
	"github.com/daeuniverse/dae/verifx/vsched"
	"github.com/daeuniverse/dae/verifx/vtime"
	D "github.com/daeuniverse/outbound/dialer"
	"github.com/daeuniverse/outbound/netproxy"
	"github.com/sirupsen/logrus"
)

// ---- C13 harness 2: UdpEndpointPool -------------------------------------------------------------------
//
// Closed 2-3 thread scenarios on a FRESH UdpEndpointPool per execution. The transport is a scripted fake
// netproxy.Dialer/PacketConn behind a real *dialer.Dialer; the tuple owner is the real controlPlaneCore
// (lazy shared udpConnStateTracker) behind a thin observing wrapper, bound to a set standing for the kernel
// conn_state_map (a private BPF hash map when the sandbox allows creating one, so that the real
// ReleaseUdpConnStateTuples/BpfMapBatchDelete run; a Go set otherwise).
//
// The reference (written from the statement of C13 only) is evaluated on harness-visible events, ordered by a
// logical event counter. Every transport (= endpoint) is in one of three states at an instant:
//   ALIVE      dialled, handed out, not closed, no kill initiated, NAT lifetime not yet possibly over
//   UNCERTAIN  a kill (error fed, removal, reset, health invalidation, possible expiry) is in flight or overlapped
//   DEAD       transport closed, or a kill that must hit it has completed
// Rules: a GetOrCreate(K) that ran entirely while Y(K) was ALIVE must return Y; a GetOrCreate that started after
// Y became DEAD must not return Y; a dial for K must not succeed while another ALIVE transport of K exists; no
// dial for K within the negative-cache window after a cacheable dial failure (the call fails with
// ErrEndpointFailed instead); every transport is closed exactly once by the end; a kernel tuple is present
// while an ALIVE endpoint tracks it and absent once all endpoints that tracked it are closed; drain tickets
// of every generation return to 0; no thread is left blocked.
//
// Kernel-delete faults (scenarios with kdelChoices > 1): every call of the tuple owner's ReleaseUdpConnStateTuples
// picks the answer of the kernel map for that call: 0 = healthy, 1 = the map handle is unusable while the call
// runs (the bpf objects' ConnStateMap is a closed duplicate of the kernel map, so the REAL BpfMapBatchDelete gets
// EBADF from the REAL syscall), 2 / 3 = the forward / reverse entries of the released tuples were already evicted
// from the kernel map (by the kernel program or the stale-entry sweep) when the call starts. A failed delete
// cannot remove the entry, so "absent once every owner is closed" is suspended for exactly the tuples of a
// release call that RETURNED an error, until the tuple is registered again; every other rule stays in force:
// the failing Close still closes its transport once and returns its drain ticket, nobody is left blocked (a later
// endpoint registering the same tuple must get through), and the next last-owner release under a healthy map
// removes the entry. An evicted entry is exempt from "present while an alive owner tracks it" until registered again.

const (
	epDialOK = iota
	epDialGeneric
	epDialUnreachable
	epDialTransient
)

const epNegativeCacheWindow = 2 * time.Second

var (
	epSrc  = netip.MustParseAddrPort("10.0.0.1:1000")
	epDst  = netip.MustParseAddrPort("1.1.1.1:53")
	epKeys = epMakeKeys()
)

// epMakeKeys: K1 = full-cone key of the client source, K2 = destination-bound key of the same source (so both
// endpoints track the same kernel tuple pair) with a route-scope mark chosen so that K2 shares K1's creation
// shard; K3 = another source in the other shard (when there is more than one shard).
func epMakeKeys() map[int]UdpEndpointKey {
	k1 := UdpEndpointKey{Src: epSrc}
	m := map[int]UdpEndpointKey{1: k1}
	shardOf := func(k UdpEndpointKey) uint64 { return hashUdpEndpointKey(k) & uint64(udpEndpointCreateShardCount-1) }
	for mark := uint32(1); mark < 4096; mark++ {
		k2 := UdpEndpointKey{Src: epSrc, Dst: epDst, RouteScope: udpEndpointRouteScope{Outbound: 2, Mark: mark}}
		if shardOf(k2) == shardOf(k1) {
			m[2] = k2
			break
		}
	}
	for port := uint16(2000); port < 6000; port++ {
		k3 := UdpEndpointKey{Src: netip.AddrPortFrom(epSrc.Addr(), port)}
		if udpEndpointCreateShardCount == 1 || shardOf(k3) != shardOf(k1) {
			m[3] = k3
			break
		}
	}
	return m
}

func epTarget(key int) string { return fmt.Sprintf("192.0.2.%d:4000", key) }

func epKeyOfTarget(addr string) int {
	var k int
	if _, err := fmt.Sscanf(addr, "192.0.2.%d:4000", &k); err != nil {
		return 0
	}
	return k
}

var (
	epErrGeneric     = errors.New("fake dial: upstream handshake rejected")
	epErrUnreachable = fmt.Errorf("fake dial: connect: network is unreachable")
	epErrTransient   = &os.SyscallError{Syscall: "bind", Err: syscall.EADDRINUSE}
	epErrRead        = errors.New("fake read: malformed upstream frame")
	epErrWrite       = errors.New("fake write: upstream session torn down")
)

// ---- the set standing for the kernel conn_state_map -------------------------------------------------

type epKernelSet interface {
	add(k bpfTuplesKey)
	del(k bpfTuplesKey)
	has(k bpfTuplesKey) bool
	bpfMap() *ebpf.Map
}

type epGoKernel struct{ set map[bpfTuplesKey]bool }

func (g *epGoKernel) add(k bpfTuplesKey)      { g.set[k] = true }
func (g *epGoKernel) del(k bpfTuplesKey)      { delete(g.set, k) }
func (g *epGoKernel) has(k bpfTuplesKey) bool { return g.set[k] }
func (g *epGoKernel) bpfMap() *ebpf.Map       { return nil }

type epBpfKernel struct{ m *ebpf.Map }

func (b *epBpfKernel) add(k bpfTuplesKey) {
	v := uint64(1)
	if err := b.m.Put(&k, &v); err != nil {
		panic("C13 harness: kernel set put: " + err.Error())
	}
}
func (b *epBpfKernel) del(k bpfTuplesKey) { _ = b.m.Delete(&k) }
func (b *epBpfKernel) has(k bpfTuplesKey) bool {
	var v uint64
	return b.m.Lookup(&k, &v) == nil
}
func (b *epBpfKernel) bpfMap() *ebpf.Map { return b.m }

var (
	epKernelOnce sync.Once
	epKernelMap  *ebpf.Map
	epKernelDead *ebpf.Map // a closed duplicate handle of epKernelMap: every syscall through it fails with EBADF
)

const (
	epKdelOK = iota
	epKdelBadHandle
	epKdelForwardEvicted
	epKdelReverseEvicted
)

// epKdelN: size of the kernel-answer menu of the kdel scenarios (VERIF_C13_KDEL overrides, for experiments).
var epKdelN = func() int {
	switch os.Getenv("VERIF_C13_KDEL") {
	case "2":
		return 2
	case "4":
		return 4
	}
	return 2
}()

// epNewKernel returns the process-wide private BPF hash map (emptied) or, when the sandbox cannot create one
// (or VERIF_C13_GOSET=1), a Go set.
func epNewKernel() epKernelSet {
	epKernelOnce.Do(func() {
		if os.Getenv("VERIF_C13_GOSET") == "1" {
			return
		}
		m, err := ebpf.NewMap(&ebpf.MapSpec{Name: "verif_c13_cs", Type: ebpf.Hash,
			KeySize: uint32(unsafe.Sizeof(bpfTuplesKey{})), ValueSize: 8, MaxEntries: 64})
		if err == nil {
			epKernelMap = m
			if d, err := m.Clone(); err == nil {
				_ = d.Close()
				epKernelDead = d
			}
		}
	})
	if epKernelMap == nil {
		return &epGoKernel{set: map[bpfTuplesKey]bool{}}
	}
	b := &epBpfKernel{m: epKernelMap}
	for _, k := range epAllTuples() {
		b.del(k)
	}
	return b
}

func epTuplePair(src, dst netip.AddrPort) [2]bpfTuplesKey {
	return [2]bpfTuplesKey{
		bpfTuplesKeyFromAddrPorts(src, dst, uint8(syscall.IPPROTO_UDP)),
		bpfTuplesKeyFromAddrPorts(dst, src, uint8(syscall.IPPROTO_UDP)),
	}
}

func epAllTuples() []bpfTuplesKey {
	var out []bpfTuplesKey
	for _, key := range []int{1, 2, 3} {
		p := epTuplePair(epKeys[key].Src, epDst)
		out = append(out, p[0], p[1])
	}
	return out
}

func epTupleName(k bpfTuplesKey) string {
	for _, key := range []int{1, 3} {
		p := epTuplePair(epKeys[key].Src, epDst)
		if k == p[0] {
			return fmt.Sprintf("src%d->dst", key)
		}
		if k == p[1] {
			return fmt.Sprintf("dst->src%d", key)
		}
	}
	return "tuple?"
}

// ---- generation = tuple owner + drain tracker --------------------------------------------------------

type epOwner struct {
	name string
	core *controlPlaneCore
	o    *epObs
}

func (w *epOwner) RetainUdpConnStateTuples(keys []bpfTuplesKey) {
	w.core.RetainUdpConnStateTuples(keys)
	w.o.onRetain(keys)
}

func (w *epOwner) TransferRetainedUdpConnStateTuplesFrom(previous udpConnStateOwner, keys []bpfTuplesKey) {
	if p, ok := previous.(*epOwner); ok && p != nil {
		w.core.TransferRetainedUdpConnStateTuplesFrom(p.core, keys)
	}
}

func (w *epOwner) ReleaseUdpConnStateTuples(keys []bpfTuplesKey) error {
	o := w.o
	fault := epKdelOK
	if o.sc.kdelChoices > 1 {
		fault = vsched.Choose(o.sc.kdelChoices, "kdel")
	}
	if fault == epKdelForwardEvicted || fault == epKdelReverseEvicted {
		for _, k := range keys {
			if epTupleForward(k) == (fault == epKdelForwardEvicted) && o.kern.has(k) {
				o.kern.del(k)
				o.kevicted[k] = true
				o.nEvicted++
			}
		}
	}
	var err error
	if o.kern.bpfMap() != nil {
		// the real path down to BpfMapBatchDelete and the bpf(2) syscall
		b := w.core.bpf.Load()
		if fault == epKdelBadHandle && b != nil && epKernelDead != nil {
			o.kbroken[b]++
			b.ConnStateMap = epKernelDead
		}
		err = w.core.ReleaseUdpConnStateTuples(keys)
		if fault == epKdelBadHandle && b != nil && epKernelDead != nil {
			if o.kbroken[b]--; o.kbroken[b] == 0 {
				b.ConnStateMap = o.kern.bpfMap()
			}
		}
	} else {
		// no BPF in this sandbox: the same three steps with the Go set in place of the kernel map
		tr := w.core.getUdpConnStateTracker()
		rel := tr.BeginRelease(keys)
		if fault == epKdelBadHandle && len(rel) > 0 {
			err = errors.New("fake kernel: bad file descriptor")
		} else {
			for _, r := range rel {
				w.o.kern.del(r.key)
			}
		}
		tr.FinalizeRelease(rel)
	}
	o.onRelease(keys, err)
	return err
}

type epGen struct {
	owner *epOwner
	drain *controlPlaneDrainTracker
}

// ---- fake transport ---------------------------------------------------------------------------------

type epIn struct {
	err  error
	data []byte
	from netip.AddrPort
}

type epConn struct {
	o   *epObs
	id  int
	key int

	inbox  []epIn
	closed int

	openT    int // event index of the successful dial
	handedT  int // event index of the first GetOrCreate return that handed it out
	killT    int // != 0: a kill may have hit it from this event on (UNCERTAIN)
	deadT    int // != 0: must be dead from this event on
	deadWhy  string
	touchV   int64 // virtual time of the start of the last call that created / returned it
	byReset  bool  // killT was set only because a Reset/Close overlapped
	byInval  bool
	wStarted int
	wOK      int
	fed      int
	handled  int
	retained bool
	released bool
}

func (c *epConn) name() string { return fmt.Sprintf("E%d(k%d)", c.id, c.key) }

func (c *epConn) ReadFrom(p []byte) (int, netip.AddrPort, error) {
	// While the harness winds the pool down at the very end, a closed transport reports the close to its reader
	// only when released (one endpoint at a time): the shutdown of independent endpoints is not interleaved.
	vsched.WaitUntil(func() bool { return len(c.inbox) > 0 || (c.closed > 0 && (!c.o.gated || c.released)) })
	if len(c.inbox) > 0 {
		in := c.inbox[0]
		c.inbox = c.inbox[1:]
		if in.err != nil {
			return 0, netip.AddrPort{}, in.err
		}
		return copy(p, in.data), in.from, nil
	}
	return 0, netip.AddrPort{}, net.ErrClosed
}

func (c *epConn) WriteTo(p []byte, addr string) (int, error) {
	vsched.Yield()
	o := c.o
	if c.closed > 0 {
		return 0, net.ErrClosed
	}
	c.wStarted++
	if o.sc.writeChoices > 1 && vsched.Choose(o.sc.writeChoices, "write") == 1 {
		if c.killT == 0 {
			c.killT = o.tick()
		}
		return 0, epErrWrite
	}
	c.wOK++
	return len(p), nil
}

func (c *epConn) Close() error {
	vsched.Yield()
	o := c.o
	c.closed++
	t := o.tick()
	if c.closed > 1 {
		o.fail(fmt.Sprintf("transport of %s closed %d times", c.name(), c.closed), nil)
	}
	if c.deadT == 0 {
		c.deadT, c.deadWhy = t, "its transport was closed"
	}
	if c.killT == 0 {
		c.killT = t
	}
	return nil
}

func (c *epConn) Read(b []byte) (int, error)       { return 0, io.EOF }
func (c *epConn) Write(b []byte) (int, error)      { return 0, io.ErrClosedPipe }
func (c *epConn) SetDeadline(time.Time) error      { return nil }
func (c *epConn) SetReadDeadline(time.Time) error  { return nil }
func (c *epConn) SetWriteDeadline(time.Time) error { return nil }

type epDial struct {
	key     int
	outcome int
	t       int
	v       int64
}

type epFakeDialer struct{ o *epObs }

func (d *epFakeDialer) DialContext(_ context.Context, network, addr string) (netproxy.Conn, error) {
	vsched.Yield()
	o := d.o
	key := epKeyOfTarget(addr)
	outcome := epDialOK
	if o.sc.dialChoices > 1 {
		outcome = vsched.Choose(o.sc.dialChoices, "dial")
	}
	t, v := o.tick(), o.vnow()
	// negative cache: no dial within the window after a cacheable failure of the same key
	for _, f := range o.dials {
		if f.key == key && f.outcome == epDialGeneric && v < f.v+int64(epNegativeCacheWindow) {
			o.fail(fmt.Sprintf("k%d dialled again %dms after a negative-cached dial failure", key, (v-f.v)/1e6), nil)
		}
	}
	o.dials = append(o.dials, epDial{key: key, outcome: outcome, t: t, v: v})
	switch outcome {
	case epDialGeneric:
		return nil, epErrGeneric
	case epDialUnreachable:
		o.forcedDead = true
		return nil, epErrUnreachable
	case epDialTransient:
		return nil, epErrTransient
	}
	for _, y := range o.conns {
		if y.key == key && o.alive(y) {
			o.fail(fmt.Sprintf("second successful dial for k%d while %s is alive", key, y.name()), nil)
		}
	}
	c := &epConn{o: o, id: len(o.conns), key: key, openT: t, touchV: v}
	if o.resetting > 0 {
		c.killT, c.byReset = t, true
	}
	if o.invalidating > 0 {
		c.killT = t
	}
	o.conns = append(o.conns, c)
	return c, nil
}

// ---- scenario description ---------------------------------------------------------------------------

type epOp struct {
	kind string // goc write track readerr reply invalidate reset close remove sleep
	key  int
	gen  int
	d    time.Duration
}

func epGoc(key, gen int) epOp      { return epOp{kind: "goc", key: key, gen: gen} }
func epWrite(key int) epOp         { return epOp{kind: "write", key: key} }
func epTrack(key int) epOp         { return epOp{kind: "track", key: key} }
func epReadErr(key int) epOp       { return epOp{kind: "readerr", key: key} }
func epReply(key int) epOp         { return epOp{kind: "reply", key: key} }
func epRemove(key int) epOp        { return epOp{kind: "remove", key: key} }
func epSleep(d time.Duration) epOp { return epOp{kind: "sleep", d: d} }
func epGet(key int) epOp           { return epOp{kind: "get", key: key} }
func epSave(key int) epOp          { return epOp{kind: "save", key: key} }
func epRemoveSaved(key int) epOp   { return epOp{kind: "removesaved", key: key} }
func epCloseCore(gen int) epOp     { return epOp{kind: "closecore", gen: gen} }

var (
	epInvalidate = epOp{kind: "invalidate"}
	epReset      = epOp{kind: "reset"}
	epClose      = epOp{kind: "close"}
)

type epSpec struct {
	name         string
	setup        []epOp
	threads      [][]epOp
	after        []epOp
	dialChoices  int
	writeChoices int
	kdelChoices  int // answers of the kernel map per tuple release: ok / handle unusable / forward evicted / reverse evicted
	nat          time.Duration
	distinctBpf  bool // generation 1 has its own bpf objects (own tracker) over the same kernel map
	janitor      bool // keep the pool's janitor running (else it is stopped right after construction)
	maxSteps     int
}

type epThread struct {
	name  string
	mine  map[int]*UdpEndpoint
	saved map[int]*UdpEndpoint // endpoints a packet handler still holds although it may have left the pool
	n     int
}

type epObs struct {
	sc    *epSpec
	pool  *UdpEndpointPool
	dl    *dialer.Dialer
	kern  epKernelSet
	gens  []*epGen
	clock int

	conns  []*epConn
	dials  []epDial
	shared map[int]*UdpEndpoint

	tracking map[int]*epConn            // managed thread id -> endpoint whose Track call is running
	tuples   map[bpfTuplesKey][]*epConn // registered owners (endpoints), in registration order

	resetting, invalidating int
	forcedDead              bool

	kbroken     map[*bpfObjects]int   // release calls in flight that see an unusable kernel map handle
	kdelFailed  map[bpfTuplesKey]bool // the last release call covering the tuple returned a kernel-delete error
	kevicted    map[bpfTuplesKey]bool // the environment evicted the entry; not registered again since
	nKdelFailed int
	nEvicted    int

	joined   int
	gated    bool
	bodyDone bool
	viol     string
	violD    any
	log      []string
	order    []string // completion order of the harness operations
}

var epCur *epObs

func (o *epObs) tick() int { o.clock++; return o.clock }

func (o *epObs) vnow() int64 {
	if ns, ok := vsched.Now(); ok {
		return ns
	}
	return 0
}

func (o *epObs) fail(sig string, detail any) {
	if o.viol == "" {
		o.viol, o.violD = sig, detail
	}
}

func (o *epObs) note(format string, a ...any) { o.log = append(o.log, fmt.Sprintf(format, a...)) }

// maybeExpired: the NAT lifetime counted from the last call that created or returned the endpoint may be over.
func (o *epObs) maybeExpired(c *epConn) bool { return o.vnow() >= c.touchV+int64(o.sc.nat) }

func (o *epObs) alive(c *epConn) bool {
	return c.closed == 0 && c.killT == 0 && c.deadT == 0 && !o.maybeExpired(c)
}

func epQuietLogger() *logrus.Logger {
	l := logrus.New()
	l.SetOutput(io.Discard)
	l.SetLevel(logrus.PanicLevel)
	return l
}

func newEpObs(sc *epSpec) *epObs {
	o := &epObs{sc: sc, shared: map[int]*UdpEndpoint{}, tracking: map[int]*epConn{}, tuples: map[bpfTuplesKey][]*epConn{},
		kbroken: map[*bpfObjects]int{}, kdelFailed: map[bpfTuplesKey]bool{}, kevicted: map[bpfTuplesKey]bool{}}
	// package globals touched by the code under test
	sharedUdpConnStateTrackerRegistry.entries = make(map[*bpfObjects]*sharedUdpConnStateTrackerEntry)
	o.kern = epNewKernel()
	gopt := &dialer.GlobalOption{Log: epQuietLogger(), CheckInterval: 30 * time.Second}
	o.dl = dialer.NewDialer(&epFakeDialer{o: o}, gopt, dialer.InstanceOption{DisableCheck: true},
		&dialer.Property{Property: D.Property{Name: "node", Address: "node.invalid:1080", Protocol: "socks5"}})
	newBpf := func() *bpfObjects {
		b := &bpfObjects{}
		b.ConnStateMap = o.kern.bpfMap()
		return b
	}
	bpf0 := newBpf()
	for g := 0; g < 2; g++ {
		// the shape newControlPlaneCore builds, minus its interface manager (netlink subscription + goroutine):
		// a close context, bpf objects inherited from / handed to the other generation (not owned), and the
		// shared conn-state tracker acquired eagerly from the registry keyed by the bpf objects
		closed, toClose := context.WithCancel(context.Background())
		core := &controlPlaneCore{log: gopt.Log, closed: closed, close: toClose, domainRouting: newDomainRoutingTracker()}
		b := bpf0
		if g == 1 && sc.distinctBpf {
			b = newBpf()
		}
		core.bpf.Store(b)
		core.udpConnStateTracker.Store(acquireSharedUdpConnStateTracker(b))
		o.gens = append(o.gens, &epGen{
			owner: &epOwner{name: fmt.Sprintf("gen%d", g), core: core, o: o},
			drain: newControlPlaneDrainTracker(),
		})
	}
	if sc.janitor {
		o.pool = NewUdpEndpointPool()
	} else {
		// scenarios that do not involve expiry run on a pool whose janitor has been stopped (the state Close leaves
		// behind); its ticker would otherwise be one more alternative at every decision of the exploration
		p := &UdpEndpointPool{janitorStop: make(chan struct{}), janitorDone: make(chan struct{})}
		for i := range p.shards {
			p.shards[i].pool = make(map[UdpEndpointKey]*UdpEndpoint, 16)
		}
		p.janitorOnce.Do(func() {})
		close(p.janitorStop)
		close(p.janitorDone)
		o.pool = p
	}
	return o
}

func (o *epObs) opts(key, gen int) *UdpEndpointOptions {
	g := o.gens[gen]
	return &UdpEndpointOptions{
		Handler: func(ue *UdpEndpoint, data []byte, from netip.AddrPort) error {
			if c, ok := ue.conn.(*epConn); ok {
				c.handled++
			}
			return nil
		},
		NatTimeout:     o.sc.nat,
		ConnStateOwner: g.owner,
		DrainTracker:   g.drain,
		GetDialOption: func(ctx context.Context) (*DialOption, error) {
			return &DialOption{Target: epTarget(key), Dialer: o.dl, Network: "udp"}, nil
		},
	}
}

func (o *epObs) onRetain(keys []bpfTuplesKey) {
	c := o.tracking[vsched.ThreadID()]
	for _, k := range keys {
		o.kern.add(k)
		delete(o.kdelFailed, k)
		delete(o.kevicted, k)
		if c != nil {
			o.tuples[k] = append(o.tuples[k], c)
			c.retained = true
		}
	}
}

// onRelease: the outcome of the most recent release call covering a tuple. Only a call that returned a
// kernel-delete error excuses the entry from being absent afterwards.
func (o *epObs) onRelease(keys []bpfTuplesKey, err error) {
	if err != nil {
		o.nKdelFailed++
	}
	for _, k := range keys {
		if err != nil {
			o.kdelFailed[k] = true
		} else {
			delete(o.kdelFailed, k)
		}
	}
}

// epTupleForward: the client-source -> destination direction of a tracked pair.
func epTupleForward(k bpfTuplesKey) bool {
	for _, key := range []int{1, 3} {
		if k == epTuplePair(epKeys[key].Src, epDst)[0] {
			return true
		}
	}
	return false
}

// checkTuples: a kernel tuple is present while an ALIVE endpoint tracks it and absent once every endpoint that
// tracked it has been closed.
func (o *epObs) checkTuples(where string) {
	for _, k := range epAllTuples() {
		owners := o.tuples[k]
		if len(owners) == 0 {
			continue
		}
		anyAlive, allClosed := false, true
		for _, c := range owners {
			if o.alive(c) {
				anyAlive = true
			}
			if c.closed == 0 {
				allClosed = false
			}
		}
		// an endpoint whose Track call is still running registers its pair key by key: a key it has already
		// registered is legitimately present although the harness learns of the new owner only when the call returns
		registering := false
		for _, c := range o.tracking {
			if p := epTuplePair(epKeys[c.key].Src, epDst); (k == p[0] || k == p[1]) && c.closed == 0 {
				registering = true
			}
		}
		present := o.kern.has(k)
		if anyAlive && !present && !o.kevicted[k] {
			o.fail(fmt.Sprintf("kernel tuple %s removed while an endpoint tracking it is alive (%s)", epTupleName(k), where), o.ownersOf(k))
		}
		if allClosed && present && !o.kdelFailed[k] && !registering {
			o.fail(fmt.Sprintf("kernel tuple %s still present after every endpoint tracking it was closed (%s)", epTupleName(k), where), o.ownersOf(k))
		}
	}
}

func (o *epObs) ownersOf(k bpfTuplesKey) []string {
	var out []string
	for _, c := range o.tuples[k] {
		out = append(out, fmt.Sprintf("%s closed=%d", c.name(), c.closed))
	}
	return out
}

func (o *epObs) pick(th *epThread, key int) (*UdpEndpoint, *epConn) {
	ue := th.mine[key]
	if ue == nil {
		ue = o.shared[key]
	}
	if ue == nil {
		return nil, nil
	}
	c, _ := ue.conn.(*epConn)
	return ue, c
}

func epErrClass(err error) string {
	switch {
	case err == nil:
		return "ok"
	case errors.Is(err, ErrEndpointFailed):
		return "negcache"
	case errors.Is(err, epErrGeneric):
		return "dialfail"
	case errors.Is(err, epErrUnreachable):
		return "unreachable"
	case errors.Is(err, epErrTransient):
		return "transient"
	case errors.Is(err, epErrWrite):
		return "writeerr"
	case errors.Is(err, net.ErrClosed):
		return "closed"
	}
	return "err:" + firstLine(err.Error())
}

func (o *epObs) exec(th *epThread, op epOp) {
	id := fmt.Sprintf("%s.%d", th.name, th.n)
	th.n++
	switch op.kind {
	case "goc":
		o.goc(th, id, op)
	case "get":
		o.get(th, id, op)
	case "write":
		ue, c := o.pick(th, op.key)
		if ue == nil || c == nil {
			o.note("%s:w(k%d)=skip", id, op.key)
			break
		}
		_, err := ue.WriteTo([]byte("ping"), epTarget(op.key))
		if err != nil && c.deadT == 0 {
			// an endpoint that failed a write (or was already dead) has been retired
			c.deadT, c.deadWhy = o.tick(), "a write through it failed with "+epErrClass(err)
			if c.killT == 0 {
				c.killT = c.deadT
			}
		}
		o.note("%s:w(%s)=%s", id, c.name(), epErrClass(err))
	case "track":
		ue, c := o.pick(th, op.key)
		if ue == nil || c == nil {
			break
		}
		tid := vsched.ThreadID()
		o.tracking[tid] = c
		ue.TrackUdpConnStateTuplePair(epKeys[op.key].Src, epDst)
		delete(o.tracking, tid)
		o.note("%s:track(%s)=%v", id, c.name(), c.retained)
	case "readerr":
		if _, c := o.pick(th, op.key); c != nil && c.closed == 0 {
			if c.killT == 0 {
				c.killT = o.tick()
			}
			c.inbox = append(c.inbox, epIn{err: epErrRead})
		}
	case "reply":
		if _, c := o.pick(th, op.key); c != nil && c.closed == 0 && !o.forcedDead {
			c.fed++
			c.inbox = append(c.inbox, epIn{data: []byte("pong"), from: netip.MustParseAddrPort(epTarget(op.key))})
		}
	case "remove":
		ue, c := o.pick(th, op.key)
		if ue == nil || c == nil {
			break
		}
		if c.killT == 0 {
			c.killT = o.tick()
		}
		err := o.pool.Remove(epKeys[op.key], ue)
		if c.deadT == 0 {
			c.deadT, c.deadWhy = o.tick(), "it was removed from the pool"
		}
		o.note("%s:rm(%s)=%v", id, c.name(), err == nil)
	case "save":
		if ue, _ := o.pick(th, op.key); ue != nil {
			if th.saved == nil {
				th.saved = map[int]*UdpEndpoint{}
			}
			th.saved[op.key] = ue
		}
	case "removesaved":
		// the error path of a packet handler: Remove(key, the endpoint it was using), which may be stale by now
		ue := th.saved[op.key]
		if ue == nil {
			break
		}
		c, _ := ue.conn.(*epConn)
		if c == nil {
			break
		}
		if c.killT == 0 {
			c.killT = o.tick()
		}
		err := o.pool.Remove(epKeys[op.key], ue)
		if c.deadT == 0 {
			c.deadT, c.deadWhy = o.tick(), "it was removed from the pool"
		}
		delete(th.mine, op.key)
		o.note("%s:rmsaved(%s)=%v", id, c.name(), err == nil)
	case "closecore":
		// the old generation's core is closed (drain timed out) while endpoints it created may still be alive
		err := o.gens[op.gen].owner.core.Close()
		o.note("%s:closecore(g%d)=%v", id, op.gen, err == nil)
	case "invalidate":
		o.invalidate(id)
	case "reset", "close":
		start := o.tick()
		o.resetting++
		for _, c := range o.conns {
			if c.closed == 0 && c.killT == 0 {
				c.killT, c.byReset = start, true
			}
		}
		if op.kind == "reset" {
			o.pool.Reset()
		} else {
			o.pool.Close()
		}
		o.resetting--
		// whatever a reset kills is closed before it returns: the survivors are alive again
		for _, c := range o.conns {
			if c.byReset {
				c.byReset = false
				if c.closed == 0 && c.deadT == 0 {
					c.killT = 0
				}
			}
		}
		o.note("%s:%s", id, op.kind)
	case "sleep":
		vtime.Sleep(op.d)
	}
	o.order = append(o.order, id)
	o.checkTuples("after " + id + " " + op.kind)
}

func (o *epObs) invalidate(id string) {
	start := o.tick()
	o.invalidating++
	for _, c := range o.conns {
		if c.closed > 0 || c.wOK > 0 || c.handled > 0 {
			continue // carried traffic before the health change: must survive it
		}
		c.byInval = true
		if c.killT == 0 {
			c.killT = start
		}
	}
	nt := dialer.NetworkType{L4Proto: "udp", IpVersion: "4"}
	n := o.pool.InvalidateDialerNetworkType(o.dl, &nt)
	o.invalidating--
	end := o.tick()
	for _, c := range o.conns {
		if !c.byInval {
			continue
		}
		c.byInval = false
		// existed (handed out) before the health change began and no traffic was even attempted until it ended
		if c.handedT != 0 && c.handedT < start && c.wStarted == 0 && c.fed == 0 && c.deadT == 0 {
			c.deadT, c.deadWhy = end, "a health change invalidated it before it carried traffic"
		}
	}
	o.note("%s:inval=%d", id, n)
}

// get: the lookup the packet path does before GetOrCreate; same reuse rules, never dials.
func (o *epObs) get(th *epThread, id string, op epOp) {
	key := op.key
	start := o.tick()
	var must []*epConn
	for _, y := range o.conns {
		if y.key == key && y.handedT != 0 && o.alive(y) {
			must = append(must, y)
		}
	}
	ue, ok := o.pool.Get(epKeys[key])
	retV := o.vnow()
	var c *epConn
	if ok && ue != nil {
		if c, _ = ue.conn.(*epConn); c == nil {
			o.fail(fmt.Sprintf("%s: Get(k%d) handed out an endpoint without a transport", id, key), nil)
			return
		}
		if c.deadT != 0 && c.deadT < start {
			o.fail(fmt.Sprintf("%s: Get(k%d) handed out %s again although %s", id, key, c.name(), c.deadWhy), nil)
		}
		th.mine[key] = ue
	}
	for _, y := range must {
		if y.closed == 0 && y.killT == 0 && retV < y.touchV+int64(o.sc.nat) && y != c {
			o.fail(fmt.Sprintf("%s: Get(k%d) did not find %s although it was alive", id, key, y.name()), nil)
		}
	}
	res := "none"
	if c != nil {
		res = c.name()
	}
	o.note("%s:get(k%d)=%s", id, key, res)
}

func (o *epObs) goc(th *epThread, id string, op epOp) {
	key := op.key
	start, startV := o.tick(), o.vnow()
	// endpoints of this key that are ALIVE when the call starts and were handed out before
	var must []*epConn
	for _, y := range o.conns {
		if y.key == key && y.handedT != 0 && o.alive(y) {
			must = append(must, y)
		}
	}
	dialsBefore := len(o.dials)
	ue, isNew, err := o.pool.GetOrCreate(epKeys[key], o.opts(key, op.gen))
	ret, retV := o.tick(), o.vnow()
	var c *epConn
	if err == nil {
		if ue == nil {
			o.fail(fmt.Sprintf("%s: GetOrCreate(k%d) returned neither an endpoint nor an error", id, key), nil)
			return
		}
		var ok bool
		if c, ok = ue.conn.(*epConn); !ok || c == nil {
			o.fail(fmt.Sprintf("%s: GetOrCreate(k%d) handed out an endpoint without a transport (failed=%v)", id, key, ue.failed.Load()), nil)
			return
		}
		if c.key != key {
			o.fail(fmt.Sprintf("%s: GetOrCreate(k%d) handed out %s", id, key, c.name()), nil)
		}
		if c.deadT != 0 && c.deadT < start {
			o.fail(fmt.Sprintf("%s: GetOrCreate(k%d) handed out %s again although %s", id, key, c.name(), c.deadWhy), nil)
		}
		if c.handedT == 0 {
			c.handedT = ret
		}
		c.touchV = startV
		th.mine[key] = ue
	} else {
		delete(th.mine, key)
	}
	for _, y := range must {
		if y.closed == 0 && y.killT == 0 && retV < y.touchV+int64(o.sc.nat) && y != c {
			got := epErrClass(err)
			if c != nil {
				got = c.name()
			}
			o.fail(fmt.Sprintf("%s: GetOrCreate(k%d) returned %s while %s was alive", id, key, got, y.name()), nil)
		}
	}
	// negative cache window: a call that starts after a cacheable dial failure and ends within the window fails fast
	for _, f := range o.dials[:dialsBefore] {
		if f.key == key && f.outcome == epDialGeneric && f.t < start && retV < f.v+int64(epNegativeCacheWindow) && o.resetting == 0 {
			later := false
			for _, g := range o.dials {
				if g.key == key && g.t > f.t && g.outcome == epDialOK {
					later = true
				}
			}
			if !later && !errors.Is(err, ErrEndpointFailed) {
				o.fail(fmt.Sprintf("%s: GetOrCreate(k%d) inside the negative-cache window returned %s instead of ErrEndpointFailed", id, key, epErrClass(err)), nil)
			}
		}
	}
	res := epErrClass(err)
	if c != nil {
		res = c.name()
		if isNew {
			res += "+new"
		}
	}
	o.note("%s:goc(k%d,g%d)=%s", id, key, op.gen, res)
}

func epScenario(sc *epSpec) *vsched.Scenario {
	if sc.nat == 0 {
		sc.nat = 30 * time.Second
	}
	body := func() {
		o := newEpObs(sc)
		epCur = o
		main := &epThread{name: "main", mine: map[int]*UdpEndpoint{}}
		for _, op := range sc.setup {
			o.exec(main, op)
			vsched.Quiesce() // background threads (reply loops) settle one endpoint at a time
		}
		for _, key := range []int{1, 2, 3} {
			if ue := main.mine[key]; ue != nil {
				o.shared[key] = ue
			}
		}
		// the first racing thread is the harness thread itself (one thread and one free join-branch less)
		for ti, ops := range sc.threads {
			if ti == 0 {
				continue
			}
			th := &epThread{name: fmt.Sprintf("T%d", ti+1), mine: map[int]*UdpEndpoint{}}
			ops := ops
			vsched.GoNamed(th.name, func() {
				for _, op := range ops {
					o.exec(th, op)
				}
				o.joined++
			})
		}
		if len(sc.threads) > 0 {
			th := &epThread{name: "T1", mine: map[int]*UdpEndpoint{}}
			for _, op := range sc.threads[0] {
				o.exec(th, op)
			}
			o.joined++
		}
		vsched.WaitUntil(func() bool { return o.joined == len(sc.threads) })
		vsched.Quiesce()
		o.checkTuples("checkpoint after the racing threads")
		main.mine = map[int]*UdpEndpoint{}
		for _, op := range sc.after {
			o.exec(main, op)
			vsched.Quiesce()
		}
		o.gated = true
		o.pool.Close()
		for _, c := range o.conns {
			c.released = true
			vsched.Quiesce()
		}
		o.bodyDone = true
	}
	check := func(r *vsched.Result) (string, any) {
		o := epCur
		if r.Status == vsched.StPanic {
			return "panic in managed thread: " + firstLine(r.PanicMsg), r.PanicMsg
		}
		if r.Status == vsched.StHorizon {
			return "", nil
		}
		if o.viol != "" {
			return o.viol, map[string]any{"detail": o.violD, "log": o.log}
		}
		if !o.bodyDone {
			return "deadlock: harness thread blocked: " + strings.Join(r.Blocked, "; "), o.log
		}
		for _, c := range o.conns {
			if c.closed != 1 {
				return fmt.Sprintf("transport of %s closed %d times by the end (after pool.Close)", c.name(), c.closed), o.log
			}
		}
		if len(r.Blocked) > 0 {
			return "threads left blocked after the pool was closed: " + strings.Join(r.Blocked, "; "), o.log
		}
		for _, k := range epAllTuples() {
			if len(o.tuples[k]) > 0 && o.kern.has(k) && !o.kdelFailed[k] {
				return fmt.Sprintf("kernel tuple %s left behind after every endpoint was closed", epTupleName(k)), map[string]any{"owners": o.ownersOf(k), "log": o.log}
			}
		}
		for _, g := range o.gens {
			if n := g.drain.Count(); n != 0 {
				return fmt.Sprintf("drain tracker of %s holds %d ticket(s) after every endpoint was closed", g.owner.name, n), o.log
			}
		}
		return "", nil
	}
	outcome := func(r *vsched.Result) string {
		o := epCur
		lg := append([]string(nil), o.log...)
		sort.Strings(lg)
		var sb strings.Builder
		sb.WriteString(strings.Join(lg, ";"))
		sb.WriteString("|order=" + strings.Join(o.order, ","))
		for _, d := range o.dials {
			fmt.Fprintf(&sb, "|d%d:%d", d.key, d.outcome)
		}
		for _, c := range o.conns {
			fmt.Fprintf(&sb, "|%s:c%d,w%d,h%d", c.name(), c.closed, c.wOK, c.handled)
		}
		if o.sc.kdelChoices > 1 {
			fmt.Fprintf(&sb, "|kdelfail=%d,evicted=%d", o.nKdelFailed, o.nEvicted)
		}
		fmt.Fprintf(&sb, "|now=%dms", (r.Now-1_700_000_000_000_000_000)/1e6)
		return sb.String()
	}
	ms := sc.maxSteps
	if ms == 0 {
		ms = 6000
	}
	return &vsched.Scenario{Name: sc.name, Body: body, Check: check, Outcome: outcome, MaxSteps: ms, HorizonNs: int64(20 * time.Second)}
}

// VerifEndpointPoolScenarios: harness 2 of C13.
func VerifEndpointPoolScenarios() []*vsched.Scenario {
	specs := []*epSpec{
		// (1) concurrent first packets on {K1,K1,K2}, dial outcome chosen per attempt; then sequential re-use
		{name: "ep-3goc-dial", dialChoices: 4,
			threads: [][]epOp{{epGoc(1, 0)}, {epGoc(1, 0)}, {epGoc(2, 0)}},
			after:   []epOp{epGoc(1, 0)}},
		{name: "ep-2goc-seq-dial", dialChoices: 4,
			threads: [][]epOp{{epGoc(1, 0), epGoc(1, 0)}, {epGoc(1, 0), epWrite(1)}},
			after:   []epOp{epGet(1), epGoc(1, 0)}},
		// (2) get-or-create racing with the ways an endpoint dies
		{name: "ep-goc-vs-readerr",
			setup:   []epOp{epGoc(1, 0)},
			threads: [][]epOp{{epGoc(1, 0), epWrite(1)}, {epReadErr(1)}},
			after:   []epOp{epGet(1), epGoc(1, 0), epRemove(1)}},
		{name: "ep-goc-vs-writeerr", writeChoices: 2,
			setup:   []epOp{epGoc(1, 0)},
			threads: [][]epOp{{epGoc(1, 0), epWrite(1)}, {epGoc(1, 0), epWrite(1)}},
			after:   []epOp{epGet(1), epGoc(1, 0)}},
		{name: "ep-goc-vs-invalidate-fresh",
			setup:   []epOp{epGoc(1, 0)},
			threads: [][]epOp{{epGoc(1, 0), epWrite(1)}, {epInvalidate}},
			after:   []epOp{epGet(1), epGoc(1, 0)}},
		{name: "ep-goc-vs-invalidate-used",
			setup:   []epOp{epGoc(1, 0), epWrite(1)},
			threads: [][]epOp{{epGoc(1, 0), epReply(1)}, {epInvalidate}},
			after:   []epOp{epGet(1), epGoc(1, 0)}},
		{name: "ep-create-vs-invalidate",
			threads: [][]epOp{{epGoc(1, 0)}, {epInvalidate}},
			after:   []epOp{epGoc(1, 0), epInvalidate, epGoc(1, 0)}},
		{name: "ep-goc-vs-janitor", nat: time.Second, janitor: true,
			setup:   []epOp{epGoc(1, 0)},
			threads: [][]epOp{{epSleep(time.Second), epGoc(1, 0), epWrite(1)}, {epSleep(time.Second), epGoc(1, 0)}},
			after:   []epOp{epGoc(1, 0)}},
		{name: "ep-goc-vs-reset",
			setup:   []epOp{epGoc(1, 0), epTrack(1)},
			threads: [][]epOp{{epGoc(1, 0)}, {epReset}},
			after:   []epOp{epInvalidate, epGoc(1, 0)}},
		{name: "ep-goc-vs-close",
			setup:   []epOp{epGoc(1, 0)},
			threads: [][]epOp{{epGoc(1, 0), epWrite(1), epTrack(1)}, {epClose}},
			after:   []epOp{epGoc(1, 0)}},
		{name: "ep-goc-vs-remove",
			setup:   []epOp{epGoc(1, 0), epTrack(1)},
			threads: [][]epOp{{epGoc(1, 0), epTrack(1)}, {epRemove(1)}},
			after:   []epOp{epGet(1), epGoc(1, 0)}},
		// a stale Remove (the handler's endpoint already left the pool and was replaced) must not evict the replacement
		{name: "ep-stale-remove-seq",
			setup:   []epOp{epGoc(1, 0), epSave(1), epReadErr(1), epGoc(1, 0), epRemoveSaved(1)},
			threads: [][]epOp{{epGoc(1, 0), epWrite(1)}, {epGoc(1, 0)}},
			after:   []epOp{epGet(1)}},
		{name: "ep-stale-remove-race", writeChoices: 2,
			setup:   []epOp{epGoc(1, 0)},
			threads: [][]epOp{{epSave(1), epWrite(1), epRemoveSaved(1), epGoc(1, 0)}, {epGoc(1, 0)}},
			after:   []epOp{epGet(1)}},
		// (3) reload hand-over: adoption by the next generation racing with endpoint close; two endpoints share a tuple
		{name: "ep-adopt-shared-tuple",
			setup:   []epOp{epGoc(1, 0), epTrack(1), epGoc(2, 0), epTrack(2)},
			threads: [][]epOp{{epGoc(1, 1)}, {epRemove(2)}},
			after:   []epOp{epGoc(2, 1), epTrack(2), epRemove(1)}},
		{name: "ep-adopt-vs-readerr",
			setup:   []epOp{epGoc(1, 0), epTrack(1)},
			threads: [][]epOp{{epGoc(1, 1), epTrack(1)}, {epReadErr(1)}},
			after:   []epOp{epGoc(1, 1)}},
		{name: "ep-adopt-distinct-tracker", distinctBpf: true,
			setup:   []epOp{epGoc(1, 0), epTrack(1)},
			threads: [][]epOp{{epGoc(1, 1)}, {epGoc(1, 1), epRemove(1)}},
			after:   []epOp{epGoc(1, 0), epTrack(1), epGoc(1, 1)}},
		// the old generation's core is closed while one of its endpoints, never adopted, still owns a tuple that an
		// endpoint of the new generation owns too; the two then close in either order
		{name: "ep-closed-gen-shared-tuple",
			setup:   []epOp{epGoc(1, 0), epTrack(1), epGoc(2, 1), epTrack(2), epCloseCore(0)},
			threads: [][]epOp{{epRemove(1)}, {epGoc(2, 1)}},
			after:   []epOp{epRemove(2)}},
		// ... and registers the tuple only after its generation was closed
		{name: "ep-closed-gen-late-track",
			setup:   []epOp{epGoc(1, 0), epCloseCore(0), epTrack(1), epGoc(2, 1), epTrack(2)},
			threads: [][]epOp{{epRemove(2)}, {epGoc(1, 1)}},
			after:   []epOp{epRemove(1)}},
		// (4) the kernel map answers every tuple release (kdelChoices): a failed kernel delete must not wedge the tuple
		// for the next endpoint of the same client 4-tuple, must not keep the transport or the drain ticket, and the
		// next healthy last-owner release removes the entry. One scenario per way an endpoint is closed.
		// Remove; K2 (destination-bound key of the same source) registers the same pair concurrently
		{name: "ep-kdel-remove-vs-track", kdelChoices: epKdelN,
			setup:   []epOp{epGoc(1, 0), epTrack(1), epGoc(2, 0)},
			threads: [][]epOp{{epRemove(1)}, {epTrack(2)}}},
		// reply-loop exit (retire from the endpoint's own reader), then Reset
		{name: "ep-kdel-readerr-reset", kdelChoices: epKdelN,
			setup:   []epOp{epGoc(1, 0), epTrack(1)},
			threads: [][]epOp{{epReadErr(1)}, {epGoc(1, 0), epTrack(1)}},
			after:   []epOp{epGoc(1, 0), epTrack(1), epReset, epGoc(1, 0), epTrack(1)}},
		// NAT expiry: the closer is the pool's only janitor thread
		{name: "ep-kdel-janitor", kdelChoices: epKdelN, nat: 300 * time.Millisecond, janitor: true,
			setup:   []epOp{epGoc(1, 0), epTrack(1)},
			threads: [][]epOp{{epSleep(600 * time.Millisecond), epGoc(1, 0), epTrack(1)}}},
		// after a reload hand-over (distinct trackers): the adopting generation's release fails
		{name: "ep-kdel-adopt", kdelChoices: epKdelN, distinctBpf: true,
			setup:   []epOp{epGoc(1, 0), epTrack(1), epGoc(2, 1)},
			threads: [][]epOp{{epGoc(1, 1), epRemove(1)}, {epTrack(2)}}},
	}
	var out []*vsched.Scenario
	for _, sc := range specs {
		out = append(out, epScenario(sc))
	}
	return out
}

// epGroup folds several scenarios into one exploration tree: the first (cost-free, always explored) decision of an
// execution picks the member. One set of worker processes and one time share then serve all members, which is
// what the quick tier needs (every member is small; 16 process start-ups per member would dominate).
func epGroup(name string, members []*vsched.Scenario) *vsched.Scenario {
	cur := 0
	g := &vsched.Scenario{Name: name}
	g.Body = func() {
		cur = vsched.ChooseFree(len(members), "scenario")
		members[cur].Body()
	}
	g.Check = func(r *vsched.Result) (string, any) {
		sig, detail := members[cur].Check(r)
		if sig != "" {
			sig = members[cur].Name + ": " + sig
		}
		return sig, detail
	}
	g.Outcome = func(r *vsched.Result) string { return members[cur].Name + "|" + members[cur].Outcome(r) }
	for _, m := range members {
		if m.MaxSteps > g.MaxSteps {
			g.MaxSteps = m.MaxSteps
		}
		if m.HorizonNs > g.HorizonNs {
			g.HorizonNs = m.HorizonNs
		}
	}
	return g
}

// VerifEndpointPoolQuickScenarios: the same scenarios packed for the quick tier. Members of a group share one
// list of bounds, so they are grouped by the depth that completes quickly; the dial and janitor scenarios stay alone.
func VerifEndpointPoolQuickScenarios() []*vsched.Scenario {
	by := map[string]*vsched.Scenario{}
	for _, sc := range VerifEndpointPoolScenarios() {
		by[sc.Name] = sc
	}
	pick := func(names ...string) []*vsched.Scenario {
		var out []*vsched.Scenario
		for _, n := range names {
			if by[n] == nil {
				panic("C13 harness: no scenario " + n)
			}
			out = append(out, by[n])
			delete(by, n)
		}
		return out
	}
	out := []*vsched.Scenario{
		by["ep-3goc-dial"], by["ep-2goc-seq-dial"], by["ep-goc-vs-janitor"], by["ep-kdel-readerr-reset"], by["ep-kdel-janitor"],
	}
	pick("ep-3goc-dial", "ep-2goc-seq-dial", "ep-goc-vs-janitor", "ep-kdel-readerr-reset", "ep-kdel-janitor")
	out = append(out,
		epGroup("epq-depth2", pick("ep-goc-vs-readerr", "ep-goc-vs-invalidate-used", "ep-goc-vs-reset", "ep-goc-vs-close",
			"ep-goc-vs-remove", "ep-stale-remove-seq", "ep-adopt-shared-tuple", "ep-adopt-vs-readerr", "ep-adopt-distinct-tracker",
			"ep-closed-gen-shared-tuple", "ep-closed-gen-late-track")),
		epGroup("epq-depth1", pick("ep-goc-vs-writeerr", "ep-goc-vs-invalidate-fresh", "ep-create-vs-invalidate", "ep-stale-remove-race")),
		epGroup("epq-kdel", pick("ep-kdel-remove-vs-track", "ep-kdel-adopt")),
	)
	if len(by) != 0 {
		panic(fmt.Sprintf("C13 harness: %d scenario(s) not placed in a quick group", len(by)))
	}
	return out
}
