#!/bin/bash
# C08 fires on the unchanged tree (three genuine defects, see candidate-fixes.diff), so `/verif/run-mutants C08`
# reports DETECTED for every patch trivially. This script shows the mutant-specific detection: every mutant is
# applied ON TOP OF the candidate fixes in ONE scratch worktree (outside /repo and /verif; /repo is never touched);
# the fixed tree alone must be quiet.
#   usage: mutants-on-fixed.sh [patch ...]      (default: the fixed tree alone, then all mutants/C08-*.patch)
set -u
HERE="$(cd "$(dirname "$0")" && pwd)"; VERIF="$(cd "$HERE/../.." && pwd)"
FIX="$HERE/candidate-fixes.diff"
PATCHES=("$@"); [ ${#PATCHES[@]} -eq 0 ] && PATCHES=(NONE "$VERIF"/mutants/C08-*.patch)
MW="$VERIF/.work/mutfix-C08"
WT="/var/tmp/verif-mutfix-C08"
git -C /repo worktree remove --force "$WT" 2>/dev/null
git -C /repo worktree add -q --detach "$WT" HEAD || exit 2
rc=0
for P in "${PATCHES[@]}"; do
  git -C "$WT" checkout -q -- . 
  # the candidate fixes apply only while /repo does not carry them yet
  (cd "$WT" && git apply "$FIX" 2>/dev/null) || echo "note: candidate fixes do not apply (already in /repo?)"
  if [ "$P" != NONE ]; then
    (cd "$WT" && patch -s -p1 --fuzz=3 < "$P") || { echo "MUTANT $(basename "$P"): does not apply on the fixed tree"; rc=2; continue; }
  fi
  OUT=$(VERIF_REPO="$WT" VERIF_WORK="$MW" VERIF_EVIDENCE_DIR="$MW/evidence" VERIF_REPLAY_DIR="$MW/replays" "$VERIF/run" C08 "${MUT_TIER:-quick}" 2>&1); ec=$?
  V=$(echo "$OUT" | grep -c '^VIOLATION')
  S=$(echo "$OUT" | grep -m1 'signature:' | cut -c1-330)
  if [ "$P" = NONE ]; then
    echo "FIXED TREE (no mutant): exit=$ec violations=$V  $(echo "$OUT" | tail -1 | cut -c1-200)"
    [ $ec -eq 0 ] || rc=1
  elif [ $ec -eq 1 ] && [ $V -gt 0 ]; then echo "MUTANT-ON-FIXED $(basename "$P"): DETECTED (violations=$V) $S"
  else echo "MUTANT-ON-FIXED $(basename "$P"): MISSED (exit=$ec)"; echo "$OUT" | tail -4; rc=1; fi
done
git -C /repo worktree remove --force "$WT"
rm -rf "$MW"
exit $rc
