//go:build verif

// C03 harness inside package control: the Go half of the kernel -> control-plane hand-over, built only from the
// production pieces (bpfTuplesKeyFromAddrPorts, bpfConnState / bpfRoutingHandoffEntry, routingResultFromConnState,
// routingHandoffExpired, outboundConnectivityMapKey, buildDomainRoutingOwnerSnapshot, bpfDaeParam).
package control

import (
	"fmt"
	"net"
	"net/netip"
	"unsafe"

	"github.com/daeuniverse/dae/common"
	"github.com/daeuniverse/dae/common/consts"
	"github.com/daeuniverse/dae/component/outbound/dialer"
	dnsmessage "github.com/miekg/dns"
)

func verifC03Bytes[T any](v *T) []byte {
	return append([]byte(nil), unsafe.Slice((*byte)(unsafe.Pointer(v)), unsafe.Sizeof(*v))...)
}

// VerifC03TuplesKey = bytes of bpfTuplesKeyFromAddrPorts(src, dst, l4proto): the key RetrieveRoutingResult looks up.
func VerifC03TuplesKey(src, dst netip.AddrPort, l4proto uint8) []byte {
	k := bpfTuplesKeyFromAddrPorts(src, dst, l4proto)
	return verifC03Bytes(&k)
}

// VerifC03Result is what the control plane recovers for a flow (the fields of bpfRoutingResult).
type VerifC03Result struct {
	Outbound uint8
	Mark     uint32
	Must     uint8
	Dscp     uint8
	Mac      [6]uint8
	Pid      uint32
	Pname    [16]uint8
	From     string // "conn_state_map" or "routing_handoff_map"
}

func verifC03FromRR(rr bpfRoutingResult, from string) VerifC03Result {
	return VerifC03Result{Outbound: rr.Outbound, Mark: rr.Mark, Must: rr.Must, Dscp: rr.Dscp, Mac: rr.Mac, Pid: rr.Pid, Pname: rr.Pname, From: from}
}

// VerifC03Retrieve is controlPlaneCore.RetrieveRoutingResult with the two ebpf.Map.Lookup calls replaced by `lookup`
// (map name, key bytes -> value bytes or nil) and the monotonic clock replaced by nowNs; every other step is the
// production code: key = bpfTuplesKeyFromAddrPorts, conn_state_map first (value decoded as bpfConnState, skipped when
// HasRouting == 0, converted by routingResultFromConnState), then routing_handoff_map (bpfRoutingHandoffEntry,
// routingHandoffExpired, routingResultFromConnState).
func VerifC03Retrieve(src, dst netip.AddrPort, l4proto uint8, nowNs uint64, lookup func(m string, key []byte) []byte) (res VerifC03Result, found bool, err error) {
	tuples := bpfTuplesKeyFromAddrPorts(src, dst, l4proto)
	key := verifC03Bytes(&tuples)
	switch l4proto {
	case consts.IPPROTO_TCP, consts.IPPROTO_UDP:
		if b := lookup("conn_state_map", key); b != nil {
			var cs bpfConnState
			if uintptr(len(b)) != unsafe.Sizeof(cs) {
				return res, false, fmt.Errorf("conn_state_map value is %d bytes, bpfConnState is %d", len(b), unsafe.Sizeof(cs))
			}
			copy(unsafe.Slice((*byte)(unsafe.Pointer(&cs)), unsafe.Sizeof(cs)), b)
			if cs.Meta.Data.HasRouting != 0 {
				rr := routingResultFromConnState(cs.Meta.Data.Mark, cs.Meta.Data.Must, cs.Meta.Data.Outbound, cs.Mac, cs.Meta.Data.Dscp, cs.Pname, cs.Pid)
				return verifC03FromRR(rr, "conn_state_map"), true, nil
			}
		}
	}
	b := lookup("routing_handoff_map", key)
	if b == nil {
		return res, false, nil
	}
	var e bpfRoutingHandoffEntry
	if uintptr(len(b)) != unsafe.Sizeof(e) {
		return res, false, fmt.Errorf("routing_handoff_map value is %d bytes, bpfRoutingHandoffEntry is %d", len(b), unsafe.Sizeof(e))
	}
	copy(unsafe.Slice((*byte)(unsafe.Pointer(&e)), unsafe.Sizeof(e)), b)
	if routingHandoffExpired(nowNs, e.LastSeenNs) {
		return res, false, nil
	}
	rr := routingResultFromConnState(e.Result.Mark, e.Result.Must, e.Result.Outbound, e.Result.Mac, e.Result.Dscp, e.Result.Pname, e.Result.Pid)
	return verifC03FromRR(rr, "routing_handoff_map"), true, nil
}

// VerifC03ConnState decodes a conn_state_map value with the Go struct (for state canonicalisation and diagnostics).
type VerifC03ConnStateView struct {
	WanIngress bool
	State      uint8
	LastSeenNs uint64
	HasRouting uint8
	Outbound   uint8
	Mark       uint32
	Must       uint8
	Dscp       uint8
	Mac        [6]uint8
	Pid        uint32
	Pname      [16]uint8
}

func VerifC03ConnState(b []byte) (v VerifC03ConnStateView, ok bool) {
	var cs bpfConnState
	if uintptr(len(b)) != unsafe.Sizeof(cs) {
		return v, false
	}
	copy(unsafe.Slice((*byte)(unsafe.Pointer(&cs)), unsafe.Sizeof(cs)), b)
	return VerifC03ConnStateView{WanIngress: cs.IsWanIngressDirection, State: cs.State, LastSeenNs: cs.LastSeenNs, HasRouting: cs.Meta.Data.HasRouting,
		Outbound: cs.Meta.Data.Outbound, Mark: cs.Meta.Data.Mark, Must: cs.Meta.Data.Must, Dscp: cs.Meta.Data.Dscp, Mac: cs.Mac, Pid: cs.Pid, Pname: cs.Pname}, true
}

// Offsets of the last-seen timestamps inside the Go mirror structs (used to rewrite them to ages in the state key).
func VerifC03LastSeenOffsets() (connState, handoff, redirect, pidPname uintptr) {
	var cs bpfConnState
	var h bpfRoutingHandoffEntry
	var r bpfRedirectEntry
	var p bpfPidPname
	return unsafe.Offsetof(cs.LastSeenNs), unsafe.Offsetof(h.LastSeenNs), unsafe.Offsetof(r.LastSeenNs), unsafe.Offsetof(p.LastSeenNs)
}

func VerifC03Sizes() (connState, handoff, redirect, pidPname, tuplesKey uintptr) {
	return unsafe.Sizeof(bpfConnState{}), unsafe.Sizeof(bpfRoutingHandoffEntry{}), unsafe.Sizeof(bpfRedirectEntry{}), unsafe.Sizeof(bpfPidPname{}), unsafe.Sizeof(bpfTuplesKey{})
}

// VerifC03HandoffTimeoutNs = routingHandoffTimeout (the control plane ignores older hand-off entries).
func VerifC03HandoffTimeoutNs() uint64 { return uint64(routingHandoffTimeout.Nanoseconds()) }

// VerifC03ConnectivityKey = outboundConnectivityMapKey for (outbound, tcp | data-udp, family) as the bytes
// ebpf.Map.Update marshals (uint32, host order).
func VerifC03ConnectivityKey(outbound uint8, udp bool, ipv6 bool) []byte {
	nt := &dialer.NetworkType{L4Proto: consts.L4ProtoStr_TCP, IpVersion: consts.IpVersionStr_4}
	if udp {
		nt.L4Proto = consts.L4ProtoStr_UDP
		nt.UdpHealthDomain = dialer.UdpHealthDomainData
	}
	if ipv6 {
		nt.IpVersion = consts.IpVersionStr_6
	}
	k := outboundConnectivityMapKey(outbound, nt)
	return verifC03Bytes(&k)
}

// VerifC03ConnectivityKeyDns = the DNS-UDP health slot of an outbound.
func VerifC03ConnectivityKeyDns(outbound uint8, ipv6 bool) []byte {
	nt := &dialer.NetworkType{L4Proto: consts.L4ProtoStr_UDP, IpVersion: consts.IpVersionStr_4, UdpHealthDomain: dialer.UdpHealthDomainDns, IsDns: true}
	if ipv6 {
		nt.IpVersion = consts.IpVersionStr_6
	}
	k := outboundConnectivityMapKey(outbound, nt)
	return verifC03Bytes(&k)
}

// VerifC03DomainRouting: the control plane learned that `domain` resolves to addrs. Bitmap = the active program's own
// domain matcher; keys/value = what buildDomainRoutingOwnerSnapshot (production) would put into domain_routing_map.
func VerifC03DomainRouting(v *VerifRouting, domain string, addrs []netip.Addr) (keys [][]byte, value []byte, nonzero bool, err error) {
	bitmap := v.Matcher.domainMatcher.MatchDomainBitmap(domain)
	cache := &DnsCache{DomainBitmap: bitmap}
	for _, a := range addrs {
		if a.Is4() {
			cache.Answer = append(cache.Answer, &dnsmessage.A{Hdr: dnsmessage.RR_Header{Name: dnsmessage.Fqdn(domain), Rrtype: dnsmessage.TypeA, Class: dnsmessage.ClassINET, Ttl: 60}, A: net.IP(a.AsSlice())})
		} else {
			cache.Answer = append(cache.Answer, &dnsmessage.AAAA{Hdr: dnsmessage.RR_Header{Name: dnsmessage.Fqdn(domain), Rrtype: dnsmessage.TypeAAAA, Class: dnsmessage.ClassINET, Ttl: 60}, AAAA: net.IP(a.AsSlice())})
		}
	}
	snap, err := buildDomainRoutingOwnerSnapshot(cache)
	if err != nil {
		return nil, nil, false, err
	}
	for _, ip := range extractIPsFromDnsCache(cache) {
		ip6 := ip.As16()
		k := common.Ipv6ByteSliceToUint32Array(ip6[:])
		if _, ok := snap.ips[k]; !ok {
			return nil, nil, false, fmt.Errorf("address %v missing from the domain routing snapshot", ip)
		}
		keys = append(keys, verifC03Bytes(&k))
	}
	return keys, verifC03Bytes(&snap.bitmap), !isZeroDomainRoutingBitmap(snap.bitmap), nil
}

// VerifC03Param = bytes of the load-time constant as the Go mirror struct bpfDaeParam lays it out.
func VerifC03Param(tproxyPort, controlPlanePid, dae0Ifindex, daeNetnsId uint32, peerMac [6]byte, useRedirectPeer, hasGetCurrentTask uint8, daeSocketMark uint32) []byte {
	p := bpfDaeParam{TproxyPort: tproxyPort, ControlPlanePid: controlPlanePid, Dae0Ifindex: dae0Ifindex, DaeNetnsId: daeNetnsId, Dae0peerMac: peerMac,
		UseRedirectPeer: useRedirectPeer, HasBpfGetCurrentTask: hasGetCurrentTask, DaeSocketMark: daeSocketMark}
	return verifC03Bytes(&p)
}

// VerifC03ListenKeys = the listen_socket_map slots the control plane writes (tcp4, udp, tcp6).
func VerifC03ListenKeys() (tcp4, udp, tcp6 uint32) {
	return uint32(consts.ZeroKey), uint32(consts.OneKey), uint32(consts.TwoKey)
}

// VerifC03SoMark = the socket mark dae puts on its own sockets by default.
func VerifC03SoMark() uint32 { return common.EffectiveSoMarkFromDae(0) }
