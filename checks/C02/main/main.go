// C02 — the kernel routing program and the userspace matcher decide identically.
//
// Bounded-exhaustive differential on real code on both sides (engines K + Q):
//
//	rule text -> config_parser.Parse -> config.New -> routing.NewNormalizedProgram(AliasOptimizer) -> RoutingMatcherBuilder
//	   |-> b.rules ([]bpfMatchSet) -> reserveLpmRingSlots / rewriteKernRulesWithRingLpmIndex -> raw bytes -> routing_map
//	   |-> b.simulatedLpmTries -> cidrToBpfLpmKey -> raw keys -> inner LPM tries -> lpm_array_map[ring slot]
//	   |-> domainMatcher.MatchDomainBitmap(name) -> buildDomainRoutingOwnerSnapshot/syncOwner -> domain_routing_map
//	   |-> BuildUserspace -> ControlPlane.Route                                 (the control plane's own matcher)
//	kdrv (tproxy.c of the current tree, compiled natively) runs the real route() through the real bpf_loop callback.
//
// For every program of the vroute generator (the spaces C01 uses) under a variant (ring state, outbound ids, marks)
// and every packet of the boundary product of the program's own constants (+ dport 53), as TCP and UDP, LAN and
// WAN flavour: route() must return outbound | mark<<8 | must<<40 of ControlPlane.Route for the same packet, except
// that a packet to port 53 whose decision is not must is handed to the control plane
// (OUTBOUND_CONTROL_PLANE_ROUTING, the deciding rule's mark, must = 0). The vroute reference interpreter (written
// from the statement of C01) is compared as a third voice so that a common-mode error is visible.
package main

import (
	"encoding/binary"
	"encoding/json"
	"fmt"
	"hash/fnv"
	"net/netip"
	"os"
	"runtime/debug"
	"runtime/pprof"
	"sort"
	"strings"
	"sync"
	"sync/atomic"
	"time"

	"github.com/daeuniverse/dae/common/consts"
	"github.com/daeuniverse/dae/component/routing"
	"github.com/daeuniverse/dae/control"
	"github.com/daeuniverse/dae/pkg/config_parser"
	"github.com/daeuniverse/dae/verifx/vkern"
	"github.com/daeuniverse/dae/verifx/vlib"
	"github.com/daeuniverse/dae/verifx/vroute"
)

const maxRecorded = 60 // violations recorded in detail; after that the run stops early (it already failed)

// ---------------------------------------------------------------------------------------------------
// variants: ring state x outbound id table x marks

type variant struct {
	Ring int `json:"ring"` // 0 first load, 1 after one load of the same program, 2 after as many loads as make the allocation wrap past slot 1023
	Ids  int `json:"ids"`  // index into idTables
	Mark int `json:"mark"` // 0 as written, 1..3 see markFor
}

// idTables: the outbound ids of the groups g1, g2 (user-defined range is 2..251).
var idTables = [][2]uint8{{2, 3}, {3, 2}, {250, 251}, {251, 2}, {127, 128}}

const nVariants = 3 * 5 * 4

func variantAt(k int) variant { return variant{Ring: k % 3, Ids: (k / 3) % 5, Mark: (k / 15) % 4} }

func (v variant) String() string {
	order := "cold-start"
	if v.Ring != 0 {
		order = "reload(snapshot-after-userspace)"
	}
	return fmt.Sprintf("ring=%d,order=%s,g1=%d,g2=%d,marks=%d", v.Ring, order, idTables[v.Ids][0], idTables[v.Ids][1], v.Mark)
}

// mix64 is the SplitMix64 finaliser: a fixed bijection of uint64 used to ASSIGN one variant to each program index
// of a space (the same in every run; nothing is drawn).
func mix64(x uint64) uint64 {
	x += 0x9e3779b97f4a7c15
	x = (x ^ (x >> 30)) * 0xbf58476d1ce4e5b9
	x = (x ^ (x >> 27)) * 0x94d049bb133111eb
	return x ^ (x >> 31)
}

// markFor: the mark written on rule j (j = -1: the fallback) under mark variant mv.
func markFor(mv, j int) uint32 {
	switch mv {
	case 1:
		if j < 0 {
			return 1
		}
		return 0xffffffff
	case 2:
		if j < 0 {
			return 0xffffffff
		}
		return 1
	default: // 3
		if j < 0 {
			return 0x80000000
		}
		return []uint32{0, 1, 0xffffffff}[j%3]
	}
}

// withMark rewrites an outbound as written ("g1", "must_g1", "g2(must)", "g1(mark:0x7)") to carry mark m.
// must_rules is not a decision and carries no mark.
func withMark(out string, m uint32) string {
	name, rest := out, ""
	if i := strings.IndexByte(out, '('); i >= 0 {
		name, rest = out[:i], strings.TrimSuffix(out[i+1:], ")")
	}
	if name == "must_rules" {
		return out
	}
	var ps []string
	for _, p := range strings.Split(rest, ",") {
		p = strings.TrimSpace(p)
		if p == "" || strings.HasPrefix(p, "mark") {
			continue
		}
		ps = append(ps, p)
	}
	ps = append(ps, fmt.Sprintf("mark: %#x", m))
	return name + "(" + strings.Join(ps, ", ") + ")"
}

func applyMarks(p *vroute.Program, mv int) *vroute.Program {
	if mv == 0 {
		return p
	}
	q := *p
	q.Rules = make([]vroute.Rule, len(p.Rules))
	for j, r := range p.Rules {
		q.Rules[j] = vroute.Rule{Conds: r.Conds, Out: withMark(r.Out, markFor(mv, j))}
	}
	q.Fallback = withMark(p.Fallback, markFor(mv, -1))
	return &q
}

// ---------------------------------------------------------------------------------------------------

type triple struct {
	ob   uint8
	mark uint32
	must bool
}

func (t triple) pack() int64 {
	v := int64(t.ob) | int64(t.mark)<<8
	if t.must {
		v |= 1 << 40
	}
	return v
}

func (t triple) String() string { return fmt.Sprintf("outbound=%d/mark=%#x/must=%v", t.ob, t.mark, t.must) }

func kernString(v int64) string {
	if v < 0 {
		return fmt.Sprintf("error %d", v)
	}
	return triple{uint8(v), uint32(v >> 8), (v>>40)&1 == 1}.String() + func() string {
		if v>>41 != 0 {
			return fmt.Sprintf("/extra-high-bits=%#x", v>>41)
		}
		return ""
	}()
}

type cEnums struct {
	l4TCP, l4UDP, v4, v6 uint32
}

type checker struct {
	r     *vlib.Run
	enums cEnums
	pool  chan *kproc
	all   []*kproc

	evals, kcalls, distinct, histDec, histSkip, programs, dupProgs, byRule, byFb, mustDec, markDec, dnsCP, dnsMust, lanDec, wanDec, tcpDec, udpDec, v4Dec, v6Dec, domKnown, skippedUnspec, kernNeg, refCmp *atomic.Int64
	mism                                                                                                                                                          atomic.Int64

	ringMu sync.Mutex

	mu        sync.Mutex
	outcomes  map[string]int64
	seen      map[uint64]struct{}
	lone      map[string][2]int64
	positives map[string]int64
	perVar    [nVariants]int64
	ringWrap  int64 // programs whose LPM allocation really wrapped past slot 1023
	ringMax   uint32
}

// progSig is the stable rendering of a program inside violation signatures: the rules as written, or for the
// hand-built long programs their label, size and a hash of the text.
func progSig(p *vroute.Program) string {
	if len(p.Rules) <= 8 {
		return p.OneLine()
	}
	h := fnv.New64a()
	h.Write([]byte(p.OneLine()))
	return fmt.Sprintf("<%s: %d rules, fnv64a=%016x>", p.Label, len(p.Rules), h.Sum64())
}

func broken(f string, a ...any) {
	fmt.Fprintf(os.Stderr, "C02: check broken: "+f+"\n", a...)
	os.Exit(2)
}

func l4Of(s string) consts.L4ProtoType {
	if s == "udp" {
		return consts.L4ProtoType_UDP
	}
	return consts.L4ProtoType_TCP
}

func pname16(s string) (o [16]uint8) { copy(o[:], s); return }

type pktJSON struct {
	Src, Dst string
	L4       string
	Domain   string
	Pname    string
	Mac      string
	Dscp     uint8
}

func toJSON(p *vroute.Packet) pktJSON {
	return pktJSON{Src: p.Src.String(), Dst: p.Dst.String(), L4: p.L4, Domain: p.Domain, Pname: p.Pname,
		Mac: fmt.Sprintf("%02x:%02x:%02x:%02x:%02x:%02x", p.Mac[0], p.Mac[1], p.Mac[2], p.Mac[3], p.Mac[4], p.Mac[5]), Dscp: p.Dscp}
}

func fromJSON(j pktJSON) (vroute.Packet, error) {
	var p vroute.Packet
	var err error
	if p.Src, err = netip.ParseAddrPort(j.Src); err != nil {
		return p, err
	}
	if p.Dst, err = netip.ParseAddrPort(j.Dst); err != nil {
		return p, err
	}
	p.L4, p.Domain, p.Pname, p.Dscp = j.L4, j.Domain, j.Pname, j.Dscp
	_, err = fmt.Sscanf(j.Mac, "%02x:%02x:%02x:%02x:%02x:%02x", &p.Mac[0], &p.Mac[1], &p.Mac[2], &p.Mac[3], &p.Mac[4], &p.Mac[5])
	return p, err
}

type caseDetail struct {
	Program   *vroute.Program `json:"program"`
	Config    string          `json:"config"`
	Variant   variant         `json:"variant"`
	Packet    pktJSON         `json:"packet"`
	Wan       bool            `json:"wan"`
	Kernel    string          `json:"kernel"`
	Userspace string          `json:"userspace"`
	Expected  string          `json:"expected_from_userspace"`
	Reference string          `json:"reference"`
	Rules     []string        `json:"routing_map_hex"`
	Alloc     uint32          `json:"lpm_alloc_start"`
	History   string          `json:"dns_answer_history,omitempty"`
}

func (c *checker) violate(sig string, d any) {
	if c.mism.Add(1) <= maxRecorded {
		c.r.Violation(sig, d)
	}
}

// ---------------------------------------------------------------------------------------------------
// one compiled program, loaded into one kdrv

type compiled struct {
	prog    *vroute.Program // as run (marks applied)
	text    string
	va      variant
	ref     *vroute.Reference
	v       *control.VerifRouting
	name2id map[string]uint8
	alloc   uint32
	kern    [][]byte
	wrapped bool
}

var groupNames = []string{"g1", "g2"}

func (c *checker) compile(base *vroute.Program, va variant) (*compiled, error) {
	cp := &compiled{va: va}
	cp.prog = applyMarks(base, va.Mark)
	cp.text = cp.prog.ConfigText()
	sections, err := config_parser.Parse(cp.text)
	if err != nil {
		return cp, fmt.Errorf("parse: %w", err)
	}
	if cp.ref, err = vroute.NewReferenceFromSections(sections); err != nil { // BEFORE config.New patches the AST
		broken("reference cannot read a generated program: %v\n%s", err, cp.text)
	}
	ids := idTables[va.Ids]
	// only the alias normaliser (needed for dip/dport/domain-key spellings); the other optimizers are C04's subject
	// ring state 0 is a cold start (the kernel side is committed before BuildUserspace); a load that follows earlier
	// loads is a reload: the kernel side is built from the KernspaceSnapshot AFTER BuildUserspace has run
	cp.v, err = control.VerifC02Compile(sections, groupNames, ids[:], []routing.RulesOptimizer{&routing.AliasOptimizer{}}, va.Ring != 0)
	if err != nil {
		return cp, err
	}
	cp.name2id = map[string]uint8{"direct": uint8(consts.OutboundDirect), "block": uint8(consts.OutboundBlock), "g1": ids[0], "g2": ids[1]}
	// the ring: reset the process-wide cursor, replay the earlier loads through the production reservation function,
	// then reserve and rewrite for this load exactly as buildRoutingKernspace does
	c.ringMu.Lock()
	defer c.ringMu.Unlock()
	control.VerifLpmRingSet(0)
	n := cp.v.LpmCount()
	max := uint32(consts.MaxMatchSetLen)
	switch va.Ring {
	case 1:
		if _, err = control.VerifReserveLpmRingSlots(n); err != nil {
			return cp, fmt.Errorf("reserveLpmRingSlots: %w", err)
		}
	case 2:
		if n > 0 {
			if _, err = control.VerifReserveLpmRingSlots(1); err != nil { // an earlier configuration with one LPM set
				return cp, fmt.Errorf("reserveLpmRingSlots: %w", err)
			}
			for k := 0; ; k++ {
				cur := control.VerifLpmRingGet()
				if cur+n > max || (n == 1 && cur == max-1) {
					break
				}
				if k > 4*int(max) {
					broken("ring replay does not reach a wrapping allocation for %d sets", n)
				}
				if _, err = control.VerifReserveLpmRingSlots(n); err != nil {
					return cp, fmt.Errorf("reserveLpmRingSlots: %w", err)
				}
			}
		}
	}
	if cp.alloc, err = control.VerifReserveLpmRingSlots(n); err != nil {
		return cp, fmt.Errorf("reserveLpmRingSlots: %w", err)
	}
	cp.wrapped = n > 0 && cp.alloc+n >= max
	if cp.kern, err = cp.v.KernRuleBytesAtRing(cp.alloc); err != nil {
		return cp, fmt.Errorf("rewriteKernRulesWithRingLpmIndex: %w", err)
	}
	return cp, nil
}

func le32(v uint32) []byte { return binary.LittleEndian.AppendUint32(nil, v) }

// routeArg builds the arguments of route() the way do_tproxy_lan_ingress / do_tproxy_wan_egress_{tcp,udp} do:
// flag[0] L4ProtoType_*, flag[1] IpVersionType_* (from the ethertype: an IPv4 frame carries v4-mapped addresses),
// flag[2..5] the 16 bytes of the process name (WAN only), flag[6] dscp, flag[7] is_wan; ports in network order in the
// l4 header; addresses as __be32[4]; the MAC right-aligned in a __be32[4] (bytes 10..15).
func (c *checker) routeArg(p *vroute.Packet, wan bool) vkern.RouteArg {
	var a vkern.RouteArg
	if p.L4 == "udp" {
		a.Flag[0] = c.enums.l4UDP
	} else {
		a.Flag[0] = c.enums.l4TCP
	}
	if p.IPv4() {
		a.Flag[1] = c.enums.v4
	} else {
		a.Flag[1] = c.enums.v6
	}
	if wan {
		pn := pname16(p.Pname)
		for w := 0; w < 4; w++ {
			a.Flag[2+w] = binary.LittleEndian.Uint32(pn[4*w:])
		}
		a.Flag[7] = 1
	}
	a.Flag[6] = uint32(p.Dscp)
	binary.BigEndian.PutUint16(a.L4Hdr[0:], p.Src.Port())
	binary.BigEndian.PutUint16(a.L4Hdr[2:], p.Dst.Port())
	a.Saddr = p.Src.Addr().As16()
	a.Daddr = p.Dst.Addr().As16()
	copy(a.Mac[10:], p.Mac[:])
	return a
}

// packets: the boundary product of the program's own constants (+ dport 53), every packet as TCP and as UDP.
func packetsOf(p *vroute.Program, opts vroute.PacketOpts, bothL4 bool) []vroute.Packet {
	opts.ExtraDports = []uint16{53}
	base := vroute.PacketsFor(p, opts)
	if !bothL4 { // tcp, and udp only where the program mentions l4proto (the generator's own rule)
		return base
	}
	hasUDP := false
	for i := range base {
		if base[i].L4 == "udp" {
			hasUDP = true
			break
		}
	}
	if hasUDP { // the program mentions l4proto: the generator already emits both
		return base
	}
	out := make([]vroute.Packet, 0, 2*len(base))
	for i := range base {
		out = append(out, base[i])
		u := base[i]
		u.L4 = "udp"
		out = append(out, u)
	}
	return out
}

func normFunc(f string) string {
	switch f {
	case "dip":
		return "ip"
	case "dport":
		return "port"
	}
	return f
}

type goRes struct {
	t   triple
	err error
}

type kcase struct {
	pkt int
	wan bool
	arg int // index into the group's de-duplicated argument vectors
}

type group struct {
	domain  string
	idx     []int
	clear   bool
	ents    []control.VerifC02DomainEntry
	cases   []kcase
	args    []vkern.RouteArg
	gor     map[int]goRes
	respUpd int // index of the domain_routing_map update response (-1: none)
	respRt  int // index of the route response (-1: none)
}

// run loads one compiled program into a reset kdrv and decides every packet on both sides. All kdrv requests of the
// program travel in one pipelined session: reset, routing_map, routing_meta_map, one inner trie per LPM set stored at
// its ring slot, and per domain value (domain_routing_map is keyed by the destination address alone) the table the
// control plane writes followed by the route() batch.
func (c *checker) run(k *kproc, cp *compiled, pkts []vroute.Packet, loneKey string, sample bool) {
	loadViol := func(why string) {
		c.violate("leg=load prog="+progSig(cp.prog)+" variant="+cp.va.String()+" "+why, map[string]any{"config": cp.text, "variant": cp.va})
	}
	var s session
	s.reset()
	// --- the rule array and its active length
	rm := k.maps["routing_map"]
	keys := make([][]byte, len(cp.kern))
	for i := range keys {
		keys[i] = le32(uint32(i))
		if len(cp.kern[i]) != int(rm.valueSize) {
			loadViol(fmt.Sprintf("a rule as written by the builder has %d bytes, struct match_set has %d", len(cp.kern[i]), rm.valueSize))
			return
		}
	}
	if len(cp.kern) > int(rm.maxEntries) {
		loadViol(fmt.Sprintf("%d rules do not fit routing_map (%d)", len(cp.kern), rm.maxEntries))
		return
	}
	s.update("routing_map", keys, cp.kern)
	s.update("routing_meta_map", [][]byte{le32(0)}, [][]byte{le32(uint32(len(cp.kern)))})
	// --- the tries
	la := k.maps["lpm_array_map"]
	sets := cp.v.LpmSets()
	type lpmResp struct{ create, upd, set int }
	lr := make([]lpmResp, len(sets))
	for i, set := range sets {
		id := k.innerBase + uint32(i)
		lr[i].create = len(s.kinds)
		s.create("lpm_array_map")
		lr[i].upd = -1
		if len(set) > 0 {
			ks := make([][]byte, len(set))
			vs := make([][]byte, len(set))
			for j, p := range set {
				ks[j] = control.VerifLpmKeyBytes(p)
				vs[j] = le32(1)
				if len(ks[j]) != int(la.innerKey) {
					loadViol(fmt.Sprintf("cidrToBpfLpmKey gives %d bytes, struct lpm_key has %d", len(ks[j]), la.innerKey))
					return
				}
			}
			lr[i].upd = len(s.kinds)
			s.update(vkern.InnerName(id), ks, vs)
		}
		lr[i].set = len(s.kinds)
		s.update("lpm_array_map", [][]byte{le32(control.VerifC02LpmSlot(cp.alloc, i))}, [][]byte{le32(id)})
	}
	// --- packets grouped by domain
	dm := k.maps["domain_routing_map"]
	var groups []*group
	byDom := map[string]*group{}
	for i := range pkts {
		d := pkts[i].Domain
		g := byDom[d]
		if g == nil {
			g = &group{domain: d, respUpd: -1, respRt: -1}
			byDom[d] = g
			groups = append(groups, g)
		}
		g.idx = append(g.idx, i)
	}
	var nSkip int64
	dirty := false
	for _, g := range groups {
		if g.domain != "" {
			seen := map[netip.Addr]bool{}
			var addrs []netip.Addr
			for _, i := range g.idx {
				a := pkts[i].Dst.Addr().Unmap()
				if !seen[a] {
					seen[a] = true
					addrs = append(addrs, a)
				}
			}
			ents, err := control.VerifC02DomainTable(addrs, cp.v.DomainBitmap(g.domain))
			if err != nil {
				c.violate("leg=domain-table prog="+progSig(cp.prog)+" domain="+g.domain+" err="+err.Error(), map[string]any{"config": cp.text})
				return
			}
			g.ents = ents
		}
		if dirty {
			s.clear("domain_routing_map")
			dirty = false
		}
		if len(g.ents) > 0 {
			ks, vs := make([][]byte, len(g.ents)), make([][]byte, len(g.ents))
			for i, e := range g.ents {
				ks[i], vs[i] = e.Key, e.Value
				if len(e.Key) != int(dm.keySize) || len(e.Value) != int(dm.valueSize) {
					loadViol(fmt.Sprintf("the control plane's domain_routing_map entry has %d/%d bytes, the kernel map %d/%d", len(e.Key), len(e.Value), dm.keySize, dm.valueSize))
					return
				}
			}
			g.respUpd = len(s.kinds)
			s.update("domain_routing_map", ks, vs)
			dirty = true
		}
		g.gor = make(map[int]goRes, len(g.idx))
		argIdx := map[vkern.RouteArg]int{}
		addCase := func(i int, wan bool) {
			a := c.routeArg(&pkts[i], wan)
			n, ok := argIdx[a]
			if !ok { // an IPv4 packet reaches route() identically whether Go saw it as 4-byte or as v4-mapped address
				n = len(g.args)
				argIdx[a] = n
				g.args = append(g.args, a)
			}
			g.cases = append(g.cases, kcase{i, wan, n})
		}
		for _, i := range g.idx {
			p := &pkts[i]
			if g.domain != "" && p.Dst.Addr().Unmap().IsUnspecified() {
				// the control plane never installs a bitmap for the unspecified address (extractIPsFromDnsCache):
				// "domain known for this destination" cannot be realised on the kernel side
				nSkip++
				continue
			}
			var gr goRes
			if pn, msg := vlib.Try(func() {
				ob, mark, must, err := cp.v.Route(p.Src, p.Dst, p.Domain, l4Of(p.L4), pname16(p.Pname), p.Mac, p.Dscp)
				gr = goRes{triple{ob, mark, must}, err}
			}); pn {
				gr.err = fmt.Errorf("panic at %s", vlib.PanicSite(msg))
			}
			g.gor[i] = gr
			if p.Pname == "" { // LAN: MAC known, no process name, is_wan = 0
				addCase(i, false)
			}
			// WAN: process name (possibly unknown), is_wan = 1, MAC as on the frame (zero = L3 device)
			addCase(i, true)
		}
		if len(g.args) > 0 {
			g.respRt = len(s.kinds)
			s.route(g.args)
		}
	}
	rs, err := k.exec(&s)
	if err != nil {
		broken("engine K: %v\nprogram: %s", err, progSig(cp.prog))
	}
	// --- did the kernel maps accept what the control plane writes?
	chk := func(i int, what string) bool {
		if i < 0 {
			return true
		}
		if rs[i].status != 0 {
			loadViol(fmt.Sprintf("%s: kdrv refuses the request: %s (%d)", what, rs[i].msg, rs[i].status))
			return false
		}
		for j, x := range rs[i].rc {
			if x != 0 {
				loadViol(fmt.Sprintf("%s: entry %d rejected, rc=%d", what, j, x))
				return false
			}
		}
		return true
	}
	if rs[0].status != 0 {
		broken("engine K: reset failed: %s", rs[0].msg)
	}
	if !chk(1, "routing_map") || !chk(2, "routing_meta_map") {
		return
	}
	for i := range sets {
		if rs[lr[i].create].status != 0 || rs[lr[i].create].id != k.innerBase+uint32(i) {
			broken("engine K: inner map ids are not the predicted sequence (%d, want %d; %s)", rs[lr[i].create].id, k.innerBase+uint32(i), rs[lr[i].create].msg)
		}
		if !chk(lr[i].upd, fmt.Sprintf("LPM trie of set %d (keys of cidrToBpfLpmKey for %v)", i, sets[i])) || !chk(lr[i].set, fmt.Sprintf("lpm_array_map slot %d", control.VerifC02LpmSlot(cp.alloc, i))) {
			return
		}
	}
	local := map[int64]int64{}
	var nRule, nFb, nMust, nMark, nDnsCP, nDnsMust, nLan, nWan, nTCP, nUDP, n4, n6, nDom, nNeg, nEval, nCalls, nDistinct int64
	sampleKern := ""
	posRule := make([]int64, len(cp.prog.Rules))
	type refDec struct {
		t   triple
		hit vroute.Hit
	}
	refCache := make(map[int]refDec, len(pkts))
	nviol := 0
	for _, g := range groups {
		if !chk(g.respUpd, "domain_routing_map (domain "+g.domain+")") {
			return
		}
		if g.respRt < 0 {
			continue
		}
		if rs[g.respRt].status != 0 {
			broken("engine K: route batch refused: %s", rs[g.respRt].msg)
		}
		res := rs[g.respRt].res
		nCalls += int64(len(res))
		used := make([]bool, len(res))
		for _, kc := range g.cases {
			p := &pkts[kc.pkt]
			gr := g.gor[kc.pkt]
			got := res[kc.arg]
			nEval++
			local[got]++
			rd, ok := refCache[kc.pkt]
			if !ok {
				want, hit := cp.ref.Decide(p)
				rd = refDec{triple{cp.name2id[want.Outbound], want.Mark, want.Must}, hit}
				refCache[kc.pkt] = rd
			}
			refT, hit := rd.t, rd.hit
			if hit.Rule >= 0 || hit.MustRules > 0 {
				nRule++
				if !used[kc.arg] { // distinct kernel input of this program whose decision is not the plain fallback
					nDistinct++
				}
			} else {
				nFb++
			}
			used[kc.arg] = true
			if kc.pkt == len(pkts)/2 {
				sampleKern = kernString(got)
			}
			if hit.Rule >= 0 {
				posRule[hit.Rule]++
			}
			if kc.wan {
				nWan++
			} else {
				nLan++
			}
			if p.L4 == "udp" {
				nUDP++
			} else {
				nTCP++
			}
			if p.IPv4() {
				n4++
			} else {
				n6++
			}
			if g.domain != "" {
				nDom++
			}
			exp := gr.t
			dns := p.Dst.Port() == 53
			if dns && !exp.must {
				exp = triple{uint8(consts.OutboundControlPlaneRouting), gr.t.mark, false}
				nDnsCP++
			} else if dns {
				nDnsMust++
			}
			if exp.must {
				nMust++
			}
			if exp.mark != 0 {
				nMark++
			}
			if got < 0 {
				nNeg++
			}
			bad := gr.err != nil || got != exp.pack()
			refBad := gr.err == nil && gr.t != refT
			if (bad || refBad) && nviol < 2 {
				nviol++
				us := gr.t.String()
				if gr.err != nil {
					us = "error: " + gr.err.Error()
				}
				leg := "kernel-vs-userspace"
				if !bad {
					leg = "userspace-vs-reference(common-mode)"
				}
				fl := "lan"
				if kc.wan {
					fl = "wan"
				}
				hexRules := make([]string, len(cp.kern))
				for i, b := range cp.kern {
					hexRules[i] = fmt.Sprintf("%x", b)
				}
				c.violate(fmt.Sprintf("leg=%s prog=%s variant=%s pkt=%s flavour=%s kernel=[%s] userspace=[%s] expected=[%s] reference=[%s]", leg, progSig(cp.prog), cp.va, p.Key(), fl, kernString(got), us, exp, refT),
					caseDetail{Program: cp.prog, Config: cp.text, Variant: cp.va, Packet: toJSON(p), Wan: kc.wan, Kernel: kernString(got), Userspace: us, Expected: exp.String(), Reference: refT.String(), Rules: hexRules, Alloc: cp.alloc})
			}
		}
	}
	c.evals.Add(nEval)
	c.kcalls.Add(nCalls)
	c.byRule.Add(nRule)
	c.distinct.Add(nDistinct)
	c.byFb.Add(nFb)
	c.mustDec.Add(nMust)
	c.markDec.Add(nMark)
	c.dnsCP.Add(nDnsCP)
	c.dnsMust.Add(nDnsMust)
	c.lanDec.Add(nLan)
	c.wanDec.Add(nWan)
	c.tcpDec.Add(nTCP)
	c.udpDec.Add(nUDP)
	c.v4Dec.Add(n4)
	c.v6Dec.Add(n6)
	c.domKnown.Add(nDom)
	c.skippedUnspec.Add(nSkip)
	c.kernNeg.Add(nNeg)
	c.refCmp.Add(nEval)
	c.mu.Lock()
	for v, n := range local {
		c.outcomes[kernString(v)] += n
	}
	for j, n := range posRule {
		if n == 0 {
			continue
		}
		for _, cd := range cp.prog.Rules[j].Conds {
			k := normFunc(cd.Func)
			if cd.Not {
				k = "!" + k
			}
			c.positives[k] += n
		}
	}
	if loneKey != "" {
		t := c.lone[loneKey]
		t[0] += nRule
		t[1] += nFb
		c.lone[loneKey] = t
	}
	c.mu.Unlock()
	if sample && len(pkts) > 0 {
		p := &pkts[len(pkts)/2]
		d, hit := cp.ref.Decide(p)
		c.r.Sample(map[string]any{"routing": cp.prog.RoutingBody(), "variant": cp.va.String(), "lpm_alloc_start": cp.alloc, "packets": len(pkts), "kernel_decisions": nEval,
			"one_packet": p.Key(), "reference_decision": d.String(), "by_rule": hit.Rule, "kernel_route_result_wan_flavour": sampleKern})
	}
}

func (c *checker) one(base *vroute.Program, va variant, opts vroute.PacketOpts, bothL4 bool, dedupe bool, sample bool) {
	var cp *compiled
	var err error
	if p, msg := vlib.Try(func() { cp, err = c.compile(base, va) }); p {
		c.violate("leg=build panic at "+vlib.PanicSite(msg)+" prog="+progSig(base)+" variant="+va.String(), map[string]any{"program": base, "panic": msg})
		return
	}
	if err != nil {
		c.violate("leg=build error prog="+progSig(cp.prog)+" variant="+va.String()+" err="+err.Error(), map[string]any{"config": cp.text, "program": cp.prog})
		return
	}
	// the EFFECTIVE variant: the ring state is immaterial without LPM sets, the id table without g1/g2
	effRing, effIds := va.Ring, va.Ids
	if cp.v.LpmCount() == 0 {
		effRing = 0
	}
	if body := cp.prog.RoutingBody(); !strings.Contains(body, "g1") && !strings.Contains(body, "g2") {
		effIds = 0
	}
	if dedupe {
		// run each effective (program, variant) once; two base programs can also coincide once marks are
		// rewritten (g1 / g1(mark:…))
		h := fnv.New64a()
		h.Write([]byte(cp.text))
		fmt.Fprintf(h, "|%d|%d", effRing, effIds)
		key := h.Sum64()
		c.mu.Lock()
		_, dup := c.seen[key]
		c.seen[key] = struct{}{}
		c.mu.Unlock()
		if dup {
			c.dupProgs.Add(1)
			return
		}
	}
	c.programs.Add(1)
	c.mu.Lock()
	c.perVar[effRing+3*effIds+15*va.Mark]++
	if cp.wrapped {
		c.ringWrap++
	}
	if cp.v.LpmCount() > 0 && cp.alloc > c.ringMax {
		c.ringMax = cp.alloc
	}
	c.mu.Unlock()
	pkts := packetsOf(cp.prog, opts, bothL4)
	loneKey := ""
	if len(cp.prog.Rules) == 1 && len(cp.prog.Rules[0].Conds) == 1 {
		cd := cp.prog.Rules[0].Conds[0]
		loneKey = cd.Func
		if cd.Not {
			loneKey = "!" + loneKey
		}
	}
	k := <-c.pool
	defer func() { c.pool <- k }()
	c.run(k, cp, pkts, loneKey, sample)
}

// space is a finite indexable program set (a vroute.Space, or the hand-listed variants base).
type space struct {
	Name, Descr string
	n           int
	at          func(i int) *vroute.Program
	variants    []int // with allVariants: the variant indices to run (nil = all)
}

func (s *space) Len() int                 { return s.n }
func (s *space) At(i int) *vroute.Program { return s.at(i) }

func fromV(v *vroute.Space) *space { return &space{Name: v.Name, Descr: v.Descr, n: v.Len(), at: v.At} }

func (c *checker) runSpace(s *space, opts vroute.PacketOpts, bothL4 bool, dedupe bool, allVariants bool) {
	if only := os.Getenv("C02_ONLY"); only != "" && only != s.Name { // development aid
		return
	}
	n := s.Len()
	e0, p0 := c.evals.Load(), c.programs.Load()
	total := n
	vlist := s.variants
	if vlist == nil {
		for k := 0; k < nVariants; k++ {
			vlist = append(vlist, k)
		}
	}
	if allVariants {
		total = n * len(vlist)
	}
	stride := total/3 + 1
	seed := uint64(0)
	for _, ch := range s.Name {
		seed = seed*131 + uint64(ch)
	}
	var done atomic.Int64
	c.r.ParallelFor(total, func(j int) {
		if c.mism.Load() > maxRecorded {
			return
		}
		if c.r.OverBudget(6*time.Minute, 75*time.Minute) { // runaway guard only (a heavily loaded host), never an oracle
			c.r.CapHit("internal time budget reached inside space " + s.Name)
			return
		}
		i, va := j, variant{}
		if allVariants {
			i, va = j/len(vlist), variantAt(vlist[j%len(vlist)])
		} else {
			va = variantAt(int(mix64(seed+uint64(j)) % nVariants))
		}
		c.one(s.At(i), va, opts, bothL4, dedupe, j%stride == stride/2)
		if d := done.Add(1); total >= 200000 && d%int64(total/5) == 0 && d < int64(total) {
			fmt.Printf("C02: space %-10s %d%% t=%.0fs\n", s.Name, d*100/int64(total), c.r.Elapsed().Seconds())
		}
	})
	c.r.Set("space_"+s.Name+"_programs", int(c.programs.Load()-p0))
	c.r.Set("space_"+s.Name+"_decisions", int(c.evals.Load()-e0))
	fmt.Printf("C02: space %-12s programs=%d decisions=%d (%s) t=%.0fs\n", s.Name, c.programs.Load()-p0, c.evals.Load()-e0, s.Descr, c.r.Elapsed().Seconds())
}

// ---------------------------------------------------------------------------------------------------
// the variants leg: a fixed list of base programs under ALL 60 variants (complete product)

func variantBase() *space {
	b := func(v ...string) []vroute.Param {
		o := make([]vroute.Param, len(v))
		for i, x := range v {
			o[i] = vroute.Param{Val: x}
		}
		return o
	}
	cond := func(f string, not bool, ps []vroute.Param) vroute.Cond { return vroute.Cond{Func: f, Not: not, Params: ps} }
	dom := []vroute.Param{{Key: "suffix", Val: "example.com"}, {Key: "full", Val: "www.test.org"}}
	var progs []*vroute.Program
	add := func(fb string, rules ...vroute.Rule) {
		progs = append(progs, &vroute.Program{Tier: 0, Label: "variants", Rules: rules, Fallback: fb})
	}
	r := func(out string, cs ...vroute.Cond) vroute.Rule { return vroute.Rule{Conds: cs, Out: out} }
	dip := cond("dip", false, b("10.0.0.0/8", "2001:db8::/127"))
	sip := cond("sip", false, b("192.168.1.2"))
	nsip := cond("sip", true, b("192.168.1.2", "2001:db8::2"))
	mac := cond("mac", false, b(vroute.MacA))
	nmac := cond("mac", true, b(vroute.MacA, vroute.MacB))
	port := cond("dport", false, b("53", "79-81"))
	nport := cond("dport", true, b("53"))
	sport := cond("sport", false, b("40000"))
	l4 := cond("l4proto", false, b("udp"))
	ipv := cond("ipversion", false, b("6"))
	pn := cond("pname", false, b("curl", vroute.Pname16))
	dscp := cond("dscp", false, b("4"))
	dm := cond("domain", false, dom)
	ndm := cond("domain", true, dom)
	for _, fb := range []string{"direct", "g2", "must_g1"} {
		for _, out := range []string{"g1", "must_g2", "block", "g2(must)"} {
			add(fb, r(out, dip))
			add(fb, r(out, mac))
			add(fb, r(out, port))
			add(fb, r(out, dm))
		}
		// every LPM user at once (4 sets: the ring allocation spans several slots), OR-lists, negations
		add(fb, r("g1", dip, sip), r("g2", nmac), r("block", nsip, port))
		add(fb, r("must_rules", l4), r("g1", dip), r("g2", sip, mac))
		add(fb, r("must_rules", nport), r("g1", dm, ipv), r("g2", pn), r("direct", dscp, sport))
		add(fb, r("g1", ndm, dip), r("must_g2", nmac, sip), r("g2", port))
		add(fb, r("g2", dm), r("must_rules", mac), r("g1", nsip))
	}
	return &space{Name: "variants", n: len(progs), at: func(i int) *vroute.Program { return progs[i] },
		Descr: fmt.Sprintf("%d hand-listed base programs (1-3 rules; all ten functions; up to 4 LPM sets) under every one of the %d variants", len(progs), nVariants)}
}

// ---------------------------------------------------------------------------------------------------

func (c *checker) startKdrvs(n int) {
	c.pool = make(chan *kproc, n)
	for i := 0; i < n; i++ {
		k, err := startKproc()
		if err != nil {
			broken("%v", err)
		}
		c.all = append(c.all, k)
		c.pool <- k
	}
}

func (c *checker) stopKdrvs() {
	for _, k := range c.all {
		if err := k.close(); err != nil {
			broken("kdrv exited abnormally: %v\n%s", err, k.stderr.String())
		}
	}
}

func (c *checker) replay() {
	b, err := os.ReadFile(c.r.ReplayArg)
	if err != nil {
		broken("%v", err)
	}
	var f struct {
		Detail caseDetail `json:"detail"`
	}
	if err := json.Unmarshal(b, &f); err == nil && f.Detail.History != "" {
		// a histories-leg violation: the leg is small, re-run it completely
		c.runHistories()
		fmt.Printf("REPLAY histories leg (recorded history %s): mismatches: %d\n", f.Detail.History, c.mism.Load())
		if c.mism.Load() != 0 {
			fmt.Println("VIOLATION property=C02 replay=" + c.r.ReplayArg)
			os.Exit(1)
		}
		os.Exit(0)
	}
	if err := json.Unmarshal(b, &f); err != nil || f.Detail.Program == nil {
		broken("replay file has no program/packet (build- or load-leg violation?) %v", err)
	}
	// the recorded program already carries its marks: recompile it with mark variant 0
	va := f.Detail.Variant
	va.Mark = 0
	cp, err := c.compile(f.Detail.Program, va)
	if err != nil {
		fmt.Println("REPLAY build error:", err)
		os.Exit(1)
	}
	p, err := fromJSON(f.Detail.Packet)
	if err != nil {
		broken("%v", err)
	}
	k := <-c.pool
	before := c.mism.Load()
	pk := []vroute.Packet{p}
	c.run(k, cp, pk, "", false)
	body := cp.prog.RoutingBody()
	if len(cp.prog.Rules) > 40 {
		body = progSig(cp.prog) + "\n"
	}
	fmt.Printf("REPLAY routing:\n%svariant: %s (lpm alloc start %d)\npacket: %s (recorded flavour wan=%v; both flavours are re-run)\nmismatches: %d\n", body, f.Detail.Variant, cp.alloc, p.Key(), f.Detail.Wan, c.mism.Load()-before)
	if c.mism.Load() != before {
		fmt.Println("VIOLATION property=C02 replay=" + c.r.ReplayArg)
		os.Exit(1)
	}
	os.Exit(0)
}

func main() {
	r := vlib.Start("C02", "exploration")
	debug.SetGCPercent(600) // the builder allocates 1024-slot matcher tables per program; heap stays small
	c := &checker{r: r, outcomes: map[string]int64{}, seen: map[uint64]struct{}{}, lone: map[string][2]int64{}, positives: map[string]int64{}}
	c.evals, c.programs, c.dupProgs = r.Counter("evaluations"), r.Counter("programs"), r.Counter("program_variants_skipped_as_identical_in_effect")
	c.byRule, c.byFb = r.Counter("decided_by_rule_or_must_rules"), r.Counter("decided_by_plain_fallback")
	c.mustDec, c.markDec = r.Counter("decisions_with_must"), r.Counter("decisions_with_mark")
	c.dnsCP, c.dnsMust = r.Counter("dns_port53_handed_to_control_plane"), r.Counter("dns_port53_kept_by_must")
	c.lanDec, c.wanDec, c.tcpDec, c.udpDec = r.Counter("decisions_lan"), r.Counter("decisions_wan"), r.Counter("decisions_tcp"), r.Counter("decisions_udp")
	c.v4Dec, c.v6Dec, c.domKnown = r.Counter("decisions_ipv4"), r.Counter("decisions_ipv6"), r.Counter("decisions_with_domain_bitmap_installed")
	c.skippedUnspec = r.Counter("packets_skipped_domain_for_unspecified_destination")
	c.kernNeg, c.refCmp = r.Counter("kernel_negative_results"), r.Counter("three_way_comparisons")
	c.kcalls = r.Counter("kernel_route_calls")
	c.distinct = r.Counter("distinct_nontrivial")
	c.histDec = r.Counter("decisions_over_tracker_histories")
	c.histSkip = r.Counter("history_pairs_not_comparable_address_shared_with_other_bitmaps")

	if err := vroute.SelfTest(); err != nil {
		broken("%v", err)
	}
	kdrv := vkern.KdrvPath()
	if _, err := os.Stat(kdrv); err != nil {
		broken("kdrv not built (%s): run through /verif/run so that checks/C02/prebuild runs", kdrv)
	}
	lay, err := vkern.ReadLayout(kdrv)
	if err != nil {
		broken("%v", err)
	}
	if lay.ABI.Pointer != 8 || lay.ABI.Int != 4 || lay.ABI.LittleEndian != 1 {
		broken("unexpected host ABI %+v", lay.ABI)
	}
	ev := func(enum, name string) uint32 {
		e := lay.Enum(enum)
		if e == nil {
			e = lay.Enum("enum " + enum)
		}
		if e == nil {
			broken("tproxy.c no longer defines enum %s", enum)
		}
		v, ok := e.Values[name]
		if !ok {
			broken("enum %s has no %s", enum, name)
		}
		return uint32(v)
	}
	// what the C entry points write into flag[0] / flag[1]: the C compiler's values of the C enumerators
	c.enums = cEnums{l4TCP: ev("L4ProtoType", "L4ProtoType_TCP"), l4UDP: ev("L4ProtoType", "L4ProtoType_UDP"), v4: ev("IpVersionType", "IpVersionType_4"), v6: ev("IpVersionType", "IpVersionType_6")}
	if m := lay.Map("routing_map"); m == nil || m.MaxEntries != consts.MaxMatchSetLen {
		broken("routing_map max_entries differs from consts.MaxMatchSetLen: the stated limit (MAX_MATCH_SET_LEN fixed at 1024) does not hold")
	}
	nk := r.Workers
	if nk > 16 {
		nk = 16
	}
	c.startKdrvs(nk)
	if r.ReplayArg != "" {
		c.replay()
	}
	if os.Getenv("C02_BENCH") != "" {
		c.bench()
	}
	if pf := os.Getenv("C02_CPUPROFILE"); pf != "" { // development aid: profile a slice of tier 1
		f, _ := os.Create(pf)
		pprof.StartCPUProfile(f)
		t1 := fromV(vroute.Tier1())
		t1.n = 12000
		c.runSpace(t1, vroute.PacketOpts{MappedForms: true}, true, true, false)
		pprof.StopCPUProfile()
		f.Close()
		os.Exit(0)
	}

	c.runHistories()
	full := vroute.PacketOpts{MappedForms: true}
	vb := variantBase()
	c.runSpace(vb, vroute.PacketOpts{Compact: true, MappedForms: true}, true, true, true)
	lb := longBase()
	c.runSpace(lb, vroute.PacketOpts{Compact: true}, true, true, true)
	// (a3) prefix spellings: plain / IPv4-mapped / IPv6 spellings of prefixes at lengths around the /96 boundary,
	// every program under a fixed set of variants covering the three ring states (thorough: the deeper alphabet
	// under all 60 variants); full boundary product plus interior addresses of every prefix
	ps := fromV(vroute.PrefixSpellings(r.Thorough()))
	if !r.Thorough() {
		ps.variants = []int{0, 19, 38}
	} else {
		for k := 0; k < nVariants; k++ { // ring {0,1,2} x ids {(2,3),(250,251)} x marks {as written, per-rule}
			if v := variantAt(k); (v.Ids == 0 || v.Ids == 2) && (v.Mark == 0 || v.Mark == 3) {
				ps.variants = append(ps.variants, k)
			}
		}
	}
	p0 := c.programs.Load()
	c.runSpace(ps, vroute.PacketOpts{MappedForms: true, Interior: true}, true, true, true)
	pfxPrograms := c.programs.Load() - p0
	t1 := fromV(vroute.Tier1())
	c.runSpace(t1, full, true, true, false)
	c.runSpace(fromV(vroute.Tier2(1, true, vroute.Tier2Outbounds)), full, true, true, r.Thorough())
	rule := "histories leg: " + histDescr + ". programs: (a) " + vb.Descr + " (compact packet product); (a2) " + lb.Descr + " (compact packet product); (a3) " + ps.Descr + fmt.Sprintf(", each under %d variants (quick: ring state 0 with ids/marks as written, ring state 1 with ids (3,2) and mark variant 1, ring state 2 with ids (250,251) and mark variant 2; thorough: the deeper alphabet under the 12 variants ring 0,1,2 x ids (2,3),(250,251) x marks as written / per rule), full packet product plus per prefix the interior addresses first+1, first of the upper half, last", map[bool]int{false: 3, true: 12}[r.Thorough()]) + "; (b) tier 1 = " + t1.Descr + "; (c) tier 2 = 4 rotations of three independent atoms, rule = any non-empty conjunction of {A,!A,B,!B,C,!C} (26) x single/multi-valued realisation x outbound: all programs of exactly 1 rule (realisation per rule, 5 outbounds incl. must_rules)"
	if !r.Thorough() {
		c.runSpace(fromV(vroute.Tier2(2, false, vroute.Tier2OutboundsSmall)), vroute.PacketOpts{Compact: true}, true, false, false)
		rule += " and, quick tier, all programs of exactly 2 rules over the 3 outbounds {g1, must_g2, must_rules} with the realisation chosen per program (compact packet product: one inside + one outside neighbour per constant)"
	} else {
		c.runSpace(fromV(vroute.Tier2(2, true, vroute.Tier2Outbounds)), vroute.PacketOpts{}, true, false, false)
		c.runSpace(fromV(vroute.Tier2(3, false, vroute.Tier2OutboundsSmall)), vroute.PacketOpts{Compact: true}, false, false, false)
		rule += ", under all 60 variants; all programs of exactly 2 rules (realisation per rule, 5 outbounds, full packet product); all programs of exactly 3 rules over 3 outbounds {g1, must_g2, must_rules} with the realisation chosen per program (compact packet product; UDP only where the program mentions l4proto)"
	}
	rule += fmt.Sprintf(". variants (%d) = LPM ring state {first load = cold start: rule bytes and prefix sets taken from the builder before BuildUserspace; the two reload states take them from builder.KernspaceSnapshot() AFTER BuildUserspace (the staged-reload / rollback order): after one load of the same program, after as many loads (one 1-set configuration, then the same program repeatedly, each through the real reserveLpmRingSlots) as make this load's allocation end at or wrap past slot 1023} x ids(g1,g2) in %v x marks {as written; rules 0xffffffff + fallback 1; rules 1 + fallback 0xffffffff; rule j in {0,1,0xffffffff}[j%%3] + fallback 0x80000000}. (a) runs the complete product; in (b),(c) program i of a space runs under variant SplitMix64(space,i) mod %d (a fixed assignment, identical in every run; per-variant program counts, by effective variant, are in programs_per_variant)", nVariants, idTables, nVariants)
	rule += ". packets: vroute.PacketsFor = per program the full product of the boundary values of its own constants (prefix first/last/first-1/last+1 in 128-bit space, both families, IPv4 also as IPv4-mapped Go addresses in (a),(b) and tier-2 1-rule; port range ends and +-1 plus destination port 53; no/matching/sub-/glued/upper-case+trailing-dot/foreign domain; no/listed(16 bytes)/+-1 byte/foreign pname; zero/listed/listed^1/foreign MAC; dscp listed +-1), every packet as TCP and as UDP, in LAN flavour (is_wan=0, no process name: the packets without pname) and WAN flavour (is_wan=1, process name as in the packet incl. unknown, MAC as in the packet incl. zero). A case = (program, variant, packet, flavour): the real route() result compared with ControlPlane.Route and with the vroute reference (evaluations). An IPv4 packet given to Go as plain and as v4-mapped address is two cases but one kernel argument vector (kernel_route_calls counts distinct vectors per program and domain). Programs are pairwise distinct: spaces enumerated under several variants are de-duplicated by (text after mark rewriting, ring state if the program has LPM sets, id table if it names g1/g2). distinct_nontrivial = distinct kernel argument vectors (per program variant) whose decision is taken by a rule or passes a holding must_rules, i.e. is not the plain fallback"
	r.Rule(rule)
	c.stopKdrvs()

	if c.mism.Load() == 0 && os.Getenv("C02_ONLY") == "" {
		for _, f := range []string{"domain", "dip", "ip", "sip", "dport", "port", "sport", "l4proto", "ipversion", "mac", "pname", "dscp"} {
			for _, k := range []string{f, "!" + f} {
				if c.lone[k][0] == 0 || c.lone[k][1] == 0 {
					broken("vacuous exploration: lone condition %s was never seen both holding and not holding", k)
				}
			}
		}
		for k := 0; k < nVariants; k++ {
			if c.perVar[k] == 0 {
				broken("vacuous exploration: variant %s never ran", variantAt(k))
			}
		}
		if pfxPrograms == 0 {
			broken("vacuous exploration: the prefix-spelling leg ran no program")
		}
		if c.dnsCP.Load() == 0 || c.dnsMust.Load() == 0 || c.ringWrap == 0 || c.domKnown.Load() == 0 {
			broken("vacuous exploration: dns=%d dns-must=%d ring-wraps=%d domain=%d", c.dnsCP.Load(), c.dnsMust.Load(), c.ringWrap, c.domKnown.Load())
		}
	}
	loneOut := map[string]map[string]int64{}
	for k, t := range c.lone {
		loneOut[k] = map[string]int64{"held": t[0], "not_held": t[1]}
	}
	r.Set("lone_condition_truth", loneOut)
	r.Set("positives_per_condition_of_the_deciding_rule", c.positives)
	pv := map[string]int64{}
	minPV := int64(-1)
	for k := 0; k < nVariants; k++ {
		pv[variantAt(k).String()] = c.perVar[k]
		if minPV < 0 || c.perVar[k] < minPV {
			minPV = c.perVar[k]
		}
	}
	r.Set("programs_per_variant", pv)
	r.Set("programs_per_variant_min", int(minPV))
	r.Set("programs_with_lpm_allocation_reaching_slot_1023", int(c.ringWrap))
	r.Set("lpm_alloc_start_max", int(c.ringMax))
	r.Set("distinct_outcomes", len(c.outcomes))
	r.Set("mismatches", int(c.mism.Load()))
	r.Set("kdrv_processes", nk)
	var ks []string
	for k := range c.outcomes {
		ks = append(ks, k)
	}
	sort.Strings(ks)
	oc := map[string]int64{}
	for _, k := range ks {
		oc[k] = c.outcomes[k]
	}
	r.Set("outcome_histogram", oc)
	if c.mism.Load() > maxRecorded {
		r.CapHit(fmt.Sprintf("stopped early after %d mismatches (the run had already failed)", maxRecorded))
	}
	r.Assume("the kernel side is tproxy.c of the current tree compiled natively for x86-64 and run under the kshim helper/map shim (engine K): no verifier, no JIT, no instruction/stack limits, one CPU; LPM tries and hash maps follow Linux semantics as implemented by kshim")
	r.Assume("MAX_MATCH_SET_LEN is the built-in 1024 (routing_map max_entries is checked against consts.MaxMatchSetLen at start); little-endian x86-64 only")
	r.Assume("only routing.AliasOptimizer is applied before the builder (as in C01); both sides are lowered from the same builder instance, so DatReader/MergeAndSort/Deduplicate shapes are C04's subject")
	r.Assume("route() arguments are built by the harness the way do_tproxy_lan_ingress / do_tproxy_wan_egress_{tcp,udp} build them (flag[0],flag[1] = the C enumerators' values from kdrv --layout; C19 cross-checks the key forms against the real entry points); an IPv4 packet reaches route() with IPv4-mapped addresses and IpVersionType_4")
	r.Assume("the ring slot a trie is stored at is (allocStart+i) % MaxMatchSetLen, the expression of buildRoutingKernspace (which needs real bpf objects and is not executed); slots of earlier loads are left empty, so a rule that reads a stale slot fails loudly")
	r.Assume("'domain known' = the bitmap MatchDomainBitmap(name) is installed for the packet's destination address through buildDomainRoutingOwnerSnapshot + domainRoutingTracker.syncOwner (all-zero bitmaps are not installed, as in production) and the same name is given to ControlPlane.Route; packets whose destination is the unspecified address are not paired with a domain (the control plane never installs one for it)")
	r.Assume("LAN packets carry no process name (a process name with is_wan=0 does not occur in the datapath); well-formed programs only (port ranges start<=end, groups defined)")
	r.Finish()
}
