// C13 — UDP flows: ordered exactly-once tasks, single stable endpoint, leak-free (engine S).
package main

import (
	"os"
	"strings"
	"time"

	"github.com/daeuniverse/dae/control"
	"github.com/daeuniverse/dae/verifx/vdrive"
	"github.com/daeuniverse/dae/verifx/vsched"
)

func main() {
	type B = vsched.Bound
	// harness 2 (endpoint pool): scenarios without environment choices (no dial/write fault menu, janitor stopped)
	// have an empty deviation dimension, so {p,1} there is {p,0}.
	epSmallQ := []B{{0, 0}, {1, 1}, {2, 1}}
	epSmallT := []B{{0, 0}, {1, 1}, {2, 1}, {3, 1}}
	epKdelQ := []B{{0, 0}, {0, 1}, {1, 1}, {2, 1}}
	epKdelT := []B{{0, 0}, {0, 2}, {1, 2}, {2, 2}, {3, 1}}
	// The quick tier runs harness 2 as 5 scenarios (3 alone + 2 groups whose first free decision picks the member):
	// one set of workers and one time share per group instead of per member. The thorough tier, a worker, a replay
	// and an explicit -scenario see every scenario under its own name.
	tp, singles, groups := control.VerifTaskPoolScenarios(), control.VerifEndpointPoolScenarios(), control.VerifEndpointPoolQuickScenarios()
	scenarios := append(append([]*vsched.Scenario{}, tp...), groups...)
	seen := map[string]bool{}
	for _, sc := range scenarios {
		seen[sc.Name] = true
	}
	quickOnly := true
	for i, a := range os.Args[1:] {
		a = strings.TrimLeft(a, "-")
		for _, f := range []string{"vsworker", "replay", "scenario"} {
			if a == f || strings.HasPrefix(a, f+"=") {
				quickOnly = false
			}
		}
		if (a == "tier" && i+2 < len(os.Args) && os.Args[i+2] == "thorough") || a == "tier=thorough" {
			scenarios, quickOnly = append(append([]*vsched.Scenario{}, tp...), singles...), true
			break
		}
	}
	if !quickOnly {
		for _, sc := range singles {
			if !seen[sc.Name] {
				scenarios = append(scenarios, sc)
			}
		}
	}
	p := &vdrive.Plan{
		Scenarios:      scenarios,
		QuickBounds:    []B{{0, 0}, {1, 1}, {2, 1}},
		ThoroughBounds: []B{{0, 0}, {1, 1}, {2, 1}, {2, 2}, {3, 2}},
		PerScenario: map[string]map[string][]B{
			"tp-overflow":      {"quick": {{0, 0}, {1, 0}, {1, 1}}, "thorough": {{0, 0}, {1, 1}, {2, 1}, {2, 2}}},
			"tp-deep-overflow": {"quick": {{0, 0}, {1, 0}, {1, 1}}, "thorough": {{0, 0}, {1, 1}, {2, 1}}},
			"tp-2keys-3prod":   {"quick": {{0, 0}, {1, 0}, {2, 0}}, "thorough": {{0, 0}, {2, 0}, {1, 1}, {2, 1}}},

			// quick keeps the bounds below complete within its budget on an idle 16-core box (single-process sizes in
			// executions next to the top quick bound); the wider levels live in thorough.
			"ep-3goc-dial":               {"quick": {{0, 0}, {0, 2}, {1, 0}}, "thorough": {{0, 0}, {0, 2}, {1, 1}, {1, 2}, {2, 1}}}, // 30k
			"ep-2goc-seq-dial":           {"quick": {{0, 0}, {1, 1}, {1, 2}, {2, 1}}, "thorough": {{0, 0}, {1, 2}, {2, 2}, {3, 2}}}, // 48k
			"ep-goc-vs-readerr":          {"quick": epSmallQ, "thorough": epSmallT},                                                 // 9k
			"ep-goc-vs-writeerr":         {"quick": {{0, 0}, {1, 1}}, "thorough": {{0, 0}, {1, 2}, {2, 1}, {2, 2}, {3, 2}}},         // 9k
			"ep-goc-vs-invalidate-fresh": {"quick": {{0, 0}, {1, 1}}, "thorough": epSmallT},                                         // 1k ((2,1): 260k)
			"ep-goc-vs-invalidate-used":  {"quick": {{0, 0}, {1, 1}, {2, 1}, {3, 1}}, "thorough": {{0, 0}, {2, 1}, {3, 1}, {4, 1}}}, // 17k
			"ep-create-vs-invalidate":    {"quick": {{0, 0}, {1, 1}}, "thorough": epSmallT},                                         // 2k ((2,1): 310k)
			"ep-goc-vs-janitor":          {"quick": {{0, 0}, {1, 0}, {0, 1}, {2, 0}}, "thorough": {{0, 0}, {2, 0}, {1, 1}, {2, 1}}}, // 11k
			"ep-goc-vs-reset":            {"quick": epSmallQ, "thorough": epSmallT},                                                 // 11k
			"ep-goc-vs-close":            {"quick": epSmallQ, "thorough": epSmallT},                                                 // 24k
			"ep-goc-vs-remove":           {"quick": epSmallQ, "thorough": epSmallT},                                                 // 7k
			"ep-stale-remove-seq":        {"quick": epSmallQ, "thorough": epSmallT},                                                 // 1k
			"ep-stale-remove-race":       {"quick": {{0, 0}, {1, 1}}, "thorough": {{0, 0}, {1, 1}, {2, 1}, {2, 2}}},                 // 63k
			"ep-adopt-shared-tuple":      {"quick": epSmallQ, "thorough": epSmallT},                                                 // 7k
			"ep-adopt-vs-readerr":        {"quick": epSmallQ, "thorough": epSmallT},                                                 // 7k
			"ep-adopt-distinct-tracker":  {"quick": epSmallQ, "thorough": epSmallT},                                                 // 11k
			"ep-closed-gen-shared-tuple": {"quick": epSmallQ, "thorough": epSmallT},                                                 // 30k
			"ep-closed-gen-late-track":   {"quick": epSmallQ, "thorough": epSmallT},
			// kernel-delete fault leg: one deviation = one failing (or evicted) release; thorough adds two in a row
			"ep-kdel-remove-vs-track": {"quick": epKdelQ, "thorough": epKdelT},
			"ep-kdel-readerr-reset":  {"quick": {{0, 0}, {0, 1}, {1, 1}}, "thorough": {{0, 0}, {0, 2}, {1, 2}, {2, 1}}},
			"ep-kdel-janitor":        {"quick": {{0, 0}, {0, 1}, {1, 0}}, "thorough": {{0, 0}, {0, 2}, {1, 1}}},
			"ep-kdel-adopt":          {"quick": epKdelQ, "thorough": epKdelT},
			// quick-tier groups (sum of the members' sizes)
			"epq-depth2": {"quick": epSmallQ, "thorough": epSmallT},                         // 170k
			"epq-depth1": {"quick": {{0, 0}, {1, 1}}, "thorough": {{0, 0}, {1, 1}, {2, 1}}}, // 75k
			"epq-kdel":   {"quick": epKdelQ, "thorough": epKdelT},
		},
		BudgetQuick:    170 * time.Second,
		BudgetThorough: 20 * time.Minute,
	}
	vdrive.Main("C13", p)
}
