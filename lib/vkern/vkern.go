// Package vkern is the Go client of engine K (/verif/kshim): it starts kdrv — dae's kernel program
// control/kern/tproxy.c compiled natively under a bpf helper/map shim — as a subprocess and wraps its
// binary protocol. Pure Go (no cgo). The binary is found through $VERIF_KDRV, else $VERIF_WORKDIR/kdrv.
//
// All keys / values / PARAM travel as raw bytes: produce them with the repo's own real-mode encoders and
// struct types and decode what comes back with the repo's own Go structs.
package vkern

import (
	"bufio"
	"bytes"
	"encoding/binary"
	"encoding/json"
	"errors"
	"fmt"
	"io"
	"os"
	"os/exec"
	"path/filepath"
	"strings"
	"sync"
)

const (
	opHello = 0x01
	opReset = 0x02
	opMapUpdate = 0x03
	opMapLookup = 0x04
	opMapDelete = 0x05
	opMapDump = 0x06
	opMapClear = 0x07
	opMapCreateInner = 0x08
	opMapSetMax = 0x09
	opMapInfo = 0x0a
	opMapFault = 0x0b
	opParamSet = 0x10
	opParamGet = 0x11
	opSetTime = 0x12
	opSetTask = 0x13
	opSetSocks = 0x14
	opSetKnobs = 0x15
	opGetTime = 0x16
	opRoute = 0x20
	opInject = 0x21
	opParse = 0x22
	opAlive = 0x23
	opSnapshot = 0x30
	opRestore = 0x31
	opSnapFree = 0x32
	opEvents = 0x33
	opTrace = 0x34
)

// Update flags (linux/bpf.h).
const (
	BPF_ANY     = 0
	BPF_NOEXIST = 1
	BPF_EXIST   = 2
)

// TC verdicts (linux/pkt_cls.h).
const (
	TC_ACT_UNSPEC   = -1
	TC_ACT_OK       = 0
	TC_ACT_SHOT     = 2
	TC_ACT_PIPE     = 3
	TC_ACT_REDIRECT = 7
)

// Map types (linux/bpf.h) that kdrv implements.
const (
	MapTypeHash        = 1
	MapTypeArray       = 2
	MapTypePercpuArray = 6
	MapTypeLruHash     = 9
	MapTypeLpmTrie     = 11
	MapTypeArrayOfMaps = 12
	MapTypeHashOfMaps  = 13
	MapTypeSockmap     = 15
	MapTypeSockhash    = 18
	MapTypeRingbuf     = 27
)

// KdrvPath returns the kdrv binary the environment points at.
func KdrvPath() string {
	if p := os.Getenv("VERIF_KDRV"); p != "" {
		return p
	}
	if w := os.Getenv("VERIF_WORKDIR"); w != "" {
		return filepath.Join(w, "kdrv")
	}
	return "kdrv"
}

type MapInfo struct {
	Name       string
	ID         uint32
	Type       uint32
	KeySize    uint32
	ValueSize  uint32
	MaxEntries uint32
	Flags      uint32
	Count      uint32
	Inner      struct{ Type, KeySize, ValueSize, MaxEntries, Flags uint32 }
}

type Prog struct{ Name, Section string }

// K is one running kdrv process. Methods are serialised by an internal mutex; run several K for parallelism.
type K struct {
	mu        sync.Mutex
	cmd       *exec.Cmd
	in        io.WriteCloser
	out       *bufio.Reader
	stderr    bytes.Buffer
	dead      error
	Maps      map[string]MapInfo // static maps as declared in tproxy.c
	MapOrder  []string
	Progs     []Prog
	ParamName string
	ParamSize int
}

// Error is a protocol-level failure reported by kdrv (bad map name, size mismatch …).
type Error struct {
	Code int32
	Msg  string
}

func (e *Error) Error() string { return fmt.Sprintf("kdrv: %s (code %d)", e.Msg, e.Code) }

func Start() (*K, error) { return StartPath(KdrvPath()) }

func StartPath(path string) (*K, error) {
	cmd := exec.Command(path)
	k := &K{cmd: cmd, Maps: map[string]MapInfo{}}
	cmd.Stderr = &k.stderr
	// sanitizer reports must stop the process loudly
	cmd.Env = append(os.Environ(), "ASAN_OPTIONS=abort_on_error=0:detect_leaks=0:exitcode=66", "UBSAN_OPTIONS=print_stacktrace=1:halt_on_error=1:exitcode=66")
	in, err := cmd.StdinPipe()
	if err != nil {
		return nil, err
	}
	out, err := cmd.StdoutPipe()
	if err != nil {
		return nil, err
	}
	k.in, k.out = in, bufio.NewReaderSize(out, 1<<16)
	if err := cmd.Start(); err != nil {
		return nil, fmt.Errorf("vkern: cannot start %s: %w", path, err)
	}
	r, err := k.call(opHello, nil)
	if err != nil {
		k.Close()
		return nil, err
	}
	if v := r.u32(); v != 1 {
		k.Close()
		return nil, fmt.Errorf("vkern: protocol version %d, want 1", v)
	}
	n := r.u32()
	for i := uint32(0); i < n; i++ {
		mi := r.mapInfo()
		k.Maps[mi.Name] = mi
		k.MapOrder = append(k.MapOrder, mi.Name)
	}
	n = r.u32()
	for i := uint32(0); i < n; i++ {
		k.Progs = append(k.Progs, Prog{r.str(), r.str()})
	}
	k.ParamSize = int(r.u32())
	k.ParamName = r.str()
	if r.err != nil {
		k.Close()
		return nil, r.err
	}
	return k, nil
}

func (k *K) Close() error {
	k.mu.Lock()
	defer k.mu.Unlock()
	if k.cmd == nil {
		return nil
	}
	k.in.Close()
	err := k.cmd.Wait()
	k.cmd = nil
	return err
}

// Stderr returns what kdrv wrote to stderr so far (sanitizer reports, FATAL lines).
func (k *K) Stderr() string { return k.stderr.String() }

type wbuf struct{ b []byte }

func (w *wbuf) u8(v uint8)   { w.b = append(w.b, v) }
func (w *wbuf) u16(v uint16) { w.b = binary.LittleEndian.AppendUint16(w.b, v) }
func (w *wbuf) u32(v uint32) { w.b = binary.LittleEndian.AppendUint32(w.b, v) }
func (w *wbuf) u64(v uint64) { w.b = binary.LittleEndian.AppendUint64(w.b, v) }
func (w *wbuf) str(s string) { w.u16(uint16(len(s))); w.b = append(w.b, s...) }
func (w *wbuf) raw(p []byte) { w.b = append(w.b, p...) }
func (w *wbuf) blob(p []byte) {
	w.u32(uint32(len(p)))
	w.b = append(w.b, p...)
}

type rbuf struct {
	b   []byte
	err error
}

func (r *rbuf) take(n int) []byte {
	if r.err != nil || n < 0 || n > len(r.b) {
		if r.err == nil {
			r.err = errors.New("vkern: short response")
		}
		return make([]byte, max(n, 0))
	}
	p := r.b[:n]
	r.b = r.b[n:]
	return p
}
func (r *rbuf) u8() uint8     { return r.take(1)[0] }
func (r *rbuf) u16() uint16   { return binary.LittleEndian.Uint16(r.take(2)) }
func (r *rbuf) u32() uint32   { return binary.LittleEndian.Uint32(r.take(4)) }
func (r *rbuf) i32() int32    { return int32(r.u32()) }
func (r *rbuf) u64() uint64   { return binary.LittleEndian.Uint64(r.take(8)) }
func (r *rbuf) str() string   { return string(r.take(int(r.u16()))) }
func (r *rbuf) blob() []byte  { return append([]byte(nil), r.take(int(r.u32()))...) }
func (r *rbuf) bytes(n int) []byte { return append([]byte(nil), r.take(n)...) }
func (r *rbuf) mapInfo() MapInfo {
	var m MapInfo
	m.Name = r.str()
	m.ID = r.u32()
	m.Type = r.u32()
	m.KeySize = r.u32()
	m.ValueSize = r.u32()
	m.MaxEntries = r.u32()
	m.Flags = r.u32()
	m.Count = r.u32()
	m.Inner.Type = r.u32()
	m.Inner.KeySize = r.u32()
	m.Inner.ValueSize = r.u32()
	m.Inner.MaxEntries = r.u32()
	m.Inner.Flags = r.u32()
	return m
}

func (k *K) call(op uint8, body []byte) (*rbuf, error) {
	k.mu.Lock()
	defer k.mu.Unlock()
	if k.dead != nil {
		return nil, k.dead
	}
	hdr := make([]byte, 5, 5+len(body))
	binary.LittleEndian.PutUint32(hdr, uint32(1+len(body)))
	hdr[4] = op
	if _, err := k.in.Write(append(hdr, body...)); err != nil {
		return nil, k.died(err)
	}
	var lb [4]byte
	if _, err := io.ReadFull(k.out, lb[:]); err != nil {
		return nil, k.died(err)
	}
	n := binary.LittleEndian.Uint32(lb[:])
	buf := make([]byte, n)
	if _, err := io.ReadFull(k.out, buf); err != nil {
		return nil, k.died(err)
	}
	r := &rbuf{b: buf}
	if st := r.i32(); st != 0 {
		return nil, &Error{Code: st, Msg: r.str()}
	}
	return r, nil
}

// died: the kernel program crashed (guard page hit, sanitizer report, FATAL in the shim).
func (k *K) died(err error) error {
	werr := k.cmd.Wait()
	se := strings.TrimSpace(k.stderr.String())
	if len(se) > 4000 {
		se = se[:4000]
	}
	k.dead = fmt.Errorf("vkern: kdrv died (%v; wait: %v); stderr:\n%s", err, werr, se)
	return k.dead
}

// Reset returns kdrv to its boot state: empty maps, zero PARAM, time 1 s, no sockets, default knobs.
func (k *K) Reset() error { _, err := k.call(opReset, nil); return err }

func (k *K) kv(m string) (ks, vs int, err error) {
	if mi, ok := k.Maps[m]; ok {
		return int(mi.KeySize), int(mi.ValueSize), nil
	}
	mi, err := k.MapInfo(m)
	if err != nil {
		return 0, 0, err
	}
	return int(mi.KeySize), int(mi.ValueSize), nil
}

// MapInfo returns the live attributes of a map ("name" of a static map, or "#<id>" of an inner map).
func (k *K) MapInfo(m string) (MapInfo, error) {
	var w wbuf
	w.str(m)
	r, err := k.call(opMapInfo, w.b)
	if err != nil {
		return MapInfo{}, err
	}
	mi := r.mapInfo()
	return mi, r.err
}

// MapUpdate writes len(keys) entries with raw key/value bytes; rc[i] is the bpf_map_update_elem result
// (0 or -errno). For a map-in-map the value is the 4-byte little-endian id returned by MapCreateInner.
func (k *K) MapUpdate(m string, flags uint64, keys, values [][]byte) ([]int32, error) {
	ks, vs, err := k.kv(m)
	if err != nil {
		return nil, err
	}
	if len(keys) != len(values) {
		return nil, errors.New("vkern: keys/values length mismatch")
	}
	var w wbuf
	w.str(m)
	w.u64(flags)
	w.u32(uint32(len(keys)))
	for i := range keys {
		if len(keys[i]) != ks || len(values[i]) != vs {
			return nil, fmt.Errorf("vkern: map %s wants key %d / value %d bytes, got %d / %d", m, ks, vs, len(keys[i]), len(values[i]))
		}
		w.raw(keys[i])
		w.raw(values[i])
	}
	r, err := k.call(opMapUpdate, w.b)
	if err != nil {
		return nil, err
	}
	rc := make([]int32, len(keys))
	for i := range rc {
		rc[i] = r.i32()
	}
	return rc, r.err
}

// MapUpdate1 is MapUpdate for one entry; a non-zero helper result is returned as an error.
func (k *K) MapUpdate1(m string, key, value []byte, flags uint64) error {
	rc, err := k.MapUpdate(m, flags, [][]byte{key}, [][]byte{value})
	if err != nil {
		return err
	}
	if rc[0] != 0 {
		return fmt.Errorf("vkern: update %s: rc=%d", m, rc[0])
	}
	return nil
}

// MapLookup looks keys up the way the bpf(2) syscall would (LPM: longest-prefix match). vals[i]==nil = miss.
func (k *K) MapLookup(m string, keys [][]byte) (vals [][]byte, err error) {
	ks, vs, err := k.kv(m)
	if err != nil {
		return nil, err
	}
	var w wbuf
	w.str(m)
	w.u32(uint32(len(keys)))
	for _, key := range keys {
		if len(key) != ks {
			return nil, fmt.Errorf("vkern: map %s wants key %d bytes, got %d", m, ks, len(key))
		}
		w.raw(key)
	}
	r, err := k.call(opMapLookup, w.b)
	if err != nil {
		return nil, err
	}
	vals = make([][]byte, len(keys))
	for i := range keys {
		rc := r.i32()
		v := r.bytes(vs)
		if rc == 0 {
			vals[i] = v
		}
	}
	return vals, r.err
}

func (k *K) MapDelete(m string, keys [][]byte) ([]int32, error) {
	ks, _, err := k.kv(m)
	if err != nil {
		return nil, err
	}
	var w wbuf
	w.str(m)
	w.u32(uint32(len(keys)))
	for _, key := range keys {
		if len(key) != ks {
			return nil, fmt.Errorf("vkern: map %s wants key %d bytes, got %d", m, ks, len(key))
		}
		w.raw(key)
	}
	r, err := k.call(opMapDelete, w.b)
	if err != nil {
		return nil, err
	}
	rc := make([]int32, len(keys))
	for i := range rc {
		rc[i] = r.i32()
	}
	return rc, r.err
}

type Entry struct{ Key, Value []byte }

// MapDump returns all entries in a deterministic order (arrays: by index, key = LE index; hash/LPM: by key
// bytes). nonzeroOnly skips all-zero array slots.
func (k *K) MapDump(m string, nonzeroOnly bool) ([]Entry, error) {
	ks, vs, err := k.kv(m)
	if err != nil {
		return nil, err
	}
	var w wbuf
	w.str(m)
	if nonzeroOnly {
		w.u8(1)
	} else {
		w.u8(0)
	}
	r, err := k.call(opMapDump, w.b)
	if err != nil {
		return nil, err
	}
	n := int(r.u32())
	out := make([]Entry, 0, n)
	for i := 0; i < n; i++ {
		out = append(out, Entry{r.bytes(ks), r.bytes(vs)})
	}
	return out, r.err
}

func (k *K) MapClear(m string) error {
	var w wbuf
	w.str(m)
	_, err := k.call(opMapClear, w.b)
	return err
}

// MapCreateInner creates a fresh inner map from the template of the map-in-map `outer` (e.g. "lpm_array_map")
// and returns its id; address it as InnerName(id) in every Map* call and store it with MapSetInner.
func (k *K) MapCreateInner(outer string) (uint32, error) {
	var w wbuf
	w.str(outer)
	r, err := k.call(opMapCreateInner, w.b)
	if err != nil {
		return 0, err
	}
	id := r.u32()
	return id, r.err
}

func InnerName(id uint32) string { return fmt.Sprintf("#%d", id) }

// MapSetInner stores inner map `id` at key `index` of a map-in-map (what LpmArrayMap.Update(idx, m) does).
func (k *K) MapSetInner(outer string, index uint32, id uint32) error {
	return k.MapUpdate1(outer, binary.LittleEndian.AppendUint32(nil, index), binary.LittleEndian.AppendUint32(nil, id), BPF_ANY)
}

// MapSetMaxEntries changes the capacity of a hash/LPM map (what the loader's spec customisation does).
func (k *K) MapSetMaxEntries(m string, n uint32) error {
	var w wbuf
	w.str(m)
	w.u32(n)
	_, err := k.call(opMapSetMax, w.b)
	return err
}

// MapFault makes every insertion of a NEW key into m fail with -errno (0 switches the fault off).
func (k *K) MapFault(m string, errno int32) error {
	var w wbuf
	w.str(m)
	w.u32(uint32(errno))
	_, err := k.call(opMapFault, w.b)
	return err
}

// SetParam writes the load-time constant block (PARAM). len(b) must equal the C sizeof.
func (k *K) SetParam(b []byte) error {
	var w wbuf
	w.blob(b)
	_, err := k.call(opParamSet, w.b)
	return err
}

func (k *K) GetParam() ([]byte, error) {
	r, err := k.call(opParamGet, nil)
	if err != nil {
		return nil, err
	}
	b := r.blob()
	return b, r.err
}

// SetTime sets bpf_ktime_get_ns(); step is added after every call of the helper (0 = frozen clock).
func (k *K) SetTime(nowNs, stepNs uint64) error {
	var w wbuf
	w.u64(nowNs)
	w.u64(stepNs)
	_, err := k.call(opSetTime, w.b)
	return err
}

func (k *K) Time() (uint64, error) {
	r, err := k.call(opGetTime, nil)
	if err != nil {
		return 0, err
	}
	t := r.u64()
	return t, r.err
}

// SetTask sets what bpf_get_current_pid_tgid / _comm / the task's command line return (cgroup hooks).
// probeReadRet<0 makes bpf_probe_read_user_str fail with that value.
func (k *K) SetTask(pidTgid uint64, comm [16]byte, args string, probeReadRet int32) error {
	var w wbuf
	w.u64(pidTgid)
	w.raw(comm[:])
	w.str(args)
	w.u32(uint32(probeReadRet))
	_, err := k.call(opSetTask, w.b)
	return err
}

// Sock is one entry of the socket table consulted by bpf_sk_lookup_udp / bpf_skc_lookup_tcp and by SOCKMAP
// lookups (store uint64(ID) as the sockmap value).
type Sock struct {
	ID     uint32 // >= 1
	Family uint8  // 2 = AF_INET, 10 = AF_INET6
	Proto  uint8  // 6 / 17
	State  uint8  // BPF_TCP_* (10 = LISTEN, 1 = ESTABLISHED); UDP: 7 (CLOSE) unconnected
	Flags  uint8  // SockLocalWildcard | SockUnconnected | SockDualStack
	Local  [16]byte // IPv4 in the first 4 bytes
	Remote [16]byte
	LPort  uint16
	RPort  uint16
	Mark   uint32
	Netns  uint32
	Cookie uint64
}

const (
	SockLocalWildcard = 1
	SockUnconnected   = 2
	SockDualStack     = 4
	TCPEstablished    = 1
	TCPListen         = 10
)

func (k *K) SetSocks(s []Sock) error {
	var w wbuf
	w.u32(uint32(len(s)))
	for _, x := range s {
		w.u32(x.ID)
		w.u8(x.Family)
		w.u8(x.Proto)
		w.u8(x.State)
		w.u8(x.Flags)
		w.raw(x.Local[:])
		w.raw(x.Remote[:])
		w.u16(x.LPort)
		w.u16(x.RPort)
		w.u32(x.Mark)
		w.u32(x.Netns)
		w.u64(x.Cookie)
	}
	_, err := k.call(opSetSocks, w.b)
	return err
}

// Pull modes of bpf_skb_pull_data.
const (
	PullKernel     = 0 // kernel semantics: -ENOMEM when len > skb->len (so frames < 128 bytes take the byte-load path)
	PullAlwaysFail = 1 // always -ENOMEM: forces parse_transport_slow
	PullLenient    = 2 // pulls min(len, skb->len) and succeeds: forces the direct-access path on short frames
)

type Knobs struct {
	PullMode    uint32
	SkAssignRet int32  // non-zero: bpf_sk_assign fails with it
	RingbufRet  int32  // non-zero: bpf_ringbuf_output fails with it
	CurNetns    uint32 // netns id meant by BPF_F_CURRENT_NETNS
}

func (k *K) SetKnobs(kn Knobs) error {
	var w wbuf
	w.u32(kn.PullMode)
	w.u32(uint32(kn.SkAssignRet))
	w.u32(uint32(kn.RingbufRet))
	w.u32(kn.CurNetns)
	_, err := k.call(opSetKnobs, w.b)
	return err
}

// RouteArg is one call of the C route(flag, l4hdr, saddr, daddr, mac). Flag[0]=L4ProtoType, [1]=IpVersionType,
// [2..5]=pname (16 bytes), [6]=dscp, [7]=is_wan. L4Hdr is a struct tcphdr image (a udphdr uses its first 8
// bytes); ports in network order at offsets 0 (source) and 2 (dest). Saddr/Daddr/Mac are 16 bytes in network
// order (__be32[4]); the MAC occupies bytes 10..15.
type RouteArg struct {
	Flag  [8]uint32
	L4Hdr [20]byte
	Saddr [16]byte
	Daddr [16]byte
	Mac   [16]byte
}

// Route runs the batch through the real route() and returns the raw s64 results
// (>=0: outbound | mark<<8 | must<<40; <0: -errno).
func (k *K) Route(args []RouteArg) ([]int64, error) {
	var w wbuf
	w.u32(uint32(len(args)))
	for i := range args {
		a := &args[i]
		for _, f := range a.Flag {
			w.u32(f)
		}
		w.raw(a.L4Hdr[:])
		w.raw(a.Saddr[:])
		w.raw(a.Daddr[:])
		w.raw(a.Mac[:])
	}
	r, err := k.call(opRoute, w.b)
	if err != nil {
		return nil, err
	}
	out := make([]int64, len(args))
	for i := range out {
		out[i] = int64(r.u64())
	}
	return out, r.err
}

// Skb are the __sk_buff fields of an injected frame.
type Skb struct {
	Ifindex        uint32
	IngressIfindex uint32 // 0 = locally generated (NOWHERE_IFINDEX)
	Mark           uint32
	Protocol       uint16 // ethertype in HOST order (0x0800 / 0x86dd); stored as skb->protocol = htons(Protocol)
	PktType        uint32
	Cb             [5]uint32
	Cookie         uint64 // bpf_get_socket_cookie(skb); 0 = no socket
	Linear         uint32 // bytes initially in the linear area (clamped to the frame length); ^uint32(0) = all
	Frame          []byte // starts at the MAC header for *_l2 hooks, at the IP header for *_l3 hooks
}

func (s *Skb) put(w *wbuf) {
	w.u32(s.Ifindex)
	w.u32(s.IngressIfindex)
	w.u32(s.Mark)
	w.u32(uint32(s.Protocol))
	w.u32(s.PktType)
	for _, c := range s.Cb {
		w.u32(c)
	}
	w.u64(s.Cookie)
	w.u32(s.Linear)
	w.blob(s.Frame)
}

type Verdict struct {
	Ret             int32 // TC_ACT_* (cgroup programs: their return value)
	Mark            uint32
	PktType         uint32
	Cb              [5]uint32
	RedirectKind    uint8 // 0 none, 1 bpf_redirect, 2 bpf_redirect_peer
	RedirectIfindex uint32
	RedirectFlags   uint64
	AssignedSock    int32 // Sock.ID given to bpf_sk_assign, -1 = none
	SkRefBalance    int32 // acquired minus released socket references (must be 0)
	Pulls           uint32
	PullFails       uint32
	LoadBytesCalls  uint32 // > 0 means the byte-load (slow) path ran
	Linear          uint32
	Frame           []byte // the frame after the program ran
}

// Inject runs the named program (e.g. "tproxy_lan_ingress_l2", "tproxy_wan_cg_connect4") on the frame.
func (k *K) Inject(hook string, skb *Skb) (*Verdict, error) {
	var w wbuf
	w.str(hook)
	skb.put(&w)
	r, err := k.call(opInject, w.b)
	if err != nil {
		return nil, err
	}
	v := &Verdict{}
	v.Ret = r.i32()
	v.Mark = r.u32()
	v.PktType = r.u32()
	for i := range v.Cb {
		v.Cb[i] = r.u32()
	}
	v.RedirectKind = r.u8()
	v.RedirectIfindex = r.u32()
	v.RedirectFlags = r.u64()
	v.AssignedSock = r.i32()
	v.SkRefBalance = r.i32()
	v.Pulls = r.u32()
	v.PullFails = r.u32()
	v.LoadBytesCalls = r.u32()
	v.Linear = r.u32()
	v.Frame = r.blob()
	return v, r.err
}

type Parsed struct {
	Ret            int32  // parse_packet() result: 0 ok, 1 pass, 2 PARSE_FRAGMENT, <0 error
	PullFails      uint32
	LoadBytesCalls uint32
	Packet         []byte // struct parsed_packet image
	TuplesOff      int    // offsetof(struct parsed_packet, tuples)
	TuplesKeySize  int    // sizeof(struct tuples_key)
}

// TuplesKey returns the struct tuples_key bytes get_tuples() produced for the frame.
func (p *Parsed) TuplesKey() []byte { return p.Packet[p.TuplesOff : p.TuplesOff+p.TuplesKeySize] }

// Parse runs the C parse_packet(skb, linkHLen, &out) (fast path, byte-load fallback, get_tuples).
func (k *K) Parse(linkHLen uint32, skb *Skb) (*Parsed, error) {
	var w wbuf
	w.u32(linkHLen)
	skb.put(&w)
	r, err := k.call(opParse, w.b)
	if err != nil {
		return nil, err
	}
	p := &Parsed{}
	p.Ret = r.i32()
	p.PullFails = r.u32()
	p.LoadBytesCalls = r.u32()
	p.Packet = r.blob()
	p.TuplesOff = int(r.u32())
	p.TuplesKeySize = int(r.u32())
	return p, r.err
}

// OutboundAlive calls the C wan_outbound_is_alive(skb{protocol}, outbound, l4proto, htons(dport)).
func (k *K) OutboundAlive(ethertype uint16, outbound uint8, l4proto uint8, dport uint16) (bool, error) {
	var w wbuf
	w.u32(uint32(ethertype))
	w.u8(outbound)
	w.u8(l4proto)
	w.u16(dport)
	r, err := k.call(opAlive, w.b)
	if err != nil {
		return false, err
	}
	a := r.u8()
	return a != 0, r.err
}

// Snapshot saves all maps (incl. inner maps), PARAM, clock, sockets, task and knobs; Restore brings them back.
func (k *K) Snapshot() (uint32, error) {
	r, err := k.call(opSnapshot, nil)
	if err != nil {
		return 0, err
	}
	id := r.u32()
	return id, r.err
}

func (k *K) Restore(id uint32) error {
	var w wbuf
	w.u32(id)
	_, err := k.call(opRestore, w.b)
	return err
}

func (k *K) SnapFree(id uint32) error {
	var w wbuf
	w.u32(id)
	_, err := k.call(opSnapFree, w.b)
	return err
}

type Event struct {
	Map  string
	Data []byte
}

// Events returns and clears the records the program wrote with bpf_ringbuf_output.
func (k *K) Events() (ev []Event, dropped uint32, err error) {
	r, err := k.call(opEvents, nil)
	if err != nil {
		return nil, 0, err
	}
	n := r.u32()
	dropped = r.u32()
	for i := uint32(0); i < n; i++ {
		ev = append(ev, Event{r.str(), r.blob()})
	}
	return ev, dropped, r.err
}

type TraceRec struct {
	Map string
	Op  uint8 // 1 lookup, 2 update, 3 delete
	Rc  int32 // lookup: 1 hit / 0 miss; update/delete: helper result
	Key []byte
}

func (k *K) trace(mode uint8) ([]TraceRec, error) {
	r, err := k.call(opTrace, []byte{mode})
	if err != nil {
		return nil, err
	}
	n := r.u32()
	if dropped := r.u32(); dropped > 0 {
		return nil, fmt.Errorf("vkern: map-operation trace overflowed (%d records dropped): fetch more often", dropped)
	}
	var out []TraceRec
	for i := uint32(0); i < n; i++ {
		out = append(out, TraceRec{r.str(), r.u8(), r.i32(), r.blob()})
	}
	return out, r.err
}

// TraceStart begins recording the map operations the program performs (map, op, key bytes; at most 8192 between fetches, overflow is an error).
func (k *K) TraceStart() error { _, err := k.trace(1); return err }

// TraceFetch returns the records since the last fetch and keeps recording.
func (k *K) TraceFetch() ([]TraceRec, error) { return k.trace(2) }

// TraceStop stops recording and returns what is left.
func (k *K) TraceStop() ([]TraceRec, error) { return k.trace(0) }

// ---------------------------------------------------------------------------------------------------
// layout (kdrv --layout): the C compiler's view

type LField struct {
	Name     string    `json:"name"`
	Path     string    `json:"path"`
	Type     string    `json:"type"`
	Offset   int       `json:"offset"`
	Size     int       `json:"size"`
	ElemSize int       `json:"elem_size"`
	Ref      string    `json:"ref"`
	Enum     string    `json:"enum"`
	Kind     string    `json:"kind"`
	Anon     bool      `json:"anon"`
	Bitfield bool      `json:"bitfield"`
	Fields   []*LField `json:"fields"`
}

type LRecord struct {
	Name   string    `json:"name"` // "struct x" / "union y"
	Kind   string    `json:"kind"`
	Size   int       `json:"size"`
	Align  int       `json:"align"`
	Roles  []string  `json:"roles"` // map_key:<map>, map_value:<map>, param:<var>, nested_in:<record>, defined_in:<file>
	Fields []*LField `json:"fields"`
}

type LMap struct {
	Name       string `json:"name"`
	Type       uint32 `json:"type"`
	TypeName   string `json:"type_name"`
	KeySize    int    `json:"key_size"`
	ValueSize  int    `json:"value_size"`
	MaxEntries int    `json:"max_entries"`
	MapFlags   uint32 `json:"map_flags"`
	Pinning    uint32 `json:"pinning"`
	KeyType    string `json:"key_type"`
	ValueType  string `json:"value_type"`
	Inner      struct {
		Type       uint32 `json:"type"`
		KeySize    int    `json:"key_size"`
		ValueSize  int    `json:"value_size"`
		MaxEntries int    `json:"max_entries"`
		MapFlags   uint32 `json:"map_flags"`
	} `json:"inner"`
}

type LEnum struct {
	Name      string           `json:"name"`
	Size      int              `json:"size"`
	DefinedIn string           `json:"defined_in"`
	Values    map[string]int64 `json:"values"`
}

type LDefine struct {
	Value int64  `json:"value"`
	File  string `json:"file"`
}

type Layout struct {
	ABI struct {
		Pointer      int `json:"pointer"`
		Long         int `json:"long"`
		Int          int `json:"int"`
		LittleEndian int `json:"little_endian"`
	} `json:"abi"`
	Maps     []*LMap `json:"maps"`
	Programs []struct {
		Name    string `json:"name"`
		Section string `json:"section"`
	} `json:"programs"`
	Params []struct {
		Name   string `json:"name"`
		Record string `json:"record"`
		Size   int    `json:"size"`
	} `json:"params"`
	Records           []*LRecord         `json:"records"`
	Enums             []*LEnum           `json:"enums"`
	Defines           map[string]LDefine `json:"defines"`
	NonIntegerDefines []string           `json:"non_integer_defines"`
}

func (l *Layout) Record(name string) *LRecord {
	for _, r := range l.Records {
		if r.Name == name {
			return r
		}
	}
	return nil
}

func (l *Layout) Map(name string) *LMap {
	for _, m := range l.Maps {
		if m.Name == name {
			return m
		}
	}
	return nil
}

func (l *Layout) Enum(name string) *LEnum {
	for _, e := range l.Enums {
		if e.Name == name {
			return e
		}
	}
	return nil
}

// ReadLayout runs `kdrv --layout` and decodes it.
func ReadLayout(path string) (*Layout, error) {
	out, err := exec.Command(path, "--layout").Output()
	if err != nil {
		return nil, fmt.Errorf("vkern: %s --layout: %w", path, err)
	}
	var l Layout
	if err := json.Unmarshal(out, &l); err != nil {
		return nil, fmt.Errorf("vkern: layout json: %w", err)
	}
	return &l, nil
}
