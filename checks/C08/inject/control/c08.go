//go:build verif

package control

// C08-specific in-package helpers live in the shared dnsctl_api harness; nothing extra is needed yet.
