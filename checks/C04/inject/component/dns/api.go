//go:build verif

package dns

import "context"

// VerifUpstream returns the i-th configured upstream object through the production lazy initialiser
// (UpstreamResolver.GetUpstream -> FinishInitCallback -> upstream2Index), so that the harness can present
// "the answering upstream" to ResponseSelect without depending on what the request rules select.
func (s *Dns) VerifUpstream(i int) (*Upstream, error) {
	return s.upstream[i].GetUpstream(context.Background())
}
