// kdrv — engine K: the dae kernel program (control/kern/tproxy.c) compiled NATIVELY and executed under a
// bpf helper / map shim. kdrv.c #includes tproxy.c, so static functions such as route() are callable.
// It is a separate process speaking a length-prefixed binary protocol on stdin/stdout (see README.md);
// `kdrv --layout` prints the C compiler's view of every shared structure / enum / constant / map as JSON.
//
// Not modelled: the in-kernel verifier, the JIT, per-CPU concurrency (one CPU), real conntrack / socket
// effects of sk_assign / redirect (they are recorded, not performed).
#define _GNU_SOURCE
#include <stdio.h>
#include <stdlib.h>
#include <string.h>
#include <stdint.h>
#include <unistd.h>
#include <errno.h>
#include <sys/mman.h>

#ifndef KSHIM_TPROXY_C
#error "KSHIM_TPROXY_C must be the path of tproxy.c"
#endif
#include KSHIM_TPROXY_C

/* ------------------------------------------------------------------------------------------------ */
/* generated registry                                                                                */

struct kshim_mapdef {
	const char *name;
	void *var;
	unsigned type, key_size, value_size, max_entries, map_flags, pinning;
	unsigned inner_type, inner_key_size, inner_value_size, inner_max_entries, inner_map_flags;
	const char *key_type, *value_type;
};
struct kshim_progdef {
	const char *name, *section;
	void *fn;
};
struct kshim_paramdef {
	const char *name;
	void *var;
	size_t size;
	const char *record;
};

static const char *kshim_map_type_name(unsigned t)
{
	switch (t) {
	case BPF_MAP_TYPE_HASH: return "HASH";
	case BPF_MAP_TYPE_ARRAY: return "ARRAY";
	case BPF_MAP_TYPE_PERCPU_HASH: return "PERCPU_HASH";
	case BPF_MAP_TYPE_PERCPU_ARRAY: return "PERCPU_ARRAY";
	case BPF_MAP_TYPE_LRU_HASH: return "LRU_HASH";
	case BPF_MAP_TYPE_LRU_PERCPU_HASH: return "LRU_PERCPU_HASH";
	case BPF_MAP_TYPE_LPM_TRIE: return "LPM_TRIE";
	case BPF_MAP_TYPE_ARRAY_OF_MAPS: return "ARRAY_OF_MAPS";
	case BPF_MAP_TYPE_HASH_OF_MAPS: return "HASH_OF_MAPS";
	case BPF_MAP_TYPE_SOCKMAP: return "SOCKMAP";
	case BPF_MAP_TYPE_SOCKHASH: return "SOCKHASH";
	case BPF_MAP_TYPE_RINGBUF: return "RINGBUF";
	case BPF_MAP_TYPE_PERF_EVENT_ARRAY: return "PERF_EVENT_ARRAY";
	default: return "UNSUPPORTED";
	}
}

#include "kdrv_gen.h"

#define NMAPDEFS (sizeof(kshim_mapdefs) / sizeof(kshim_mapdefs[0]))
#define NPROGS (sizeof(kshim_progs) / sizeof(kshim_progs[0]))
#define NPARAMS (sizeof(kshim_params) / sizeof(kshim_params[0]))

static void fatal(const char *fmt, ...) __attribute__((noreturn, format(printf, 1, 2)));
#include <stdarg.h>
static void fatal(const char *fmt, ...)
{
	va_list ap;
	va_start(ap, fmt);
	fprintf(stderr, "kdrv: FATAL: ");
	vfprintf(stderr, fmt, ap);
	fprintf(stderr, "\n");
	va_end(ap);
	_exit(3);
}

/* ------------------------------------------------------------------------------------------------ */
/* arena: every byte of map storage lives here, so snapshot/restore is a memcpy                       */

#define ARENA_CAP (1ULL << 31)
static uint8_t *arena;
static uint32_t arena_used; /* offset 0 is never handed out (0 == nil) */

static uint32_t aalloc(uint32_t n)
{
	n = (n + 7u) & ~7u;
	if ((uint64_t)arena_used + n > ARENA_CAP)
		fatal("arena exhausted");
	uint32_t off = arena_used;
	arena_used += n;
	memset(arena + off, 0, n);
	return off;
}
#define AP(off) ((void *)(arena + (off)))

/* ------------------------------------------------------------------------------------------------ */
/* maps                                                                                               */

#define KSHIM_MAX_MAPS 8192
#define ALIGN8(x) (((x) + 7u) & ~7u)

struct hent {
	uint32_t next; /* arena offset of next entry in bucket / free list */
	uint32_t hash;
	uint64_t lru;
	uint8_t data[]; /* key | pad8 | value | (lpm: original key) */
};

struct kmap {
	uint8_t used, is_static, kind; /* kind: 1 array-like, 2 hash-like, 3 lpm, 4 sink */
	char name[40];
	void *var;
	uint32_t type, key_size, value_size, max_entries, flags;
	uint32_t count;
	uint32_t arr; /* arena offset: max_entries * ALIGN8(value_size) */
	uint32_t nbuckets, buckets, free_head, entry_size;
	uint32_t plen_count; /* lpm: arena offset of u32[maxplen+1] */
	uint64_t lru_clock;
	uint32_t inner_type, inner_key_size, inner_value_size, inner_max_entries, inner_flags;
	int32_t fail_new_errno;
};

static struct kmap kmaps[KSHIM_MAX_MAPS];
static uint32_t nkmaps;

static int map_kind(uint32_t type)
{
	switch (type) {
	case BPF_MAP_TYPE_ARRAY:
	case BPF_MAP_TYPE_PERCPU_ARRAY:
	case BPF_MAP_TYPE_ARRAY_OF_MAPS:
	case BPF_MAP_TYPE_SOCKMAP:
		return 1;
	case BPF_MAP_TYPE_HASH:
	case BPF_MAP_TYPE_PERCPU_HASH:
	case BPF_MAP_TYPE_LRU_HASH:
	case BPF_MAP_TYPE_LRU_PERCPU_HASH:
	case BPF_MAP_TYPE_HASH_OF_MAPS:
	case BPF_MAP_TYPE_SOCKHASH:
		return 2;
	case BPF_MAP_TYPE_LPM_TRIE:
		return 3;
	case BPF_MAP_TYPE_RINGBUF:
	case BPF_MAP_TYPE_PERF_EVENT_ARRAY:
		return 4;
	}
	return 0;
}

static int is_lru(uint32_t t) { return t == BPF_MAP_TYPE_LRU_HASH || t == BPF_MAP_TYPE_LRU_PERCPU_HASH; }
static int is_mapinmap(uint32_t t) { return t == BPF_MAP_TYPE_ARRAY_OF_MAPS || t == BPF_MAP_TYPE_HASH_OF_MAPS; }
static int is_sockmap(uint32_t t) { return t == BPF_MAP_TYPE_SOCKMAP || t == BPF_MAP_TYPE_SOCKHASH; }

static void map_init_storage(struct kmap *m)
{
	m->count = 0;
	m->free_head = 0;
	m->lru_clock = 0;
	switch (m->kind) {
	case 1:
		m->arr = aalloc(m->max_entries * ALIGN8(m->value_size));
		break;
	case 2:
	case 3:
		m->nbuckets = 64;
		m->buckets = aalloc(m->nbuckets * 4);
		m->entry_size = sizeof(struct hent) + ALIGN8(m->key_size) + ALIGN8(m->value_size) + (m->kind == 3 ? ALIGN8(m->key_size) : 0);
		if (m->kind == 3)
			m->plen_count = aalloc(((m->key_size - 4) * 8 + 1) * 4);
		break;
	}
}

static struct kmap *map_new(const char *name, uint32_t type, uint32_t ks, uint32_t vs, uint32_t max, uint32_t flags)
{
	if (nkmaps >= KSHIM_MAX_MAPS)
		fatal("too many maps");
	struct kmap *m = &kmaps[nkmaps++];
	memset(m, 0, sizeof(*m));
	m->used = 1;
	snprintf(m->name, sizeof(m->name), "%s", name);
	m->type = type;
	m->kind = map_kind(type);
	if (!m->kind)
		fatal("map %s: unsupported map type %u — extend kdrv.c", name, type);
	m->key_size = ks;
	m->value_size = vs;
	m->max_entries = max;
	m->flags = flags;
	if (m->kind == 3 && (ks <= 4 || ks > 4 + 256))
		fatal("map %s: bad LPM key size %u", name, ks);
	map_init_storage(m);
	return m;
}

static struct kmap *map_by_ptr(const void *p)
{
	if ((const uint8_t *)p >= (const uint8_t *)kmaps && (const uint8_t *)p < (const uint8_t *)(kmaps + KSHIM_MAX_MAPS)) {
		struct kmap *m = (struct kmap *)p;
		return m->used ? m : NULL;
	}
	/* static maps never move: direct-mapped cache keyed by the address of the map variable */
	static struct { const void *p; struct kmap *m; } cache[64];
	unsigned h = (unsigned)(((uintptr_t)p >> 3) ^ ((uintptr_t)p >> 9)) & 63;
	if (cache[h].p == p)
		return cache[h].m;
	for (uint32_t i = 0; i < NMAPDEFS; i++)
		if (kmaps[i].var == p) {
			cache[h].p = p;
			cache[h].m = &kmaps[i];
			return &kmaps[i];
		}
	return NULL;
}

static struct kmap *map_by_name(const char *name)
{
	if (name[0] == '#') {
		uint32_t id = (uint32_t)strtoul(name + 1, NULL, 10);
		if (id < nkmaps && kmaps[id].used)
			return &kmaps[id];
		return NULL;
	}
	for (uint32_t i = 0; i < NMAPDEFS; i++)
		if (!strcmp(kmaps[i].name, name))
			return &kmaps[i];
	return NULL;
}

static uint32_t fnv(const uint8_t *p, uint32_t n)
{
	uint32_t h = 2166136261u;
	for (uint32_t i = 0; i < n; i++)
		h = (h ^ p[i]) * 16777619u;
	return h;
}

static inline uint8_t *he_key(struct kmap *m, struct hent *e) { (void)m; return e->data; }
static inline uint8_t *he_val(struct kmap *m, struct hent *e) { return e->data + ALIGN8(m->key_size); }
static inline uint8_t *he_orig(struct kmap *m, struct hent *e) { return e->data + ALIGN8(m->key_size) + ALIGN8(m->value_size); }

static struct hent *hash_find(struct kmap *m, const uint8_t *key, uint32_t h)
{
	uint32_t *b = AP(m->buckets);
	for (uint32_t off = b[h & (m->nbuckets - 1)]; off; off = ((struct hent *)AP(off))->next) {
		struct hent *e = AP(off);
		if (e->hash == h && !memcmp(he_key(m, e), key, m->key_size))
			return e;
	}
	return NULL;
}

static void hash_grow(struct kmap *m)
{
	uint32_t nb = m->nbuckets * 4;
	uint32_t nboff = aalloc(nb * 4);
	uint32_t *ob = AP(m->buckets), *b = AP(nboff);
	for (uint32_t i = 0; i < m->nbuckets; i++) {
		uint32_t off = ob[i];
		while (off) {
			struct hent *e = AP(off);
			uint32_t nx = e->next;
			e->next = b[e->hash & (nb - 1)];
			b[e->hash & (nb - 1)] = off;
			off = nx;
		}
	}
	m->nbuckets = nb;
	m->buckets = nboff;
}

static struct hent *hash_insert(struct kmap *m, const uint8_t *key, uint32_t h)
{
	uint32_t off;
	if (m->free_head) {
		off = m->free_head;
		m->free_head = ((struct hent *)AP(off))->next;
		memset(AP(off), 0, m->entry_size);
	} else {
		off = aalloc(m->entry_size);
	}
	if (m->count + 1 > m->nbuckets * 4)
		hash_grow(m);
	struct hent *e = AP(off);
	uint32_t *b = AP(m->buckets);
	e->hash = h;
	memcpy(he_key(m, e), key, m->key_size);
	e->next = b[h & (m->nbuckets - 1)];
	b[h & (m->nbuckets - 1)] = off;
	m->count++;
	return e;
}

static int hash_remove(struct kmap *m, const uint8_t *key, uint32_t h)
{
	uint32_t *b = AP(m->buckets);
	uint32_t *pp = &b[h & (m->nbuckets - 1)];
	while (*pp) {
		struct hent *e = AP(*pp);
		if (e->hash == h && !memcmp(he_key(m, e), key, m->key_size)) {
			uint32_t off = *pp;
			*pp = e->next;
			e->next = m->free_head;
			m->free_head = off;
			m->count--;
			return 0;
		}
		pp = &e->next;
	}
	return -ENOENT;
}

static void lru_evict(struct kmap *m)
{
	uint32_t *b = AP(m->buckets);
	struct hent *victim = NULL;
	for (uint32_t i = 0; i < m->nbuckets; i++)
		for (uint32_t off = b[i]; off; off = ((struct hent *)AP(off))->next) {
			struct hent *e = AP(off);
			if (!victim || e->lru < victim->lru)
				victim = e;
		}
	if (victim) {
		uint8_t k[512];
		memcpy(k, he_key(m, victim), m->key_size);
		hash_remove(m, k, victim->hash);
	}
}

/* LPM: canonical key = prefixlen | data masked to prefixlen bits (big-endian bit order, as the kernel compares) */
static void lpm_canon(struct kmap *m, const uint8_t *key, uint32_t plen, uint8_t *out)
{
	uint32_t dbytes = m->key_size - 4;
	memcpy(out, &plen, 4);
	memset(out + 4, 0, dbytes);
	uint32_t full = plen / 8, rem = plen % 8;
	memcpy(out + 4, key + 4, full);
	if (rem)
		out[4 + full] = key[4 + full] & (uint8_t)(0xff << (8 - rem));
}

static void *lpm_lookup(struct kmap *m, const uint8_t *key)
{
	uint32_t maxp = (m->key_size - 4) * 8, plen;
	memcpy(&plen, key, 4);
	if (plen > maxp)
		return NULL; /* kernel: -EINVAL */
	uint32_t *pc = AP(m->plen_count);
	uint8_t ck[4 + 256];
	for (int32_t p = (int32_t)plen; p >= 0; p--) {
		if (!pc[p])
			continue;
		lpm_canon(m, key, (uint32_t)p, ck);
		struct hent *e = hash_find(m, ck, fnv(ck, m->key_size));
		if (e)
			return he_val(m, e);
	}
	return NULL;
}

/* trace of map operations done by the program (for key-agreement checks) */
#define TRACE_MAX 8192
struct trace_rec {
	uint16_t map;
	uint8_t op; /* 1 lookup 2 update 3 delete */
	int32_t rc; /* lookup: 1 hit / 0 miss; update/delete: return code */
	uint16_t klen;
	uint8_t key[64];
};
static struct trace_rec trace_buf[TRACE_MAX];
static uint32_t trace_n, trace_dropped;
static int trace_on;

static void trace_add(struct kmap *m, int op, int rc, const void *key)
{
	if (!trace_on)
		return;
	if (trace_n >= TRACE_MAX) {
		trace_dropped++;
		return;
	}
	struct trace_rec *t = &trace_buf[trace_n++];
	t->map = (uint16_t)(m - kmaps);
	t->op = (uint8_t)op;
	t->rc = rc;
	t->klen = m->key_size > 64 ? 64 : (uint16_t)m->key_size;
	memcpy(t->key, key, t->klen);
}

/* sockets (needed by SOCKMAP lookups, declared early) */
struct ksock;
static struct bpf_sock *sock_img_by_id(uint32_t id);

static void *kmap_lookup(struct kmap *m, const void *key, int from_prog)
{
	switch (m->kind) {
	case 1: {
		uint32_t idx;
		memcpy(&idx, key, 4);
		if (idx >= m->max_entries)
			return NULL;
		uint8_t *slot = (uint8_t *)AP(m->arr) + (size_t)idx * ALIGN8(m->value_size);
		if (is_mapinmap(m->type)) {
			uint32_t id;
			memcpy(&id, slot, 4);
			if (!id)
				return NULL;
			return from_prog ? (void *)&kmaps[id - 1] : (void *)slot;
		}
		if (is_sockmap(m->type)) {
			uint64_t id;
			memcpy(&id, slot, 8);
			if (!id)
				return NULL;
			return from_prog ? (void *)sock_img_by_id((uint32_t)id) : (void *)slot;
		}
		return slot;
	}
	case 2: {
		struct hent *e = hash_find(m, key, fnv(key, m->key_size));
		if (!e)
			return NULL;
		if (is_lru(m->type))
			e->lru = ++m->lru_clock;
		uint8_t *v = he_val(m, e);
		if (from_prog && is_mapinmap(m->type)) {
			uint32_t id;
			memcpy(&id, v, 4);
			return id ? (void *)&kmaps[id - 1] : NULL;
		}
		if (from_prog && is_sockmap(m->type)) {
			uint64_t id;
			memcpy(&id, v, 8);
			return id ? (void *)sock_img_by_id((uint32_t)id) : NULL;
		}
		return v;
	}
	case 3:
		return lpm_lookup(m, key);
	}
	return NULL;
}

static long kmap_update(struct kmap *m, const void *key, const void *value, uint64_t flags)
{
	if (flags > BPF_EXIST)
		return -EINVAL;
	switch (m->kind) {
	case 1: {
		uint32_t idx;
		memcpy(&idx, key, 4);
		if (idx >= m->max_entries)
			return -E2BIG;
		if (flags == BPF_NOEXIST)
			return -EEXIST;
		memcpy((uint8_t *)AP(m->arr) + (size_t)idx * ALIGN8(m->value_size), value, m->value_size);
		return 0;
	}
	case 2: {
		uint32_t h = fnv(key, m->key_size);
		struct hent *e = hash_find(m, key, h);
		if (e && flags == BPF_NOEXIST)
			return -EEXIST;
		if (!e && flags == BPF_EXIST)
			return -ENOENT;
		if (!e) {
			if (m->fail_new_errno)
				return -m->fail_new_errno;
			if (m->count >= m->max_entries) {
				if (!is_lru(m->type))
					return -E2BIG;
				lru_evict(m);
			}
			e = hash_insert(m, key, h);
		}
		memcpy(he_val(m, e), value, m->value_size);
		e->lru = ++m->lru_clock;
		return 0;
	}
	case 3: {
		uint32_t maxp = (m->key_size - 4) * 8, plen;
		memcpy(&plen, key, 4);
		if (plen > maxp)
			return -EINVAL;
		uint8_t ck[4 + 256];
		lpm_canon(m, key, plen, ck);
		uint32_t h = fnv(ck, m->key_size);
		struct hent *e = hash_find(m, ck, h);
		if (e && flags == BPF_NOEXIST)
			return -EEXIST;
		if (!e && flags == BPF_EXIST)
			return -ENOENT;
		if (!e) {
			if (m->fail_new_errno)
				return -m->fail_new_errno;
			if (m->count >= m->max_entries)
				return -ENOSPC;
			e = hash_insert(m, ck, h);
			((uint32_t *)AP(m->plen_count))[plen]++;
		}
		memcpy(he_val(m, e), value, m->value_size);
		memcpy(he_orig(m, e), key, m->key_size);
		return 0;
	}
	}
	return -EINVAL;
}

static long kmap_delete(struct kmap *m, const void *key)
{
	switch (m->kind) {
	case 1:
		if (is_mapinmap(m->type) || is_sockmap(m->type)) {
			uint32_t idx;
			memcpy(&idx, key, 4);
			if (idx >= m->max_entries)
				return -E2BIG;
			uint8_t *slot = (uint8_t *)AP(m->arr) + (size_t)idx * ALIGN8(m->value_size);
			uint64_t z = 0;
			if (!memcmp(slot, &z, m->value_size > 8 ? 8 : m->value_size))
				return -ENOENT;
			memset(slot, 0, m->value_size);
			return 0;
		}
		return -EINVAL;
	case 2:
		return hash_remove(m, key, fnv(key, m->key_size));
	case 3: {
		uint32_t maxp = (m->key_size - 4) * 8, plen;
		memcpy(&plen, key, 4);
		if (plen > maxp)
			return -EINVAL;
		uint8_t ck[4 + 256];
		lpm_canon(m, key, plen, ck);
		int rc = hash_remove(m, ck, fnv(ck, m->key_size));
		if (!rc)
			((uint32_t *)AP(m->plen_count))[plen]--;
		return rc;
	}
	}
	return -EINVAL;
}

static void kmap_clear(struct kmap *m)
{
	switch (m->kind) {
	case 1:
		memset(AP(m->arr), 0, (size_t)m->max_entries * ALIGN8(m->value_size));
		break;
	case 2:
	case 3:
		/* abandon the old storage (reclaimed by the next restore/reset) */
		map_init_storage(m);
		break;
	}
}

/* ------------------------------------------------------------------------------------------------ */
/* mutable scalar state (snapshotted as one block)                                                   */

#define MAX_SOCKS 32
struct ksock {
	uint32_t id; /* 1.. ; 0 = unused */
	uint8_t family, proto, state, flags; /* flags: 1 local wildcard, 2 unconnected, 4 dualstack (v6 socket accepts v4) */
	uint8_t laddr[16], raddr[16]; /* v4 in the first 4 bytes */
	uint16_t lport, rport; /* host order */
	uint32_t mark, netns;
	uint64_t cookie;
	struct bpf_sock img;
};

struct kstate {
	uint64_t now_ns, time_step;
	uint64_t pid_tgid;
	char comm[16];
	char args[256];
	int32_t probe_read_ret;
	uint32_t pull_mode; /* 0 kernel semantics, 1 always fail, 2 lenient */
	int32_t sk_assign_ret, ringbuf_ret;
	uint32_t cur_netns;
	uint32_t nsocks;
	struct ksock socks[MAX_SOCKS];
	uint8_t param[256];
};
static struct kstate g;

/* PARAM is `const volatile` for the compiler: hide the pointer, or stores to / loads from it are folded away. */
static inline void *launder(void *p)
{
	asm volatile("" : "+r"(p) : : "memory");
	return p;
}

static void param_store(void)
{
	/* one load-time constant block (kshim_params[0], i.e. PARAM) is settable through the protocol */
	memcpy(launder(kshim_params[0].var), g.param, kshim_params[0].size);
	asm volatile("" ::: "memory");
}

/* ------------------------------------------------------------------------------------------------ */
/* skb                                                                                                */

#define FRAME_MAX 16384
#define WIN_PAGES 4
static uint8_t *win; /* low-memory window: WIN_PAGES pages followed by a PROT_NONE guard page */
static struct {
	struct __sk_buff skb;
	uint8_t frame[FRAME_MAX];
	uint32_t len, linear;
	int live;
	/* records */
	int redirect_kind; /* 0 none 1 bpf_redirect 2 bpf_redirect_peer */
	uint32_t redirect_ifindex;
	uint64_t redirect_flags;
	int32_t assigned_sock;
	int32_t sk_refs;
	uint64_t cookie;
	uint32_t pulls, pull_fails, load_bytes_calls;
} K;

static void win_out(void)
{ /* frame -> window, so that data_end abuts the guard page */
	uint8_t *end = win + WIN_PAGES * 4096;
	uint8_t *data = end - K.linear;
	memcpy(data, K.frame, K.linear);
	K.skb.data = (uint32_t)(uintptr_t)data;
	K.skb.data_end = (uint32_t)(uintptr_t)end;
	K.skb.len = K.len;
}
static void win_in(void)
{ /* window -> frame (direct packet writes by the program) */
	if (K.live)
		memcpy(K.frame, (void *)(uintptr_t)K.skb.data, K.linear);
}

static int skb_check(const void *skb)
{
	return skb == (const void *)&K.skb && K.live;
}

long bpf_skb_pull_data(struct __sk_buff *skb, __u32 len)
{
	if (!skb_check(skb))
		fatal("bpf_skb_pull_data on a foreign skb");
	win_in();
	K.pulls++;
	if (len == 0)
		len = K.linear;
	long rc = 0;
	if (g.pull_mode == 1) {
		rc = -ENOMEM;
	} else if (len > K.len) {
		if (g.pull_mode == 2) {
			K.linear = K.len;
		} else {
			rc = -ENOMEM; /* pskb_may_pull() fails when len > skb->len */
		}
	} else if (len > K.linear) {
		K.linear = len;
	}
	if (rc)
		K.pull_fails++;
	win_out();
	return rc;
}

long bpf_skb_load_bytes(const void *skb, __u32 offset, void *to, __u32 len)
{
	if (!skb_check(skb))
		fatal("bpf_skb_load_bytes on a foreign skb");
	win_in();
	K.load_bytes_calls++;
	if (offset > 0x7fffffffu || (uint64_t)offset + len > K.len) {
		memset(to, 0, len);
		return -EFAULT;
	}
	memcpy(to, K.frame + offset, len);
	return 0;
}

long bpf_skb_store_bytes(struct __sk_buff *skb, __u32 offset, const void *from, __u32 len, __u64 flags)
{
	if (!skb_check(skb))
		fatal("bpf_skb_store_bytes on a foreign skb");
	if (flags & ~(uint64_t)(BPF_F_RECOMPUTE_CSUM | BPF_F_INVALIDATE_HASH))
		return -EINVAL;
	win_in();
	if (offset > 0x7fffffffu || (uint64_t)offset + len > K.len)
		return -EFAULT;
	if (offset + len > K.linear)
		K.linear = offset + len > WIN_PAGES * 4096 ? K.linear : offset + len;
	memcpy(K.frame + offset, from, len);
	win_out();
	return 0;
}

long bpf_skb_change_head(struct __sk_buff *skb, __u32 head_room, __u64 flags)
{
	if (!skb_check(skb))
		fatal("bpf_skb_change_head on a foreign skb");
	win_in();
	if (flags || (uint64_t)K.len + head_room > FRAME_MAX || K.linear + head_room > WIN_PAGES * 4096)
		return -EINVAL;
	memmove(K.frame + head_room, K.frame, K.len);
	memset(K.frame, 0, head_room);
	K.len += head_room;
	K.linear += head_room;
	win_out();
	return 0;
}

long bpf_skb_adjust_room(struct __sk_buff *skb, __s32 len_diff, __u32 mode, __u64 flags)
{
	(void)skb; (void)len_diff; (void)mode; (void)flags;
	fatal("bpf_skb_adjust_room is not used by tproxy.c at the time kshim was written — implement it in kdrv.c");
}

long bpf_skb_change_type(struct __sk_buff *skb, __u32 type)
{
	if (!skb_check(skb))
		fatal("bpf_skb_change_type on a foreign skb");
	if (K.skb.pkt_type > 3 || type > 3)
		return -EINVAL;
	K.skb.pkt_type = type;
	return 0;
}

long bpf_redirect(__u32 ifindex, __u64 flags)
{
	if (flags & ~(uint64_t)BPF_F_INGRESS)
		return TC_ACT_SHOT;
	K.redirect_kind = 1;
	K.redirect_ifindex = ifindex;
	K.redirect_flags = flags;
	return TC_ACT_REDIRECT;
}

long bpf_redirect_peer(__u32 ifindex, __u64 flags)
{
	if (flags)
		return TC_ACT_SHOT;
	K.redirect_kind = 2;
	K.redirect_ifindex = ifindex;
	K.redirect_flags = flags;
	return TC_ACT_REDIRECT;
}

/* ------------------------------------------------------------------------------------------------ */
/* sockets                                                                                            */

static struct bpf_sock *sock_img_by_id(uint32_t id)
{
	for (uint32_t i = 0; i < g.nsocks; i++)
		if (g.socks[i].id == id) {
			K.sk_refs++;
			return &g.socks[i].img;
		}
	return NULL;
}

static struct ksock *sock_of_img(const void *p)
{
	for (uint32_t i = 0; i < g.nsocks; i++)
		if ((const void *)&g.socks[i].img == p)
			return &g.socks[i];
	return NULL;
}

static void sock_fill_img(struct ksock *s)
{
	memset(&s->img, 0, sizeof(s->img));
	s->img.family = s->family;
	s->img.type = s->proto == IPPROTO_TCP ? 1 /* SOCK_STREAM */ : 2;
	s->img.protocol = s->proto;
	s->img.mark = s->mark;
	s->img.state = s->state;
	s->img.src_port = s->lport;
	s->img.dst_port = bpf_htons(s->rport);
	if (s->family == 2) {
		memcpy(&s->img.src_ip4, s->laddr, 4);
		memcpy(&s->img.dst_ip4, s->raddr, 4);
	} else {
		memcpy(s->img.src_ip6, s->laddr, 16);
		memcpy(s->img.dst_ip6, s->raddr, 16);
	}
}

static struct bpf_sock *sock_lookup(int proto, struct bpf_sock_tuple *t, uint32_t tsize, uint64_t netns, uint64_t flags)
{
	uint8_t sa[16] = {0}, da[16] = {0};
	uint16_t sp, dp;
	int fam;
	if (flags)
		return NULL;
	if (tsize == sizeof(t->ipv4)) {
		fam = 2;
		memcpy(sa, &t->ipv4.saddr, 4);
		memcpy(da, &t->ipv4.daddr, 4);
		sp = bpf_ntohs(t->ipv4.sport);
		dp = bpf_ntohs(t->ipv4.dport);
	} else if (tsize == sizeof(t->ipv6)) {
		fam = 10;
		memcpy(sa, t->ipv6.saddr, 16);
		memcpy(da, t->ipv6.daddr, 16);
		sp = bpf_ntohs(t->ipv6.sport);
		dp = bpf_ntohs(t->ipv6.dport);
	} else {
		return NULL;
	}
	uint32_t ns = (int32_t)netns < 0 ? g.cur_netns : (uint32_t)netns;
	struct ksock *best = NULL;
	int best_score = -1;
	for (uint32_t i = 0; i < g.nsocks; i++) {
		struct ksock *s = &g.socks[i];
		if (!s->id || s->proto != proto || s->netns != ns || s->lport != dp)
			continue;
		int alen = fam == 2 ? 4 : 16;
		if (s->family != fam) {
			if (!(fam == 2 && s->family == 10 && (s->flags & 4) && (s->flags & 1)))
				continue;
		}
		int score = 0;
		if (!(s->flags & 1)) {
			if (s->family != fam || memcmp(s->laddr, da, alen))
				continue;
			score += 2;
		}
		if (!(s->flags & 2)) {
			if (s->family != fam || s->rport != sp || memcmp(s->raddr, sa, alen))
				continue;
			score += 4;
		}
		if (s->family == fam)
			score += 1;
		if (score > best_score) {
			best_score = score;
			best = s;
		}
	}
	if (!best)
		return NULL;
	K.sk_refs++;
	return &best->img;
}

struct bpf_sock *bpf_skc_lookup_tcp(void *ctx, struct bpf_sock_tuple *t, __u32 sz, __u64 netns, __u64 flags)
{
	(void)ctx;
	return sock_lookup(IPPROTO_TCP, t, sz, netns, flags);
}
struct bpf_sock *bpf_sk_lookup_tcp(void *ctx, struct bpf_sock_tuple *t, __u32 sz, __u64 netns, __u64 flags)
{
	(void)ctx;
	return sock_lookup(IPPROTO_TCP, t, sz, netns, flags);
}
struct bpf_sock *bpf_sk_lookup_udp(void *ctx, struct bpf_sock_tuple *t, __u32 sz, __u64 netns, __u64 flags)
{
	(void)ctx;
	return sock_lookup(IPPROTO_UDP, t, sz, netns, flags);
}
struct bpf_sock *bpf_sk_fullsock(struct bpf_sock *sk)
{
	struct ksock *s = sock_of_img(sk);
	if (!s)
		return NULL;
	/* request / timewait minisockets are not full sockets */
	if (s->state == BPF_TCP_TIME_WAIT || s->state == BPF_TCP_NEW_SYN_RECV)
		return NULL;
	return sk;
}
long bpf_sk_release(void *sk)
{
	if (!sock_of_img(sk))
		fatal("bpf_sk_release of a pointer that is not a socket");
	K.sk_refs--;
	return 0;
}
long bpf_sk_assign(void *ctx, void *sk, __u64 flags)
{
	if (!skb_check(ctx))
		fatal("bpf_sk_assign on a foreign ctx");
	struct ksock *s = sock_of_img(sk);
	if (!s || flags)
		return -EINVAL;
	if (g.sk_assign_ret)
		return g.sk_assign_ret;
	K.assigned_sock = (int32_t)s->id;
	return 0;
}
__u64 bpf_get_socket_cookie(void *ctx)
{
	(void)ctx;
	return K.cookie;
}

/* ------------------------------------------------------------------------------------------------ */
/* misc helpers                                                                                       */

void *bpf_map_lookup_elem(void *map, const void *key)
{
	struct kmap *m = map_by_ptr(map);
	if (!m)
		fatal("bpf_map_lookup_elem: unknown map pointer %p", map);
	void *v = kmap_lookup(m, key, 1);
	trace_add(m, 1, v != NULL, key);
	return v;
}
long bpf_map_update_elem(void *map, const void *key, const void *value, __u64 flags)
{
	struct kmap *m = map_by_ptr(map);
	if (!m)
		fatal("bpf_map_update_elem: unknown map pointer %p", map);
	long rc = kmap_update(m, key, value, flags);
	trace_add(m, 2, (int)rc, key);
	return rc;
}
long bpf_map_delete_elem(void *map, const void *key)
{
	struct kmap *m = map_by_ptr(map);
	if (!m)
		fatal("bpf_map_delete_elem: unknown map pointer %p", map);
	long rc = kmap_delete(m, key);
	trace_add(m, 3, (int)rc, key);
	return rc;
}

__u64 bpf_ktime_get_ns(void)
{
	uint64_t t = g.now_ns;
	g.now_ns += g.time_step;
	return t;
}

#define EVENTS_MAX 256
static struct {
	uint16_t map;
	uint16_t len;
	uint8_t data[256];
} events[EVENTS_MAX];
static uint32_t nevents, events_dropped;

long bpf_ringbuf_output(void *ringbuf, void *data, __u64 size, __u64 flags)
{
	(void)flags;
	struct kmap *m = map_by_ptr(ringbuf);
	if (!m || m->kind != 4)
		fatal("bpf_ringbuf_output: not a ring buffer");
	if (g.ringbuf_ret)
		return g.ringbuf_ret;
	if (nevents >= EVENTS_MAX || size > 256) {
		events_dropped++;
		return -EAGAIN;
	}
	events[nevents].map = (uint16_t)(m - kmaps);
	events[nevents].len = (uint16_t)size;
	memcpy(events[nevents].data, data, size);
	nevents++;
	return 0;
}

long bpf_loop(__u32 nr_loops, void *callback_fn, void *callback_ctx, __u64 flags)
{
	/* the callbacks are declared `int f(__u32 index, void *ctx)` */
	int (*cb)(__u32, void *) = (int (*)(__u32, void *))callback_fn;
	if (flags)
		return -EINVAL;
	if (nr_loops > (1u << 23))
		return -E2BIG;
	__u32 i;
	for (i = 0; i < nr_loops; i++) {
		if (cb(i, callback_ctx))
			return i + 1;
	}
	return i;
}

__u64 bpf_get_current_pid_tgid(void) { return g.pid_tgid; }
long bpf_get_current_comm(void *buf, __u32 size)
{
	if (!size)
		return -EINVAL;
	memset(buf, 0, size);
	size_t n = strnlen(g.comm, sizeof(g.comm));
	if (n > size - 1)
		n = size - 1;
	memcpy(buf, g.comm, n);
	return 0;
}
static struct mm_struct fake_mm;
static struct task_struct fake_task;
__u64 bpf_get_current_task(void)
{
	fake_mm.arg_start = (unsigned long)(uintptr_t)g.args;
	fake_task.mm = &fake_mm;
	return (__u64)(uintptr_t)&fake_task;
}
long bpf_probe_read_user_str(void *dst, __u32 size, const void *unsafe_ptr)
{
	if (g.probe_read_ret < 0)
		return g.probe_read_ret;
	if (unsafe_ptr != (const void *)g.args || !size)
		return -EFAULT;
	size_t n = strnlen(g.args, sizeof(g.args) - 1);
	if (n > size - 1)
		n = size - 1;
	memcpy(dst, g.args, n);
	((char *)dst)[n] = 0;
	return (long)n + 1;
}
long bpf_probe_read_kernel(void *dst, __u32 size, const void *p)
{
	memcpy(dst, p, size);
	return 0;
}
long bpf_trace_printk(const char *fmt, __u32 fmt_size, ...)
{
	(void)fmt_size;
	if (getenv("KSHIM_PRINTK"))
		fprintf(stderr, "kdrv: printk: %s\n", fmt);
	return 0;
}
__u32 bpf_get_prandom_u32(void) { return 4; }
__u32 bpf_get_smp_processor_id(void) { return 0; }

/* ------------------------------------------------------------------------------------------------ */
/* snapshots                                                                                          */

#define SNAP_MAX 65536
struct snap {
	uint8_t *arena;
	uint32_t arena_used;
	struct kmap *maps;
	uint32_t nkmaps;
	struct kstate g;
};
static struct snap *snaps[SNAP_MAX];
static uint32_t snap_hint = 1;

static void snap_take(uint32_t id)
{
	struct snap *s = snaps[id];
	if (s) {
		free(s->arena);
		free(s->maps);
	} else {
		s = snaps[id] = calloc(1, sizeof(*s));
	}
	s->arena_used = arena_used;
	s->arena = malloc(arena_used);
	memcpy(s->arena, arena, arena_used);
	s->nkmaps = nkmaps;
	s->maps = malloc(sizeof(struct kmap) * nkmaps);
	memcpy(s->maps, kmaps, sizeof(struct kmap) * nkmaps);
	s->g = g;
}
static int snap_restore(uint32_t id)
{
	if (id >= SNAP_MAX || !snaps[id])
		return -ENOENT;
	struct snap *s = snaps[id];
	memcpy(arena, s->arena, s->arena_used);
	arena_used = s->arena_used;
	for (uint32_t i = s->nkmaps; i < nkmaps; i++)
		kmaps[i].used = 0;
	memcpy(kmaps, s->maps, sizeof(struct kmap) * s->nkmaps);
	nkmaps = s->nkmaps;
	g = s->g;
	param_store();
	return 0;
}
static void snap_free(uint32_t id)
{
	if (id == 0 || id >= SNAP_MAX || !snaps[id])
		return;
	free(snaps[id]->arena);
	free(snaps[id]->maps);
	free(snaps[id]);
	snaps[id] = NULL;
	if (id < snap_hint)
		snap_hint = id;
}

/* ------------------------------------------------------------------------------------------------ */
/* protocol                                                                                           */

static uint8_t *req, *rsp;
static size_t req_cap, req_len, req_pos, rsp_cap, rsp_len;
static int req_bad;

static void rd_full(void *buf, size_t n)
{
	uint8_t *p = buf;
	while (n) {
		ssize_t r = read(0, p, n);
		if (r == 0)
			_exit(0);
		if (r < 0) {
			if (errno == EINTR)
				continue;
			_exit(4);
		}
		p += r;
		n -= (size_t)r;
	}
}
static void wr_full(const void *buf, size_t n)
{
	const uint8_t *p = buf;
	while (n) {
		ssize_t r = write(1, p, n);
		if (r < 0) {
			if (errno == EINTR)
				continue;
			_exit(4);
		}
		p += r;
		n -= (size_t)r;
	}
}
static const uint8_t *g_bytes(size_t n)
{
	static const uint8_t zeros[512];
	if (req_pos + n > req_len) {
		req_bad = 1;
		req_pos = req_len;
		return n <= sizeof(zeros) ? zeros : NULL;
	}
	const uint8_t *p = req + req_pos;
	req_pos += n;
	return p;
}
static uint8_t g_u8(void) { const uint8_t *p = g_bytes(1); return p ? p[0] : 0; }
static uint16_t g_u16(void) { uint16_t v = 0; const uint8_t *p = g_bytes(2); if (p) memcpy(&v, p, 2); return v; }
static uint32_t g_u32(void) { uint32_t v = 0; const uint8_t *p = g_bytes(4); if (p) memcpy(&v, p, 4); return v; }
static uint64_t g_u64(void) { uint64_t v = 0; const uint8_t *p = g_bytes(8); if (p) memcpy(&v, p, 8); return v; }
static void g_str(char *out, size_t cap)
{
	uint16_t n = g_u16();
	const uint8_t *p = g_bytes(n);
	size_t c = n < cap - 1 ? n : cap - 1;
	if (p)
		memcpy(out, p, c);
	out[p ? c : 0] = 0;
}
static void p_bytes(const void *b, size_t n)
{
	if (rsp_len + n > rsp_cap) {
		while (rsp_len + n > rsp_cap)
			rsp_cap = rsp_cap ? rsp_cap * 2 : 65536;
		rsp = realloc(rsp, rsp_cap);
	}
	if (n)
		memcpy(rsp + rsp_len, b, n);
	rsp_len += n;
}
static void p_u8(uint8_t v) { p_bytes(&v, 1); }
static void p_u16(uint16_t v) { p_bytes(&v, 2); }
static void p_u32(uint32_t v) { p_bytes(&v, 4); }
static void p_i32(int32_t v) { p_bytes(&v, 4); }
static void p_u64(uint64_t v) { p_bytes(&v, 8); }
static void p_str(const char *s) { uint16_t n = (uint16_t)strlen(s); p_u16(n); p_bytes(s, n); }
static void p_blob(const void *b, uint32_t n) { p_u32(n); p_bytes(b, n); }

static int32_t status;
static void fail(int32_t code, const char *fmt, ...) __attribute__((format(printf, 2, 3)));
static void fail(int32_t code, const char *fmt, ...)
{
	char msg[256];
	va_list ap;
	va_start(ap, fmt);
	vsnprintf(msg, sizeof(msg), fmt, ap);
	va_end(ap);
	status = code;
	rsp_len = 8;
	p_str(msg);
}

enum {
	OP_HELLO = 0x01, OP_RESET = 0x02, OP_MAP_UPDATE = 0x03, OP_MAP_LOOKUP = 0x04, OP_MAP_DELETE = 0x05,
	OP_MAP_DUMP = 0x06, OP_MAP_CLEAR = 0x07, OP_MAP_CREATE_INNER = 0x08, OP_MAP_SETMAX = 0x09, OP_MAP_INFO = 0x0a,
	OP_MAP_FAULT = 0x0b,
	OP_PARAM_SET = 0x10, OP_PARAM_GET = 0x11, OP_SET_TIME = 0x12, OP_SET_TASK = 0x13, OP_SET_SOCKS = 0x14, OP_SET_KNOBS = 0x15,
	OP_GET_TIME = 0x16,
	OP_ROUTE = 0x20, OP_INJECT = 0x21, OP_PARSE = 0x22, OP_ALIVE = 0x23,
	OP_SNAPSHOT = 0x30, OP_RESTORE = 0x31, OP_SNAP_FREE = 0x32, OP_EVENTS = 0x33, OP_TRACE = 0x34,
};

static struct kmap *req_map(void)
{
	char name[64];
	g_str(name, sizeof(name));
	struct kmap *m = map_by_name(name);
	if (!m)
		fail(-ENOENT, "no such map: %s", name);
	return m;
}

static void put_mapinfo(struct kmap *m)
{
	p_str(m->name);
	p_u32((uint32_t)(m - kmaps));
	p_u32(m->type);
	p_u32(m->key_size);
	p_u32(m->value_size);
	p_u32(m->max_entries);
	p_u32(m->flags);
	p_u32(m->count);
	p_u32(m->inner_type);
	p_u32(m->inner_key_size);
	p_u32(m->inner_value_size);
	p_u32(m->inner_max_entries);
	p_u32(m->inner_flags);
}

struct dump_ref {
	const uint8_t *key, *val;
};
static uint32_t dump_ks;
static int dump_cmp(const void *a, const void *b)
{
	return memcmp(((const struct dump_ref *)a)->key, ((const struct dump_ref *)b)->key, dump_ks);
}

static void op_map_dump(struct kmap *m, int nonzero_only)
{
	if (m->kind == 1) {
		size_t cnt_pos = rsp_len;
		uint32_t n = 0;
		p_u32(0);
		for (uint32_t i = 0; i < m->max_entries; i++) {
			uint8_t *slot = (uint8_t *)AP(m->arr) + (size_t)i * ALIGN8(m->value_size);
			if (nonzero_only) {
				int nz = 0;
				for (uint32_t j = 0; j < m->value_size; j++)
					nz |= slot[j];
				if (!nz)
					continue;
			}
			p_u32(i);
			p_bytes(slot, m->value_size);
			n++;
		}
		memcpy(rsp + cnt_pos, &n, 4);
		return;
	}
	if (m->kind == 4) {
		p_u32(0);
		return;
	}
	struct dump_ref *refs = malloc(sizeof(*refs) * (m->count + 1));
	uint32_t n = 0;
	uint32_t *b = AP(m->buckets);
	for (uint32_t i = 0; i < m->nbuckets; i++)
		for (uint32_t off = b[i]; off; off = ((struct hent *)AP(off))->next) {
			struct hent *e = AP(off);
			refs[n].key = m->kind == 3 ? he_orig(m, e) : he_key(m, e);
			refs[n].val = he_val(m, e);
			n++;
		}
	dump_ks = m->key_size;
	qsort(refs, n, sizeof(*refs), dump_cmp);
	p_u32(n);
	for (uint32_t i = 0; i < n; i++) {
		p_bytes(refs[i].key, m->key_size);
		p_bytes(refs[i].val, m->value_size);
	}
	free(refs);
}

struct skb_params {
	uint32_t ifindex, ingress_ifindex, mark, protocol, pkt_type, cb[5];
	uint64_t cookie;
	uint32_t linear;
};

static int setup_skb(void)
{
	struct skb_params sp;
	sp.ifindex = g_u32();
	sp.ingress_ifindex = g_u32();
	sp.mark = g_u32();
	sp.protocol = g_u32();
	sp.pkt_type = g_u32();
	for (int i = 0; i < 5; i++)
		sp.cb[i] = g_u32();
	sp.cookie = g_u64();
	sp.linear = g_u32();
	uint32_t flen = g_u32();
	const uint8_t *f = g_bytes(flen);
	if (req_bad || flen > FRAME_MAX - 64 || (!f && flen)) {
		fail(-EINVAL, "bad frame (len %u)", flen);
		return -1;
	}
	memset(&K.skb, 0, sizeof(K.skb));
	memset(K.frame, 0, sizeof(K.frame));
	if (flen)
		memcpy(K.frame, f, flen);
	K.len = flen;
	K.linear = sp.linear > flen ? flen : sp.linear;
	if (K.linear > WIN_PAGES * 4096 - 64)
		K.linear = WIN_PAGES * 4096 - 64;
	K.skb.ifindex = sp.ifindex;
	K.skb.ingress_ifindex = sp.ingress_ifindex;
	K.skb.mark = sp.mark;
	K.skb.protocol = bpf_htons((uint16_t)sp.protocol);
	K.skb.pkt_type = sp.pkt_type;
	for (int i = 0; i < 5; i++)
		K.skb.cb[i] = sp.cb[i];
	K.cookie = sp.cookie;
	K.redirect_kind = 0;
	K.redirect_ifindex = 0;
	K.redirect_flags = 0;
	K.assigned_sock = -1;
	K.sk_refs = 0;
	K.pulls = K.pull_fails = K.load_bytes_calls = 0;
	K.live = 1;
	win_out();
	return 0;
}

/* Fill the stack region the next call will use with 0xA5, so that an uninitialised slot of the kernel program
 * (e.g. struct padding of a key built on the stack) is visibly garbage instead of accidentally zero. */
#define POISON_FN(name, bytes)                                   \
	static __attribute__((noinline)) void name(void)         \
	{                                                        \
		volatile uint8_t junk[bytes];                    \
		uint8_t *p = (uint8_t *)junk;                    \
		asm volatile("" : "+r"(p));                     \
		memset(p, 0xA5, bytes);                          \
		asm volatile("" : : "r"(p) : "memory");        \
	}
POISON_FN(poison_stack, 24 * 1024)      /* whole TC / cgroup programs */
POISON_FN(poison_stack_small, 3 * 1024) /* route(): works in a per-CPU scratch map, shallow stack; called 10^5/s */

static void handle(uint8_t op)
{
	switch (op) {
	case OP_HELLO: {
		p_u32(1); /* protocol version */
		p_u32((uint32_t)NMAPDEFS);
		for (uint32_t i = 0; i < NMAPDEFS; i++)
			put_mapinfo(&kmaps[i]);
		p_u32((uint32_t)NPROGS);
		for (uint32_t i = 0; i < NPROGS; i++) {
			p_str(kshim_progs[i].name);
			p_str(kshim_progs[i].section);
		}
		p_u32((uint32_t)kshim_params[0].size);
		p_str(kshim_params[0].name);
		break;
	}
	case OP_RESET:
		snap_restore(0);
		nevents = events_dropped = 0;
		trace_n = 0;
		break;
	case OP_MAP_UPDATE: {
		struct kmap *m = req_map();
		if (!m)
			return;
		uint64_t flags = g_u64();
		uint32_t n = g_u32();
		for (uint32_t i = 0; i < n && !req_bad; i++) {
			const uint8_t *k = g_bytes(m->key_size);
			const uint8_t *v = g_bytes(m->value_size);
			if (req_bad || !k || !v)
				break;
			long rc;
			if (m->kind == 4) {
				rc = -EINVAL;
			} else if (is_mapinmap(m->type)) {
				uint32_t id;
				memcpy(&id, v, 4);
				if (id >= nkmaps || !kmaps[id].used || kmaps[id].is_static || kmaps[id].type != m->inner_type ||
				    kmaps[id].key_size != m->inner_key_size || kmaps[id].value_size != m->inner_value_size) {
					rc = -EINVAL; /* kernel: inner map does not match the template */
				} else {
					uint32_t enc = id + 1;
					rc = kmap_update(m, k, &enc, flags);
				}
			} else {
				rc = kmap_update(m, k, v, flags);
			}
			p_i32((int32_t)rc);
		}
		break;
	}
	case OP_MAP_LOOKUP: {
		struct kmap *m = req_map();
		if (!m)
			return;
		uint32_t n = g_u32();
		static const uint8_t zero[4096];
		for (uint32_t i = 0; i < n && !req_bad; i++) {
			const uint8_t *k = g_bytes(m->key_size);
			if (req_bad || !k)
				break;
			uint8_t *v = kmap_lookup(m, k, 0);
			p_i32(v ? 0 : -ENOENT);
			if (v && is_mapinmap(m->type)) {
				uint32_t id;
				memcpy(&id, v, 4);
				id -= 1;
				p_bytes(&id, 4);
			} else {
				p_bytes(v ? v : zero, m->value_size);
			}
		}
		break;
	}
	case OP_MAP_DELETE: {
		struct kmap *m = req_map();
		if (!m)
			return;
		uint32_t n = g_u32();
		for (uint32_t i = 0; i < n && !req_bad; i++) {
			const uint8_t *k = g_bytes(m->key_size);
			if (req_bad || !k)
				break;
			p_i32((int32_t)kmap_delete(m, k));
		}
		break;
	}
	case OP_MAP_DUMP: {
		struct kmap *m = req_map();
		if (!m)
			return;
		op_map_dump(m, g_u8());
		break;
	}
	case OP_MAP_CLEAR: {
		struct kmap *m = req_map();
		if (m)
			kmap_clear(m);
		break;
	}
	case OP_MAP_CREATE_INNER: {
		struct kmap *m = req_map();
		if (!m)
			return;
		if (!is_mapinmap(m->type)) {
			fail(-EINVAL, "%s is not a map-in-map", m->name);
			return;
		}
		char nm[40];
		snprintf(nm, sizeof(nm), "#%u", nkmaps);
		struct kmap *in = map_new(nm, m->inner_type, m->inner_key_size, m->inner_value_size, m->inner_max_entries, m->inner_flags);
		p_u32((uint32_t)(in - kmaps));
		break;
	}
	case OP_MAP_SETMAX: {
		struct kmap *m = req_map();
		if (!m)
			return;
		uint32_t mx = g_u32();
		if (m->kind == 1) {
			fail(-EINVAL, "cannot resize array-like map %s", m->name);
			return;
		}
		m->max_entries = mx;
		break;
	}
	case OP_MAP_INFO: {
		struct kmap *m = req_map();
		if (m)
			put_mapinfo(m);
		break;
	}
	case OP_MAP_FAULT: {
		struct kmap *m = req_map();
		if (m)
			m->fail_new_errno = (int32_t)g_u32();
		break;
	}
	case OP_PARAM_SET: {
		uint32_t n = g_u32();
		const uint8_t *p = g_bytes(n);
		if (req_bad || n != kshim_params[0].size) {
			fail(-EINVAL, "PARAM size mismatch: got %u, C sizeof is %zu", n, kshim_params[0].size);
			return;
		}
		memcpy(g.param, p, n);
		param_store();
		break;
	}
	case OP_PARAM_GET:
		p_blob(launder(kshim_params[0].var), (uint32_t)kshim_params[0].size);
		break;
	case OP_SET_TIME:
		g.now_ns = g_u64();
		g.time_step = g_u64();
		break;
	case OP_GET_TIME:
		p_u64(g.now_ns);
		break;
	case OP_SET_TASK: {
		g.pid_tgid = g_u64();
		const uint8_t *c = g_bytes(16);
		if (c)
			memcpy(g.comm, c, 16);
		g_str(g.args, sizeof(g.args));
		g.probe_read_ret = (int32_t)g_u32();
		break;
	}
	case OP_SET_SOCKS: {
		uint32_t n = g_u32();
		if (n > MAX_SOCKS) {
			fail(-E2BIG, "too many sockets");
			return;
		}
		memset(g.socks, 0, sizeof(g.socks));
		g.nsocks = n;
		for (uint32_t i = 0; i < n; i++) {
			struct ksock *s = &g.socks[i];
			s->id = g_u32();
			s->family = g_u8();
			s->proto = g_u8();
			s->state = g_u8();
			s->flags = g_u8();
			const uint8_t *a = g_bytes(16), *b = g_bytes(16);
			if (a)
				memcpy(s->laddr, a, 16);
			if (b)
				memcpy(s->raddr, b, 16);
			s->lport = g_u16();
			s->rport = g_u16();
			s->mark = g_u32();
			s->netns = g_u32();
			s->cookie = g_u64();
			sock_fill_img(s);
		}
		break;
	}
	case OP_SET_KNOBS:
		g.pull_mode = g_u32();
		g.sk_assign_ret = (int32_t)g_u32();
		g.ringbuf_ret = (int32_t)g_u32();
		g.cur_netns = g_u32();
		break;
	case OP_ROUTE: {
		uint32_t n = g_u32();
		for (uint32_t i = 0; i < n; i++) {
			const uint8_t *p = g_bytes(100);
			if (req_bad || !p)
				break;
			__u32 flag[8];
			struct tcphdr l4;
			__be32 sa[4], da[4], mac[4];
			memcpy(flag, p, 32);
			memcpy(&l4, p + 32, 20);
			memcpy(sa, p + 52, 16);
			memcpy(da, p + 68, 16);
			memcpy(mac, p + 84, 16);
			poison_stack_small();
			__s64 r = route(flag, &l4, sa, da, mac);
			p_u64((uint64_t)r);
		}
		break;
	}
	case OP_INJECT: {
		char hook[64];
		g_str(hook, sizeof(hook));
		struct kshim_progdef *pd = NULL;
		for (uint32_t i = 0; i < NPROGS; i++)
			if (!strcmp(kshim_progs[i].name, hook))
				pd = &kshim_progs[i];
		if (!pd) {
			fail(-ENOENT, "no such program: %s", hook);
			return;
		}
		if (setup_skb())
			return;
		poison_stack();
		int32_t verdict;
		if (!strncmp(pd->section, "tc", 2)) {
			verdict = ((int (*)(struct __sk_buff *))pd->fn)(&K.skb);
		} else {
			/* cgroup/sockops/sk_msg programs: the context is only passed on to bpf_get_socket_cookie() */
			static uint8_t fake_ctx[256];
			verdict = ((int (*)(void *))pd->fn)(fake_ctx);
		}
		win_in();
		K.live = 0;
		p_i32(verdict);
		p_u32(K.skb.mark);
		p_u32(K.skb.pkt_type);
		for (int i = 0; i < 5; i++)
			p_u32(K.skb.cb[i]);
		p_u8((uint8_t)K.redirect_kind);
		p_u32(K.redirect_ifindex);
		p_u64(K.redirect_flags);
		p_i32(K.assigned_sock);
		p_i32(K.sk_refs);
		p_u32(K.pulls);
		p_u32(K.pull_fails);
		p_u32(K.load_bytes_calls);
		p_u32(K.linear);
		p_blob(K.frame, K.len);
		break;
	}
	case OP_PARSE: {
		uint32_t link_h_len = g_u32();
		if (setup_skb())
			return;
		struct parsed_packet out;
		memset(&out, 0, sizeof(out));
		poison_stack();
		int ret = parse_packet(&K.skb, link_h_len, &out);
		K.live = 0;
		p_i32(ret);
		p_u32(K.pull_fails);
		p_u32(K.load_bytes_calls);
		p_blob(&out, sizeof(out));
		p_u32((uint32_t)__builtin_offsetof(struct parsed_packet, tuples));
		p_u32((uint32_t)sizeof(struct tuples_key));
		break;
	}
	case OP_ALIVE: {
		uint32_t proto = g_u32();
		uint8_t outbound = g_u8(), l4 = g_u8();
		uint16_t dport = g_u16();
		memset(&K.skb, 0, sizeof(K.skb));
		K.skb.protocol = bpf_htons((uint16_t)proto);
		K.len = K.linear = 0;
		K.live = 1;
		win_out();
		poison_stack();
		bool alive = wan_outbound_is_alive(&K.skb, outbound, l4, bpf_htons(dport));
		K.live = 0;
		p_u8(alive ? 1 : 0);
		break;
	}
	case OP_SNAPSHOT: {
		uint32_t id = snap_hint;
		while (id < SNAP_MAX && snaps[id])
			id++;
		if (id >= SNAP_MAX) {
			fail(-ENOSPC, "out of snapshot slots");
			return;
		}
		snap_take(id);
		snap_hint = id + 1;
		p_u32(id);
		break;
	}
	case OP_RESTORE: {
		uint32_t id = g_u32();
		if (snap_restore(id))
			fail(-ENOENT, "no snapshot %u", id);
		break;
	}
	case OP_SNAP_FREE:
		snap_free(g_u32());
		break;
	case OP_EVENTS:
		p_u32(nevents);
		p_u32(events_dropped);
		for (uint32_t i = 0; i < nevents; i++) {
			p_str(kmaps[events[i].map].name);
			p_blob(events[i].data, events[i].len);
		}
		nevents = events_dropped = 0;
		break;
	case OP_TRACE: {
		uint8_t mode = g_u8(); /* 0 stop, 1 start (clears), 2 fetch (keeps running) */
		if (mode == 1) {
			trace_on = 1;
			trace_n = trace_dropped = 0;
		} else if (mode == 0) {
			trace_on = 0;
		}
		p_u32(trace_n);
		p_u32(trace_dropped);
		for (uint32_t i = 0; i < trace_n; i++) {
			p_str(kmaps[trace_buf[i].map].name);
			p_u8(trace_buf[i].op);
			p_i32(trace_buf[i].rc);
			p_blob(trace_buf[i].key, trace_buf[i].klen);
		}
		if (mode == 2)
			trace_n = trace_dropped = 0;
		break;
	}
	default:
		fail(-ENOSYS, "unknown op 0x%02x", op);
	}
}

static void init_runtime(void)
{
	arena = mmap(NULL, ARENA_CAP, PROT_READ | PROT_WRITE, MAP_PRIVATE | MAP_ANONYMOUS | MAP_NORESERVE, -1, 0);
	if (arena == MAP_FAILED)
		fatal("mmap arena: %s", strerror(errno));
	arena_used = 8;
	/* packet window below 4 GiB: __sk_buff.data/data_end are 32-bit */
	size_t wlen = (WIN_PAGES + 1) * 4096;
	win = MAP_FAILED;
	for (uintptr_t hint = 0x20000000; hint < 0x70000000 && win == MAP_FAILED; hint += 0x4000000) {
		void *p = mmap((void *)hint, wlen, PROT_READ | PROT_WRITE, MAP_PRIVATE | MAP_ANONYMOUS | MAP_FIXED_NOREPLACE, -1, 0);
		if (p != MAP_FAILED && (uintptr_t)p + wlen < 0xffffffffu)
			win = p;
		else if (p != MAP_FAILED)
			munmap(p, wlen);
	}
	if (win == MAP_FAILED)
		fatal("cannot map the packet window below 4 GiB");
	if (mprotect(win + WIN_PAGES * 4096, 4096, PROT_NONE))
		fatal("mprotect guard: %s", strerror(errno));
	/* load-time constants live in .rodata (const volatile): make their pages writable */
	for (uint32_t i = 0; i < NPARAMS; i++) {
		uintptr_t a = (uintptr_t)kshim_params[i].var & ~(uintptr_t)4095;
		uintptr_t e = ((uintptr_t)kshim_params[i].var + kshim_params[i].size + 4095) & ~(uintptr_t)4095;
		if (mprotect((void *)a, e - a, PROT_READ | PROT_WRITE))
			fatal("mprotect %s: %s", kshim_params[i].name, strerror(errno));
	}
	if (NPARAMS < 1 || kshim_params[0].size > sizeof(g.param))
		fatal("no load-time constant block found (or larger than %zu bytes)", sizeof(g.param));
	for (uint32_t i = 0; i < NMAPDEFS; i++) {
		struct kshim_mapdef *d = &kshim_mapdefs[i];
		struct kmap *m = map_new(d->name, d->type, d->key_size, d->value_size, d->max_entries, d->map_flags);
		m->is_static = 1;
		m->var = d->var;
		m->inner_type = d->inner_type;
		m->inner_key_size = d->inner_key_size;
		m->inner_value_size = d->inner_value_size;
		m->inner_max_entries = d->inner_max_entries;
		m->inner_flags = d->inner_map_flags;
		if (is_mapinmap(m->type) && !map_kind(m->inner_type))
			fatal("map %s: unsupported inner map type %u", d->name, m->inner_type);
	}
	memset(&g, 0, sizeof(g));
	g.now_ns = 1000000000ULL;
	snap_take(0); /* boot state; OP_RESET returns here */
}

int main(int argc, char **argv)
{
	if (argc > 1 && !strcmp(argv[1], "--layout")) {
		kshim_print_layout(stdout);
		return 0;
	}
	init_runtime();
	for (;;) {
		uint32_t len;
		rd_full(&len, 4);
		if (len < 1 || len > (64u << 20))
			fatal("bad request length %u", len);
		if (len > req_cap) {
			req_cap = len;
			req = realloc(req, req_cap);
		}
		rd_full(req, len);
		req_len = len;
		req_pos = 1;
		req_bad = 0;
		status = 0;
		rsp_len = 0;
		p_u32(0);
		p_i32(0);
		handle(req[0]);
		if (req_bad && status == 0)
			fail(-EPROTO, "truncated request for op 0x%02x", req[0]);
		uint32_t l = (uint32_t)(rsp_len - 4);
		memcpy(rsp, &l, 4);
		memcpy(rsp + 4, &status, 4);
		wr_full(rsp, rsp_len);
	}
}
