// C04 — rule normalisation never changes what the rules mean.
//
// Engine Q (bounded-exhaustive enumeration over sequential real code), differential + reference:
// every rule LIST of bounded length over alphabets built around the optimizers' triggers is lowered through
// the production optimizer chain of each of the three pipelines (traffic routing, DNS request routing, DNS
// response routing; plus the daedns router that reuses the request program) and decided for every input of the
// boundary product of the list's own constants; each decision must equal the reference decision on the list
// AS WRITTEN (geodata references replaced by the values the harness wrote into its tiny data files), and the
// decision of the matcher built from the same list without the merging/sorting/deduplicating optimizers.
package main

import (
	"fmt"
	"os"
	"path/filepath"
	"runtime/debug"
	"runtime/pprof"
	"time"

	"github.com/daeuniverse/dae/common/consts"
	"github.com/daeuniverse/dae/verifx/vlib"
	"github.com/daeuniverse/dae/verifx/vroute"
)

const (
	budgetQuick    = 150 * time.Second
	budgetThorough = 16 * time.Minute
)

func main() {
	r := vlib.Start("C04", "exploration")
	debug.SetGCPercent(400)
	if err := vroute.SelfTest(); err != nil {
		fmt.Fprintln(os.Stderr, "C04:", err)
		os.Exit(2)
	}
	work := os.Getenv("VERIF_WORKDIR")
	if work == "" {
		work = filepath.Join(os.TempDir(), "c04-work")
	}
	finder, err := writeGeoAssets(filepath.Join(work, "c04-assets"))
	if err != nil {
		fmt.Fprintln(os.Stderr, "C04: cannot write geodata assets:", err)
		os.Exit(2)
	}
	repo := os.Getenv("VERIF_REPO")
	if repo == "" {
		repo = "/repo"
	}
	chain, err := wiredTrafficChain(repo)
	if err != nil {
		fmt.Fprintln(os.Stderr, "C04: cannot read the traffic optimizer chain:", err)
		os.Exit(2)
	}
	r.Set("traffic_optimizer_chain", chain)
	f := newFindings()
	if pf := os.Getenv("C04_CPUPROFILE"); pf != "" { // development aid
		fh, _ := os.Create(pf)
		pprof.StartCPUProfile(fh)
		defer pprof.StopCPUProfile()
		go func() { time.Sleep(100 * time.Second); pprof.StopCPUProfile(); fh.Close(); os.Exit(3) }()
	}
	thorough := r.Thorough()

	share := func(frac float64) func() bool {
		lim := time.Duration(float64(r.Budget(budgetQuick, budgetThorough)) * frac)
		return func() bool { return r.Elapsed() > lim }
	}
	t := newTrafficLeg(r, f, finder, chain)
	d := newDNSLeg(r, f, finder)
	if r.ReplayArg != "" {
		replay(r, t, d)
	}
	ip, dom, misc, mix, emp := trafficFamilies()
	all := unionRules(ip, dom, misc, emp)
	for _, a := range [][]vroute.Rule{ip, dom, misc, mix, emp, all} {
		checkDistinct("traffic", ruleTexts(a))
	}
	var rq, rp []string
	for _, s := range d.req {
		rq = append(rq, s.text)
	}
	for _, s := range d.resp {
		rp = append(rp, s.text)
	}
	checkDistinct("dns-request", rq)
	checkDistinct("dns-response", rp)
	if err := selfCheckAssembly(all, d); err != nil {
		fmt.Fprintln(os.Stderr, "C04: harness self-check failed:", err)
		os.Exit(2)
	}
	full := vroute.PacketOpts{}
	mapped := vroute.PacketOpts{MappedForms: true}
	compact := vroute.PacketOpts{Compact: true}

	// Pass 0: every single-rule list through the complete configuration TEXT (parser included) with the
	// production match-set length (1024). The bulk then runs on parsed documents assembled from the once-parsed
	// rules (astkit.go) and with the build-time knob consts.MaxMatchSetLen=64: the domain matchers allocate
	// arrays of that length per compiled program, which otherwise dominates the run time.
	t.deadline = share(0.5)
	t.runSpace(0, "all1", all, 1, 1, mapped, true)
	d.runSpace(0, "d1", len(d.req), len(d.resp), 1, 1, true, true, share(0.5))
	consts.MaxMatchSetLen = 64

	// ---------------- traffic ----------------
	if !thorough {
		t.runSpace(1, "all2", all, 2, 2, full, false)
		t.runSpace(2, "ip3", ip[:ipCore], 3, 3, compact, false)
		t.runSpace(3, "dom3", dom[:domCore], 3, 3, compact, false)
		t.runSpace(4, "misc3", misc[:miscCore], 3, 3, compact, false)
		t.runSpace(5, "mix3", mix, 3, 3, compact, false)
		t.runSpace(6, "emp3", emp, 3, 3, compact, false)
	} else {
		t.runSpace(1, "all2", all, 2, 2, mapped, false)
		t.runSpace(2, "ip3", ip, 3, 3, compact, false)
		t.runSpace(3, "dom3", dom, 3, 3, compact, false)
		t.runSpace(4, "misc3", misc, 3, 3, compact, false)
		t.runSpace(5, "mix3", mix, 3, 3, compact, false)
		t.runSpace(6, "ip4", ip[:ipCore], 4, 4, compact, false)
		t.runSpace(7, "dom4", dom[:domCore], 4, 4, compact, false)
		t.runSpace(8, "misc4", misc[:miscCore], 4, 4, compact, false)
		t.runSpace(9, "mix4", mix, 4, 4, compact, false)
		t.runSpace(10, "emp3", emp, 3, 3, compact, false)
		t.runSpace(11, "emp4", emp, 4, 4, compact, false)
	}
	r.Set("traffic_expected_decisions", t.outcomes.sorted())
	r.Set("traffic_distinct_outcomes", len(t.outcomes.m))

	// ---------------- DNS request / response / daedns router ----------------
	if !thorough {
		d.runSpace(1, "d2", len(d.req), len(d.resp), 2, 2, false, true, share(1.0))
		d.runSpace(2, "d3core", reqCore, respCore, 3, 3, false, true, share(1.0))
	} else {
		d.runSpace(1, "d2", len(d.req), len(d.resp), 2, 2, false, true, share(1.0))
		d.runSpace(2, "d3", len(d.req), len(d.resp), 3, 3, false, true, share(1.0))
		d.runSpace(3, "d4core", reqCore, respCore, 4, 4, false, false, share(1.0))
	}
	for _, p := range []*dnsPipe{d.pReq, d.pResp} {
		r.Set(p.name+"_expected_decisions", p.outcomes.sorted())
		r.Set(p.name+"_distinct_outcomes", len(p.outcomes.m))
	}

	f.report(r)
	r.Set("distinct_nontrivial", t.nontrivial.Load()+d.pReq.nontrivial.Load()+d.pResp.nontrivial.Load()+d.pRouter.nontrivial.Load())
	r.Counter("evaluations").Add(t.evals.Load() + d.pReq.evals.Load() + d.pResp.evals.Load() + d.pRouter.evals.Load())
	r.Set("distinct_outcomes", len(t.outcomes.m)+len(d.pReq.outcomes.m)+len(d.pResp.outcomes.m))
	r.Set("lists", t.lists.Load()+d.pReq.lists.Load()+d.pResp.lists.Load()+d.pRouter.lists.Load())
	r.Set("lists_changed_by_optimizers", t.changed.Load()+d.pReq.changed.Load()+d.pResp.changed.Load()+d.pRouter.changed.Load())

	// vacuity guards: every pipeline must have seen merged rules, removed values, geodata expansion, lists the
	// optimizers left alone, and more than one expected decision (skipped when the run was cut short or failed)
	if r.ViolationCount() == 0 && !r.OverBudget(budgetQuick, budgetThorough) {
		type g struct {
			name string
			v    int64
		}
		for _, x := range []g{
			{"traffic merged", t.merged.Load()}, {"traffic deduplicated", t.deduped.Load()}, {"traffic geodata", t.geo.Load()}, {"traffic reordered-only", t.reordered.Load()},
			{"traffic unchanged", t.lists.Load() - t.changed.Load()}, {"traffic outcomes>1", int64(len(t.outcomes.m) - 1)},
			{"dns-request merged", d.pReq.merged.Load()}, {"dns-request deduplicated", d.pReq.deduped.Load()}, {"dns-request geodata", d.pReq.geo.Load()},
			{"dns-request unchanged", d.pReq.lists.Load() - d.pReq.changed.Load()}, {"dns-request outcomes>1", int64(len(d.pReq.outcomes.m) - 1)},
			{"dns-response merged", d.pResp.merged.Load()}, {"dns-response deduplicated", d.pResp.deduped.Load()}, {"dns-response geodata", d.pResp.geo.Load()},
			{"dns-response unchanged", d.pResp.lists.Load() - d.pResp.changed.Load()}, {"dns-response outcomes>1", int64(len(d.pResp.outcomes.m) - 1)},
			{"daedns-router lists", d.pRouter.lists.Load()}, {"daedns-router merged", d.pRouter.merged.Load()},
			{"negated mergeable neighbours (traffic)", t.negMergeable.Load()}, {"negated mergeable neighbours (dns-request)", d.pReq.negMergeable.Load()},
			{"negated mergeable neighbours (dns-response)", d.pResp.negMergeable.Load()},
			{"empty expansion (traffic)", t.emptyExp.Load()}, {"empty expansion (dns-request)", d.pReq.emptyExp.Load()}, {"empty expansion (dns-response)", d.pResp.emptyExp.Load()},
		} {
			if x.v <= 0 {
				fmt.Fprintf(os.Stderr, "C04: vacuous exploration: no case of kind %q\n", x.name)
				os.Exit(2)
			}
		}
	}
	r.Rule(fmt.Sprintf("Rule LISTS are all sequences (with repetition) of the stated length over closed rule alphabets built around the optimizers' triggers. "+
		"Traffic: full alphabet = union of four families (ip/sip: %d rules, domain: %d, port/l4proto/pname/mac/ipversion/dscp: %d, empty-expansion: %d; %d rules) - single-condition rules sharing function, negation and outbound; neighbours differing in exactly one of function name (dip/sip, dip/ip alias), '!', outbound (g1/g2) or outbound parameters (mark, must_, (must)); repeated and overlapping values; alias spellings dip/ip, dport/port, domain bare/domain:/suffix:, contains:/keyword:; same value under two keys; mixed-key domain(); v4/v6 values that re-sort; '&&' rules whose conditions re-sort by name; the same value in two conditions of one rule; must_rules; geoip:/geosite:/geosite@attr/ext: references alone, negated and mixed with ordinary values; references whose expansion is EMPTY (geosite:tiny@nomatch, geoip:empty) alone, negated, as first and as last condition of an '&&' rule. "+
		"quick: every list of length 1 and 2 over the full alphabet, every list of length 3 over each family core (%d/%d/%d rules), over a %d-rule cross-family alphabet and over the empty-expansion family; thorough: length 1-2 over the full alphabet (IPv4 packets also in IPv4-mapped form), length 3 over each complete family and the cross-family alphabet, length 4 over the cores, the cross-family alphabet and the empty-expansion family. "+
		"DNS: request alphabet %d rules (qname full/suffix/keyword/regex/geosite/ext, qtype by name and number, negated, multi-key, '&&', empty expansions, one value in two conditions), response alphabet %d rules (ip CIDR sets incl. v6-first, overlaps, geoip/ext, empty geoip; upstream; qname; qtype; '&&'); quick: length 1-2 over the full alphabets, length 3 over the cores (%d/%d); thorough: length 1-3 over the full alphabets, length 4 over the cores; the daedns router sees every request list of length<=3. "+
		"Inputs: traffic - vroute.PacketsFor on the list as written with geodata references replaced by the listed values (full boundary product for length<=2, compact product = one inside + one outside neighbour per constant for length>=3); DNS request - %d questions (17 names: hits, misses, mixed case, trailing dot, root; qtypes A, AAAA, HTTPS); DNS response - %d inputs (4 questions x every answer section of <=2 records from a pool of 6 addresses x 3 answering upstreams). "+
		"Meaning of an empty value list: no value matches, so f() never holds and !f() always holds; a list with a rule that holds for every input after expansion may instead be refused with an explicit configuration error (counted in *_lists_rejected_unconditional_after_expansion). "+
		"A case is (pipeline, list, input); lists are pairwise distinct (alphabets checked duplicate-free, spaces differ in length or are de-duplicated by text hash: traffic_duplicate_lists_skipped). A list is NON-TRIVIAL when the rules actually lowered differ from the written rules by more than alias renaming (merged rules, removed values, re-sorted values or conditions, expanded geodata); distinct_nontrivial counts the cases on such lists.",
		len(ip), len(dom), len(misc), len(emp), len(all), ipCore, domCore, miscCore, len(mix), len(d.req), len(d.resp), reqCore, respCore, len(d.reqIn), len(d.respIn)))
	r.Assume("traffic pipeline: the optimizer chain is read from the source of the tree under test (control/control_plane.go, arguments of routing.NewNormalizedProgram) and applied in that order through routing.NewNormalizedProgram -> NewRoutingMatcherBuilderFromProgram -> BuildUserspace -> ControlPlane.Route (real-mode build of package control); NewControlPlane itself is not executed")
	r.Assume("DNS pipelines go through the real dns.New (RequestSelect/ResponseSelect) and daedns.NewWithOption (selectUpstream); upstreams are IP literals, no network")
	r.Assume("geodata: geosite.dat/geoip.dat/c04site.dat/c04ip.dat are generated by the harness (protobuf through pkg/geodata types, three entries per file, the wanted one in the middle) into $VERIF_WORKDIR/c04-assets and found through assets.LocationFinder; the meaning of geosite:tiny / geoip:tiny / ext:'file:tiny' is the list of values the harness wrote (RootDomain=suffix, Full=full, Plain=keyword, Regex=regex; @attr filters by attribute, case-insensitively)")
	r.Assume("lists of length 1 go through the complete configuration text and the production match-set length 1024; longer lists are assembled from the once-parsed rules (checked equal to parsing the text for every symbol) and run with consts.MaxMatchSetLen=64 (build-time knob)")
	r.Assume("second leg (matcher built from the same list with AliasOptimizer only / no optimizer) is evaluated whenever the production chain changed the list or the list has geodata; for an unchanged list both matchers would be built from the identical rule list")
	r.Assume("internal dae DNS selectors (sub/node/subnode), which pass through the same optimizers, are not part of the alphabets")
	r.Finish()
}
