#!/bin/bash
# Offline setup: build the binder and pre-build every registered check (warms the go build cache).
set -u
VERIF="$(cd "$(dirname "$0")" && pwd)"
export GOFLAGS=-mod=mod GOPROXY=off GOSUMDB=off GOTOOLCHAIN=local
mkdir -p "$VERIF/bin" "$VERIF/.work" "$VERIF/evidence" "$VERIF/replays"
(cd "$VERIF/tools/vbuild" && go1.26 build -o "$VERIF/bin/vbuild" .) || exit 1
rc=0
for ID in $(cat "$VERIF/tools/claimed.txt"); do
  d="$VERIF/checks/$ID"
  [ -f "$d/main/main.go" ] || continue
  VERIF_BUILD_ONLY=1 "$VERIF/run" "$ID" quick >/dev/null 2>"$VERIF/.work/setup-$ID.log" || { echo "setup: build of $ID failed"; cat "$VERIF/.work/setup-$ID.log"; rc=1; }
done
exit $rc
