package main

import (
	"context"
	"encoding/json"
	"fmt"
	"os"
	"strings"

	"github.com/daeuniverse/dae/component/daedns"
	"github.com/daeuniverse/dae/component/dns"
	"github.com/daeuniverse/dae/config"
	"github.com/daeuniverse/dae/pkg/config_parser"
	ref "github.com/daeuniverse/dae/verifx/c04_dnsref"
	"github.com/daeuniverse/dae/verifx/vlib"
	"github.com/daeuniverse/dae/verifx/vroute"
)

// replay re-decides one recorded case through the complete configuration TEXT (parser included).
func replay(r *vlib.Run, t *trafficLeg, d *dnsLeg) {
	b, err := os.ReadFile(r.ReplayArg)
	if err != nil {
		fmt.Fprintln(os.Stderr, err)
		os.Exit(2)
	}
	var head struct {
		Detail struct {
			Pipeline string `json:"pipeline"`
		} `json:"detail"`
	}
	if err := json.Unmarshal(b, &head); err != nil || head.Detail.Pipeline == "" {
		fmt.Fprintln(os.Stderr, "replay file has no pipeline/program (build-leg violation?)", err)
		os.Exit(2)
	}
	fail := func() {
		fmt.Println("VIOLATION property=C04 replay=" + r.ReplayArg)
		os.Exit(1)
	}
	if head.Detail.Pipeline == "traffic" {
		var f struct {
			Detail trafficDetail `json:"detail"`
		}
		if err := json.Unmarshal(b, &f); err != nil || f.Detail.Program == nil {
			fmt.Fprintln(os.Stderr, "replay: no program", err)
			os.Exit(2)
		}
		c, berr, herr := t.compileTraffic(f.Detail.Program, true)
		if herr != nil {
			fmt.Fprintln(os.Stderr, herr)
			os.Exit(2)
		}
		if berr != "" {
			fmt.Println("REPLAY build:", berr)
			fail()
		}
		p, err := fromJSON(f.Detail.Packet)
		if err != nil {
			fmt.Fprintln(os.Stderr, err)
			os.Exit(2)
		}
		want, hit := c.ref.Decide(&p)
		got, rerr := t.route(c.opt, &p)
		fmt.Printf("REPLAY traffic routing as written:\n%slowered: %s\npacket: %s\nreference: %s (rule %d)\nimplementation (chain %v): %s err=%v\n",
			f.Detail.Program.RoutingBody(), renderRules(c.opt.OptRules), p.Key(), want, hit.Rule, t.chain, got, rerr)
		if c.base != nil {
			g2, e2 := t.route(c.base, &p)
			fmt.Printf("alias-only matcher: %s err=%v\n", g2, e2)
		}
		if rerr != nil || got != want {
			fail()
		}
		os.Exit(0)
	}
	var f struct {
		Detail dnsDetail `json:"detail"`
	}
	if err := json.Unmarshal(b, &f); err != nil || f.Detail.Program == nil {
		fmt.Fprintln(os.Stderr, "replay: no program", err)
		os.Exit(2)
	}
	prog := f.Detail.Program
	exp := &ref.Program{Fallback: prog.Fallback}
	for _, rl := range prog.Rules {
		e, _ := expandDNSRule(rl)
		exp.Rules = append(exp.Rules, e)
	}
	in := f.Detail.Input
	want, by := ref.Decide(exp, &in)
	reqBlock, respBlock := "      fallback: "+reqFallback+"\n", "      fallback: "+respFallback+"\n"
	if f.Detail.Pipeline == "dns-response" {
		respBlock = prog.Block()
	} else {
		reqBlock = prog.Block()
	}
	text := dnsConfText(reqBlock, respBlock)
	secs, err := config_parser.Parse(text)
	if err != nil {
		fmt.Println("REPLAY parse error:", err)
		fail()
	}
	var conf *config.Config
	if conf, err = config.New(secs); err != nil {
		fmt.Println("REPLAY config error:", err)
		fail()
	}
	log := quietLogger()
	got := ""
	switch f.Detail.Pipeline {
	case "daedns-router":
		rt, e := daedns.NewWithOption(log, &conf.Global, &conf.Dns, &daedns.NewOption{LocationFinder: d.finder})
		if e != nil || rt == nil {
			fmt.Println("REPLAY router build error:", e)
			fail()
		}
		if want == "asis" || want == "reject" {
			want = "passthrough"
		}
		got = routerOutcome(rt, &in)
	default:
		dd, e := dns.New(&conf.Dns, &dns.NewOption{Logger: log, LocationFinder: d.finder, UpstreamReadyCallback: func(*dns.Upstream) error { return nil }, UpstreamResolverNetwork: "udp"})
		if e != nil {
			fmt.Println("REPLAY dns.New error:", e)
			fail()
		}
		if f.Detail.Pipeline == "dns-request" {
			got = reqOutcome(dd.RequestSelect(context.Background(), in.Name, in.Qtype))
		} else {
			var up *dns.Upstream
			for ui, tg := range upTags {
				if tg == in.From {
					up, _ = dd.VerifUpstream(ui)
				}
			}
			got = respOutcome(dd.ResponseSelect(context.Background(), mkMsg(in.Name, in.Qtype, in.Answers), up))
		}
	}
	fmt.Printf("REPLAY %s list as written: %s\ninput: %s\nreference: %s (rule %d)\nimplementation: %s\n", f.Detail.Pipeline, prog.Text(), in.String(), want, by, got)
	if got != want {
		fail()
	}
	_ = strings.TrimSpace
	_ = vroute.Groups
	os.Exit(0)
}
