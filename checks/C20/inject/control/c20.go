//go:build verif

package control

// VerifC20RetiringPlane returns a control plane that stands for "the previous generation" in the C20 harness:
// a zero ControlPlane whose one-shot Close has already run, so that the REAL
// reloadManager.startControlPlaneRetirement goroutine (MarkRetired, retireControlPlaneConnections, oldCancel,
// Close, close(done)) runs to its end without kernel objects and without spawning unmanaged goroutines.
func VerifC20RetiringPlane() *ControlPlane {
	c := &ControlPlane{}
	c.closeOnce.Do(func() {})
	return c
}
