//go:build verif

// Package dialerh: shared driver of checks C15/C16 — explicit-state BFS over operation histories on the REAL
// dialer / dialer-group objects (engine Q) with every history executed inside ONE vsched.Run (engine S: virtual
// clock, deterministic goroutines). A state IS a history: successor = fresh objects + replay + one more event;
// states are de-duplicated by the SHA-256 of the FULL private-state dump. Scenarios are independent BFS runs and
// are sharded over worker PROCESSES (re-exec of os.Args[0]) because the code under test keeps package globals.
package dialerh

import (
	"bufio"
	"crypto/sha256"
	"encoding/json"
	"flag"
	"fmt"
	"os"
	"os/exec"
	"sort"
	"strings"
	"sync"
	"time"

	"github.com/daeuniverse/dae/component/outbound/dialer"
	"github.com/daeuniverse/dae/verifx/vlib"
	"github.com/daeuniverse/dae/verifx/vsched"
)

var (
	fWorker   = flag.Int("dhworker", -1, "internal: run scenario #i as a worker process, print its JSON result")
	fDeadline = flag.Duration("dhdeadline", 0, "internal: per-worker exploration deadline")
	fOnly     = flag.String("dhonly", "", "debug: only scenarios whose name contains this substring")
	fHist     = flag.String("dhhist", "", "debug: execute one history 'scenario-substring:e1,e2,...' (event names) verbosely")
)

type Viol struct {
	Kind   string `json:"kind"`
	Sig    string `json:"sig"`
	Detail any    `json:"detail,omitempty"`
}

// StepResult is what executing one history (prefix silently, LAST event under the oracle) yields.
type StepResult struct {
	Key    string           // full dump of the reached state
	Skip   bool             // the last event is not applicable here: not a transition
	Viols  []Viol           // oracle verdicts about the last transition / reached state
	Obs    []string         // observation signatures (for the distinct-observation count)
	Counts map[string]int64 // named counters (statement-silent observations etc.)
}

func (s *StepResult) Count(name string, n int64) {
	if s.Counts == nil {
		s.Counts = map[string]int64{}
	}
	s.Counts[name] += n
}

func (s *StepResult) Violate(kind, sig string, detail any) {
	s.Viols = append(s.Viols, Viol{Kind: kind, Sig: sig, Detail: detail})
}

// Scenario: one closed configuration + alphabet.
// Prepare builds FRESH real objects (outside the scheduler: construction reads no clock) and returns
//   horizon: the virtual time the history itself consumes (timers due later never fire, so nothing runs after the body),
//   body:    the events, executed inside ONE vsched.Run on the virtual clock (may record pre-state observations),
//   finish:  read-only observation of the reached state + oracle + full dump, executed after the run (the shims are
//            the real primitives outside a managed thread; now = virtual time at the end of the history).
type Scenario struct {
	Name    string
	Events  []string
	Depth   int
	Weight  int // rough relative cost, heavier scenarios are started first
	Prepare func(hist []int, verbose bool) (horizon time.Duration, body func(), finish func(now int64) *StepResult)
}

type WorkerResult struct {
	Scenario    string           `json:"scenario"`
	States      int64            `json:"states"`
	Transitions int64            `json:"transitions"`
	Replays     int64            `json:"replays"`
	Retries     int64            `json:"clock_retries"`
	DepthDone   int              `json:"depth_done"`
	DepthWanted int              `json:"depth_wanted"`
	PerDepth    []int64          `json:"states_per_depth"`
	DistinctObs int              `json:"distinct_obs"`
	Viols       []Viol           `json:"viols"`
	ViolTotal   int64            `json:"viol_total"`
	Counts      map[string]int64 `json:"counts"`
	CapHit      string           `json:"cap_hit,omitempty"`
	Broken      string           `json:"broken,omitempty"`
	WallS       float64          `json:"wall_s"`
	EventsN     int              `json:"events"`
	Samples     []string         `json:"samples"`
}

var clockInterfered bool

var phase [3]time.Duration // debug: wall time in prepare / run / finish

// Sync must be called by Exec before every event (keeps cachedTimeNano on the virtual clock, detects foreign writes).
func Sync() {
	if dialer.VerifClockSync() {
		clockInterfered = true
	}
}

func HistString(sc *Scenario, hist []int) string {
	names := make([]string, len(hist))
	for i, e := range hist {
		names[i] = sc.Events[e]
	}
	return "[" + strings.Join(names, " ; ") + "]"
}

// runHistory executes one history: events inside ONE vsched.Run (default schedule), observation afterwards. A history
// during which the unmanaged real-time ticker of package dialer wrote cachedTimeNano is discarded and re-executed.
func runHistory(sc *Scenario, hist []int, verbose bool, wr *WorkerResult) *StepResult {
	for attempt := 0; attempt < 20; attempt++ {
		tp := time.Now()
		horizon, body, finish := sc.Prepare(hist, verbose)
		phase[0] += time.Since(tp)
		tp = time.Now()
		clockInterfered = false
		done := false
		r := vsched.Run(func() {
			dialer.VerifReset()
			body()
			if dialer.VerifClockInterfered() {
				clockInterfered = true
			}
			done = true
		}, vsched.Options{MaxSteps: 5_000_000, HorizonNs: int64(horizon) + 1})
		phase[1] += time.Since(tp)
		tp = time.Now()
		wr.Replays++
		panicked := func(msg string) *StepResult {
			site := vlib.PanicSite(msg)
			out := &StepResult{Key: "PANIC " + site}
			first := msg
			if i := strings.IndexByte(first, '\n'); i > 0 {
				first = first[:i]
			}
			out.Violate("panic", fmt.Sprintf("panic in code under test at %s (%s) | scenario=%s history=%s", site, first, sc.Name, HistString(sc, hist)), msg)
			return out
		}
		switch r.Status {
		case vsched.StPanic:
			return panicked(r.PanicMsg)
		case vsched.StHorizon, vsched.StDiverged:
			wr.Broken = fmt.Sprintf("scheduler status %d on history %s: %s", r.Status, HistString(sc, hist), r.PanicMsg)
			return &StepResult{Skip: true}
		}
		if !done {
			wr.Broken = fmt.Sprintf("history %s did not run to completion (blocked: %v; horizon %v too small?)", HistString(sc, hist), r.Blocked, horizon)
			return &StepResult{Skip: true}
		}
		if r.Leaked > 0 {
			wr.Broken = fmt.Sprintf("leaked threads on history %s", HistString(sc, hist))
		}
		if clockInterfered {
			wr.Retries++
			continue
		}
		var res *StepResult
		if p, msg := vlib.Try(func() { res = finish(r.Now) }); p {
			return panicked(msg)
		}
		phase[2] += time.Since(tp)
		return res
	}
	wr.Broken = "cachedTimeNano interference did not go away after 20 retries"
	return &StepResult{Skip: true}
}

const maxViolPerKind = 3

func explore(sc *Scenario, deadline time.Duration) *WorkerResult {
	t0 := time.Now()
	wr := &WorkerResult{Scenario: sc.Name, Counts: map[string]int64{}, DepthWanted: sc.Depth, EventsN: len(sc.Events)}
	visited := map[[16]byte]struct{}{}
	obs := map[[12]byte]struct{}{}
	perKind := map[string]int{}
	absorb := func(res *StepResult, hist []int) {
		for _, v := range res.Viols {
			wr.ViolTotal++
			if perKind[v.Kind] < maxViolPerKind {
				perKind[v.Kind]++
				wr.Viols = append(wr.Viols, v)
			}
		}
		for _, o := range res.Obs {
			h := sha256.Sum256([]byte(o))
			var k [12]byte
			copy(k[:], h[:12])
			obs[k] = struct{}{}
		}
		for k, n := range res.Counts {
			wr.Counts[k] += n
		}
	}
	keyOf := func(s string) [16]byte {
		h := sha256.Sum256([]byte(s))
		var k [16]byte
		copy(k[:], h[:16])
		return k
	}
	root := runHistory(sc, nil, false, wr)
	absorb(root, nil)
	visited[keyOf(root.Key)] = struct{}{}
	wr.States = 1
	wr.PerDepth = []int64{1}
	frontier := [][]uint8{{}}
	hist := make([]int, 0, sc.Depth+1)
outer:
	for depth := 1; depth <= sc.Depth && len(frontier) > 0 && wr.Broken == ""; depth++ {
		var next [][]uint8
		for _, h := range frontier {
			if deadline > 0 && time.Since(t0) > deadline {
				wr.CapHit = fmt.Sprintf("%s: worker deadline %v hit inside depth %d (depth %d complete)", sc.Name, deadline, depth, depth-1)
				break outer
			}
			for e := range sc.Events {
				hist = hist[:0]
				for _, x := range h {
					hist = append(hist, int(x))
				}
				hist = append(hist, e)
				res := runHistory(sc, hist, false, wr)
				if wr.Broken != "" {
					break outer
				}
				if res.Skip {
					continue
				}
				wr.Transitions++
				absorb(res, hist)
				k := keyOf(res.Key)
				if _, ok := visited[k]; !ok {
					visited[k] = struct{}{}
					wr.States++
					nh := make([]uint8, len(h)+1)
					copy(nh, h)
					nh[len(h)] = uint8(e)
					next = append(next, nh)
				}
			}
		}
		wr.PerDepth = append(wr.PerDepth, int64(len(next)))
		wr.DepthDone = depth
		if len(next) > 0 {
			hs := make([]int, 0, depth)
			for _, x := range next[len(next)/2] {
				hs = append(hs, int(x))
			}
			wr.Samples = append(wr.Samples, sc.Name+" "+HistString(sc, hs))
		}
		frontier = next
	}
	if wr.CapHit == "" && wr.Broken == "" && wr.DepthDone < sc.Depth {
		wr.DepthDone = sc.Depth // frontier emptied: the reachable space is closed below the bound
	}
	wr.DistinctObs = len(obs)
	wr.WallS = time.Since(t0).Seconds()
	return wr
}

// Plan of one check.
type Plan struct {
	ID             string
	Rule           string
	Scenarios      func(thorough bool) []*Scenario
	Assumptions    []string
	BudgetQuick    time.Duration // per-worker exploration deadline
	BudgetThorough time.Duration
	SilentCounters map[string]string // counter name -> explanation (statement-silent observation classes)
}

// Main is the entry point of both checks: master (spawns one worker process per scenario, at most NumCPU at a
// time, aggregates, writes evidence through vlib) or worker (-dhworker i).
func Main(p *Plan) {
	if !flag.Parsed() {
		flag.Parse()
	}
	if *fWorker >= 0 {
		tier := flag.Lookup("tier").Value.String()
		scs := p.Scenarios(tier == "thorough")
		if *fWorker >= len(scs) {
			fmt.Fprintln(os.Stderr, "bad worker index")
			os.Exit(2)
		}
		wr := explore(scs[*fWorker], *fDeadline)
		if os.Getenv("VERIF_PHASES") != "" {
			fmt.Fprintf(os.Stderr, "phases prepare=%v run=%v finish=%v\n", phase[0], phase[1], phase[2])
		}
		b, _ := json.Marshal(wr)
		w := bufio.NewWriter(os.Stdout)
		w.Write(b)
		w.WriteByte('\n')
		w.Flush()
		os.Exit(0)
	}
	r := vlib.Start(p.ID, "model_checking")
	scs := p.Scenarios(r.Thorough())
	if *fHist != "" {
		debugHistory(scs, *fHist)
		os.Exit(0)
	}
	r.Rule(p.Rule)
	deadline := r.Budget(p.BudgetQuick, p.BudgetThorough)
	t0 := time.Now()

	order := make([]int, 0, len(scs))
	for i, sc := range scs {
		if *fOnly != "" && !strings.Contains(sc.Name, *fOnly) {
			continue
		}
		order = append(order, i)
	}
	sort.SliceStable(order, func(a, b int) bool { return scs[order[a]].Weight > scs[order[b]].Weight })
	results := make([]*WorkerResult, len(scs))
	errs := make([]string, len(scs))
	var mu sync.Mutex
	next := 0
	var wg sync.WaitGroup
	workers := r.Workers
	if workers > len(order) {
		workers = len(order)
	}
	tier := "quick"
	if r.Thorough() {
		tier = "thorough"
	}
	for w := 0; w < workers; w++ {
		wg.Add(1)
		go func() {
			defer wg.Done()
			for {
				mu.Lock()
				if next >= len(order) {
					mu.Unlock()
					return
				}
				i := order[next]
				next++
				mu.Unlock()
				// the budget is global: a worker started late gets what is left (at least 5s, so that shallow levels always run)
				left := deadline - time.Since(t0)
				if left < 5*time.Second {
					left = 5 * time.Second
				}
				cmd := exec.Command(os.Args[0], "-tier", tier, "-dhworker", fmt.Sprint(i), "-dhdeadline", left.String())
				cmd.Stderr = os.Stderr
				// one logical thread per worker: a single P makes the scheduler's goroutine hand-offs direct
				cmd.Env = append(os.Environ(), "GOMAXPROCS=1")
				out, err := cmd.Output()
				if err != nil {
					errs[i] = fmt.Sprintf("worker %s: %v", scs[i].Name, err)
					continue
				}
				var wr WorkerResult
				if err := json.Unmarshal(out, &wr); err != nil {
					errs[i] = fmt.Sprintf("worker %s: bad result: %v", scs[i].Name, err)
					continue
				}
				results[i] = &wr
			}
		}()
	}
	wg.Wait()
	var states, trans, replays, retries, dobs int64
	minDepth, maxDepth := 1<<30, 0
	silent := map[string]int64{}
	type scSum struct {
		Name        string  `json:"scenario"`
		Events      int     `json:"events"`
		Depth       int     `json:"depth_completed"`
		States      int64   `json:"states"`
		Transitions int64   `json:"transitions"`
		Obs         int     `json:"distinct_observations"`
		WallS       float64 `json:"wall_s"`
	}
	var sums []scSum
	for _, i := range order {
		if errs[i] != "" {
			fmt.Fprintln(os.Stderr, errs[i])
			os.Exit(2)
		}
		wr := results[i]
		if wr.Broken != "" {
			fmt.Fprintf(os.Stderr, "%s: scenario %s broken: %s\n", p.ID, wr.Scenario, wr.Broken)
			os.Exit(2)
		}
		states += wr.States
		trans += wr.Transitions
		replays += wr.Replays
		retries += wr.Retries
		dobs += int64(wr.DistinctObs)
		if wr.DepthDone < minDepth {
			minDepth = wr.DepthDone
		}
		if wr.DepthDone > maxDepth {
			maxDepth = wr.DepthDone
		}
		if wr.CapHit != "" {
			r.CapHit(wr.CapHit)
		}
		for _, v := range wr.Viols {
			r.Violation(v.Sig, map[string]any{"scenario": wr.Scenario, "kind": v.Kind, "detail": v.Detail})
		}
		for k, n := range wr.Counts {
			silent[k] += n
		}
		sums = append(sums, scSum{wr.Scenario, wr.EventsN, wr.DepthDone, wr.States, wr.Transitions, wr.DistinctObs, wr.WallS})
	}
	if len(order) == 0 {
		fmt.Fprintln(os.Stderr, "no scenario selected")
		os.Exit(2)
	}
	r.Set("states", states)
	r.Set("transitions", trans)
	r.Set("traces_validated_against_impl", replays)
	r.Set("scenarios", len(order))
	r.Set("depth_completed_min", minDepth)
	r.Set("depth_completed_max", maxDepth)
	r.Set("distinct_observations", dobs)
	r.Set("clock_interference_retries", retries)
	r.Set("per_scenario", sums)
	var names []string
	for k := range silent {
		names = append(names, k)
	}
	sort.Strings(names)
	for _, k := range names {
		r.Set("n_"+k, silent[k])
	}
	for _, i := range order {
		if n := len(results[i].Samples); n > 0 {
			r.Sample(results[i].Samples[n-1])
		}
	}
	r.Set("evaluations", replays)
	r.Set("distinct_nontrivial", dobs)
	for _, a := range p.Assumptions {
		r.Assume(a)
	}
	for _, k := range names {
		if why, ok := p.SilentCounters[k]; ok && silent[k] > 0 {
			r.Assume(fmt.Sprintf("statement-silent observation class %q seen %d times, not judged: %s", k, silent[k], why))
		}
	}
	r.Finish()
}

func debugHistory(scs []*Scenario, spec string) {
	i := strings.IndexByte(spec, ':')
	if i < 0 {
		fmt.Println("want scenario-substring:e1,e2,...")
		return
	}
	for _, sc := range scs {
		if !strings.Contains(sc.Name, spec[:i]) {
			continue
		}
		var hist []int
		for _, name := range strings.Split(spec[i+1:], ",") {
			name = strings.TrimSpace(name)
			if name == "" {
				continue
			}
			found := -1
			for j, e := range sc.Events {
				if e == name {
					found = j
				}
			}
			if found < 0 {
				fmt.Printf("scenario %s has no event %q; events: %v\n", sc.Name, name, sc.Events)
				return
			}
			hist = append(hist, found)
		}
		fmt.Printf("scenario %s history %s\n", sc.Name, HistString(sc, hist))
		wr := &WorkerResult{Counts: map[string]int64{}}
		for n := 0; n <= len(hist); n++ {
			res := runHistory(sc, hist[:n], n == len(hist), wr)
			fmt.Printf("  after %d events: skip=%v key=%s\n", n, res.Skip, res.Key)
			for _, v := range res.Viols {
				fmt.Printf("    VIOL %s: %s\n", v.Kind, v.Sig)
			}
			for k, c := range res.Counts {
				fmt.Printf("    count %s=%d\n", k, c)
			}
		}
		return
	}
	fmt.Println("no scenario matches")
}
