package vroute

import "fmt"

// Space is a finite, completely enumerable, indexable set of programs: At(i) for 0 <= i < Len() yields
// every program exactly once, deterministically (no sampling anywhere).
type Space struct {
	Name  string
	Descr string
	n     int
	at    func(i int) *Program
}

func (s *Space) Len() int          { return s.n }
func (s *Space) At(i int) *Program { return s.at(i) }

// Concat joins spaces (enumerated one after the other).
func Concat(name string, parts ...*Space) *Space {
	total := 0
	descr := ""
	for i, p := range parts {
		total += p.n
		if i > 0 {
			descr += " + "
		}
		descr += fmt.Sprintf("%s[%d]", p.Name, p.n)
	}
	return &Space{Name: name, Descr: descr, n: total, at: func(i int) *Program {
		for _, p := range parts {
			if i < p.n {
				return p.at(i)
			}
			i -= p.n
		}
		panic("vroute: index out of range")
	}}
}

// ---------------------------------------------------------------------------------------------------
// Tier 1 alphabets: per-function boundary values.

func bare(vs ...string) []Param {
	out := make([]Param, len(vs))
	for i, v := range vs {
		out[i] = Param{Val: v}
	}
	return out
}

// singles then all pairs i<j.
func singlesAndPairs(vals []Param) [][]Param {
	var out [][]Param
	for _, v := range vals {
		out = append(out, []Param{v})
	}
	for i := range vals {
		for j := i + 1; j < len(vals); j++ {
			out = append(out, []Param{vals[i], vals[j]})
		}
	}
	return out
}

const (
	Pname15 = "abcdefghijklmno"   // 15 bytes
	Pname16 = "abcdefghijklmnop"  // 16 bytes
	Pname17 = "abcdefghijklmnopq" // 17 bytes: only its first 16 bytes are compared
	MacZero = "00:00:00:00:00:00"
	MacA    = "02:42:ac:11:00:02"
	MacB    = "ff:ff:ff:ff:ff:ff"
)

// IPv4 /0 /1 /8 /31 /32(bare), IPv6 /0 /7 /127 /128, IPv4-mapped literal.
var t1IPVals = bare("0.0.0.0/0", "128.0.0.0/1", "10.0.0.0/8", "10.1.2.2/31", "10.1.2.3",
	"::/0", "fe00::/7", "2001:db8::/127", "2001:db8::1/128", "::ffff:10.1.2.3")
var t1PortVals = bare("0", "1", "79-81", "65535", "0-65535")
var t1MacVals = bare(MacZero, MacA, MacB)
var t1PnameVals = bare(Pname15, Pname16, Pname17, "curl")
var t1DscpVals = bare("0", "63", "0x4")
var t1DomainVals = []Param{
	{"suffix", "example.com"}, {"suffix", ".example.com"}, {"", "test.org"}, {"domain", "test.org"},
	{"full", "example.com"}, {"full", "www.test.org"}, {"keyword", "xampl"}, {"contains", "est.o"},
	{"regex", `^www\.`}, {"regex", `ple\.com$`},
}

type funcSets struct {
	fn   string
	sets [][]Param
}

// every function (and every alias spelling) with all its 1- and 2-value sets
func tier1FullAlphabet() []funcSets {
	return []funcSets{
		{"domain", singlesAndPairs(t1DomainVals)},
		{"dip", singlesAndPairs(t1IPVals)},
		{"ip", [][]Param{bare("10.0.0.0/8"), bare("::/0"), bare("10.1.2.3", "2001:db8::1/128")}},
		{"sip", singlesAndPairs(t1IPVals)},
		{"dport", singlesAndPairs(t1PortVals)},
		{"port", [][]Param{bare("79-81"), bare("0", "65535")}},
		{"sport", singlesAndPairs(t1PortVals)},
		{"l4proto", [][]Param{bare("tcp"), bare("udp"), bare("tcp", "udp")}},
		{"ipversion", [][]Param{bare("4"), bare("6"), bare("4", "6")}},
		{"mac", singlesAndPairs(t1MacVals)},
		{"pname", singlesAndPairs(t1PnameVals)},
		{"dscp", singlesAndPairs(t1DscpVals)},
	}
}

// the reduced alphabet for two-condition rules: per function one 1-value and one 2-value set
func tier1PairAlphabet() []funcSets {
	return []funcSets{
		{"domain", [][]Param{{{"suffix", "example.com"}}, {{"full", "www.test.org"}, {"keyword", "xampl"}}}},
		{"dip", [][]Param{bare("10.1.2.2/31"), bare("10.0.0.0/8", "2001:db8::/127")}},
		{"sip", [][]Param{bare("10.1.2.3"), bare("128.0.0.0/1", "::/0")}},
		{"dport", [][]Param{bare("79-81"), bare("0", "65535")}},
		{"sport", [][]Param{bare("1"), bare("79-81", "65535")}},
		{"l4proto", [][]Param{bare("tcp"), bare("tcp", "udp")}},
		{"ipversion", [][]Param{bare("6"), bare("4", "6")}},
		{"mac", [][]Param{bare(MacA), bare(MacZero, MacB)}},
		{"pname", [][]Param{bare(Pname16), bare(Pname15, Pname17)}},
		{"dscp", [][]Param{bare("63"), bare("0", "0x4")}},
	}
}

func condsOf(alpha []funcSets) []Cond {
	var out []Cond
	for _, fs := range alpha {
		for _, set := range fs.sets {
			for _, not := range []bool{false, true} {
				out = append(out, Cond{Func: fs.fn, Not: not, Params: set})
			}
		}
	}
	return out
}

// Tier1Outbounds and Tier1Fallbacks are the outbound alphabets of tier 1.
var Tier1Outbounds = []string{"direct", "block", "g1", "g1(mark:0x12345678)", "must_g1", "must_rules", "g2(must)"}
var Tier1Fallbacks = []string{"direct", "g2", "must_g1"}

// Tier1FallbacksOneCond: the one-condition forms additionally get a fallback in function form (mark parameter).
var Tier1FallbacksOneCond = []string{"direct", "g2", "must_g1", "g2(mark:0x9)"}

// Tier1 is the single-rule tier:
//
//	(a) one condition: every function and alias spelling x every 1- or 2-value set of its boundary alphabet x '!' on/off
//	(b) two '&&'-joined conditions: every ordered pair over the reduced alphabet (per function one 1-value and
//	    one 2-value set, '!' on/off), including the same function twice
//
// each x Tier1Outbounds x Tier1Fallbacks ((a) also with a function-form fallback: Tier1FallbacksOneCond).
func Tier1() *Space {
	one := condsOf(tier1FullAlphabet())
	two := condsOf(tier1PairAlphabet())
	nOut, nFb := len(Tier1Outbounds), len(Tier1Fallbacks)
	nFb1 := len(Tier1FallbacksOneCond)
	a := &Space{Name: "t1/1cond", n: len(one) * nOut * nFb1, at: func(i int) *Program {
		fb := i % nFb1
		i /= nFb1
		ob := i % nOut
		i /= nOut
		return &Program{Tier: 1, Label: "t1/1cond", Fallback: Tier1FallbacksOneCond[fb],
			Rules: []Rule{{Conds: []Cond{one[i]}, Out: Tier1Outbounds[ob]}}}
	}}
	b := &Space{Name: "t1/2cond", n: len(two) * len(two) * nOut * nFb, at: func(i int) *Program {
		fb := i % nFb
		i /= nFb
		ob := i % nOut
		i /= nOut
		c2 := i % len(two)
		c1 := i / len(two)
		return &Program{Tier: 1, Label: "t1/2cond", Fallback: Tier1Fallbacks[fb],
			Rules: []Rule{{Conds: []Cond{two[c1], two[c2]}, Out: Tier1Outbounds[ob]}}}
	}}
	s := Concat("tier1", a, b)
	s.Descr = fmt.Sprintf("single rule: %d one-condition forms x %d outbounds x %d fallbacks + %d^2 ordered two-condition forms x %d outbounds x %d fallbacks", len(one), nOut, nFb1, len(two), nOut, nFb)
	return s
}

// ---------------------------------------------------------------------------------------------------
// Tier 2: interaction programs over three atoms.

// Atom is a propositional atom realised by a concrete condition, in a single-valued and a multi-valued form.
type Atom struct {
	Func   string
	Single []Param
	Multi  []Param
}

// Rotations: four assignments of functions to the atoms A, B, C so that each of the ten functions (and the
// ip alias) serves as an atom. The three conditions of one rotation test independent packet fields.
var Rotations = [][3]Atom{
	{
		{"dip", bare("10.0.0.1"), bare("10.0.0.1", "10.0.0.3")},
		{"dport", bare("80"), bare("80", "82-83")},
		{"l4proto", bare("tcp"), bare("tcp", "udp")},
	},
	{
		{"domain", []Param{{"suffix", "example.com"}}, []Param{{"full", "www.test.org"}, {"keyword", "xampl"}}},
		{"sip", bare("192.168.1.2"), bare("192.168.1.2", "2001:db8::2")},
		{"sport", bare("40000"), bare("40000", "40002-40003")},
	},
	{
		{"mac", bare(MacA), bare(MacA, "02:42:ac:11:00:04")},
		{"dscp", bare("4"), bare("4", "6")},
		{"ipversion", bare("4"), bare("6", "4")},
	},
	{
		{"pname", bare("curl"), bare("curl", Pname16)},
		{"ip", bare("2001:db8::/127"), bare("2001:db8::/127", "10.0.0.0/31")},
		{"l4proto", bare("udp"), bare("udp", "tcp")},
	},
}

// Tier2Outbounds: the 5-symbol outbound alphabet of tier 2; Tier2OutboundsSmall the 3-symbol one used for the
// 3-rule space; Tier2Fallback is fixed and distinct from all of them.
var Tier2Outbounds = []string{"direct", "g1", "g2(mark:0x7)", "must_g1", "must_rules"}
var Tier2OutboundsSmall = []string{"g1", "must_g2", "must_rules"}

const Tier2Fallback = "block"

// conjunction k in [0,26): digit d of (k+1) in base 3 for atom A,B,C: 0 absent, 1 positive, 2 negated.
func tier2Rule(atoms [3]Atom, conj int, multi bool, out string) Rule {
	k := conj + 1
	var r Rule
	for a := 0; a < 3; a++ {
		d := k % 3
		k /= 3
		if d == 0 {
			continue
		}
		at := atoms[a]
		ps := at.Single
		if multi {
			ps = at.Multi
		}
		r.Conds = append(r.Conds, Cond{Func: at.Func, Not: d == 2, Params: ps})
	}
	r.Out = out
	return r
}

// Tier2 enumerates, for every rotation, all programs of exactly nRules rules where a rule is any non-empty
// conjunction of {A,!A,B,!B,C,!C} (26) x outbound, with realisation single/multi:
//
//	perRuleRealisation=true : chosen per rule    -> (26*2*len(outs))^nRules programs per rotation
//	perRuleRealisation=false: chosen per program -> 2*(26*len(outs))^nRules programs per rotation
//
// outs is the outbound alphabet (Tier2Outbounds or Tier2OutboundsSmall). The fallback is Tier2Fallback.
func Tier2(nRules int, perRuleRealisation bool, outs []string) *Space {
	return Tier2Over(Rotations, nRules, perRuleRealisation, outs)
}

// RotationMacIP puts mac() into one program with sip() and dip(): MAC sets and CIDR sets share the builder's
// LPM set table, so their order of first occurrence across rules matters.
var RotationMacIP = [3]Atom{
	{"mac", bare("02:42:ac:11:00:06"), bare("02:42:ac:11:00:06", "02:42:ac:11:00:08")},
	{"sip", bare("10.0.0.0/8"), bare("10.0.0.0/8", "192.168.0.0/16")},
	{"dip", bare("203.0.113.0/24"), bare("203.0.113.0/24", "2001:db8:1::/64")},
}

// AllRotations = Rotations + RotationMacIP (Rotations itself is kept as it is for its existing users).
func AllRotations() [][3]Atom {
	return append(append([][3]Atom(nil), Rotations...), RotationMacIP)
}

// Tier2Over is Tier2 over an explicit list of rotations.
func Tier2Over(rotations [][3]Atom, nRules int, perRuleRealisation bool, outs []string) *Space {
	nOut := len(outs)
	base := 26 * nOut
	if perRuleRealisation {
		base *= 2
	}
	per := 1
	for k := 0; k < nRules; k++ {
		per *= base
	}
	if !perRuleRealisation {
		per *= 2
	}
	label := fmt.Sprintf("t2/%drules", nRules)
	return &Space{Name: label, n: per * len(rotations),
		Descr: fmt.Sprintf("%d rotations x programs of exactly %d rules over 26 conjunctions x %d outbounds, realisation per %s", len(rotations), nRules, nOut, map[bool]string{true: "rule", false: "program"}[perRuleRealisation]),
		at: func(i int) *Program {
			rot := i / per
			i %= per
			p := &Program{Tier: 2, Label: fmt.Sprintf("%s/rot%d", label, rot), Fallback: Tier2Fallback}
			progMulti := false
			if !perRuleRealisation {
				progMulti = i%2 == 1
				i /= 2
			}
			rules := make([]Rule, nRules)
			for k := nRules - 1; k >= 0; k-- {
				d := i % base
				i /= base
				multi := progMulti
				if perRuleRealisation {
					multi = d%2 == 1
					d /= 2
				}
				rules[k] = tier2Rule(rotations[rot], d/nOut, multi, outs[d%nOut])
			}
			p.Rules = rules
			return p
		}}
}

// ---------------------------------------------------------------------------------------------------
// Tier 3: optimizer-facing programs (for the legs that run the production optimizer chain).

// Tier3Outbounds is the outbound alphabet of tier 3; the fallback is Tier2Fallback ("block").
var Tier3Outbounds = []string{"g1", "g2", "direct", "must_g1", "g1(mark:0x7)"}

// Tier3Values: per function three different single values (nValues of Tier3 selects the first 2 or all 3).
var Tier3Values = []struct {
	Func string
	Vals []Param
}{
	{"domain", []Param{{"full", "a.example"}, {"full", "b.example"}, {"full", "c.example"}}},
	{"dip", bare("10.0.0.1", "10.0.0.2", "10.0.0.3")},
	{"dport", bare("80", "443", "8080")},
}

// Tier3 enumerates all programs of exactly nRules rules where every rule is ONE condition [!]f(v), f in
// {domain(full:), dip, dport}, v one of the first nValues (2 or 3) values of f, x Tier3Outbounds:
// (3*nValues*2*5)^nRules programs. Neighbouring rules therefore share or differ in function, value, negation,
// outbound name, mark and must in every combination - the triggers of rule merging/sorting/de-duplication.
func Tier3(nRules, nValues int) *Space {
	var rules []Rule
	for _, f := range Tier3Values {
		for _, v := range f.Vals[:nValues] {
			for _, not := range []bool{false, true} {
				for _, out := range Tier3Outbounds {
					rules = append(rules, Rule{Conds: []Cond{{Func: f.Func, Not: not, Params: []Param{v}}}, Out: out})
				}
			}
		}
	}
	base := len(rules)
	n := 1
	for k := 0; k < nRules; k++ {
		n *= base
	}
	label := fmt.Sprintf("t3/%drules", nRules)
	return &Space{Name: label, n: n,
		Descr: fmt.Sprintf("all programs of exactly %d single-condition rules [!]f(v), f in {domain(full:),dip,dport}, %d values each, x %d outbounds (%d rule forms)", nRules, nValues, len(Tier3Outbounds), base),
		at: func(i int) *Program {
			p := &Program{Tier: 3, Label: label, Fallback: Tier2Fallback, Rules: make([]Rule, nRules)}
			for k := nRules - 1; k >= 0; k-- {
				p.Rules[k] = rules[i%base]
				i /= base
			}
			return p
		}}
}
