// C10 — The kernel's address-to-domain table always mirrors the live DNS cache.
//
// Two layers, both on the real code, both explicit-state BFS over operation histories (state = history, successor
// = fresh instance + replay + one more operation, states merged by an exact dump of the tracker's private state +
// the shadow kernel table (+ the cache dump in layer b)):
//
//	(a) the tracker behind controlPlaneCore.BatchUpdateDomainRouting / BatchRemoveDomainRouting (the two callbacks of
//	    the production DnsController option), owners x bitmaps x address sets;
//	(b) the real DnsController with the production callbacks bound to a real controlPlaneCore, driven through
//	    HandleWithResponseWriter_ with a scripted upstream on the virtual clock (insert, refresh with other
//	    addresses, replace, expire + janitor, reject, LRU eviction; bpf-update worker and evictor settled after
//	    every operation).
//
// The kernel table is the fold of every (update keys, values, delete keys) batch syncOwner issues.
// Oracle after EVERY operation: for every address, table[address] (absent == all-zero) == OR of the domain bitmaps
// of the live cache entries that list it, and the table has no entry for an address no live entry lists.
package main

import (
	"bytes"
	"crypto/sha256"
	"encoding/json"
	"flag"
	"fmt"
	"net/netip"
	"os"
	"os/exec"
	"sort"
	"strings"
	"sync"
	"time"

	"github.com/daeuniverse/dae/control"
	"github.com/daeuniverse/dae/verifx/vlib"
	"github.com/daeuniverse/dae/verifx/vsched"
	"github.com/daeuniverse/dae/verifx/vtime"
)

var (
	addrX4 = netip.MustParseAddr("192.0.2.10")
	addrY4 = netip.MustParseAddr("192.0.2.20")
	addrZ4 = netip.MustParseAddr("0.0.0.0")
	addrX6 = netip.MustParseAddr("2001:db8::10")
	addrY6 = netip.MustParseAddr("2001:db8::20")
	addrZ6 = netip.MustParseAddr("::")
)

type bitmap = [32]uint32

func bmString(b bitmap) string { return control.VerifBitmapString(b[:]) }

func orInto(dst *bitmap, src bitmap) {
	for i := range dst {
		dst[i] |= src[i]
	}
}

func isZero(b bitmap) bool { return b == bitmap{} }

// expectedTable: the reference — a plain fold over the live entries, written from the statement.
// Unspecified addresses (0.0.0.0, ::) are "no address": they never belong in the table.
type liveEntry struct {
	Name   string
	Addrs  []netip.Addr
	Bitmap bitmap
}

func expectedTable(live []liveEntry) (want map[netip.Addr]bitmap, listed map[netip.Addr]bool) {
	want = map[netip.Addr]bitmap{}
	listed = map[netip.Addr]bool{}
	for _, e := range live {
		for _, a := range e.Addrs {
			if a.IsUnspecified() {
				continue
			}
			listed[a] = true
			b := want[a]
			orInto(&b, e.Bitmap)
			want[a] = b
		}
	}
	return
}

func compareTable(table map[netip.Addr][32]uint32, live []liveEntry) string {
	want, listed := expectedTable(live)
	var addrs []netip.Addr
	seen := map[netip.Addr]bool{}
	for a := range table {
		if !seen[a] {
			seen[a] = true
			addrs = append(addrs, a)
		}
	}
	for a := range want {
		if !seen[a] {
			seen[a] = true
			addrs = append(addrs, a)
		}
	}
	sort.Slice(addrs, func(i, j int) bool { return addrs[i].Less(addrs[j]) })
	for _, a := range addrs {
		got, present := table[a]
		if present && !listed[a] {
			return fmt.Sprintf("the kernel table holds %s=%s but no live cache entry lists that address", a, bmString(got))
		}
		if got != want[a] {
			who := []string{}
			for _, e := range live {
				for _, x := range e.Addrs {
					if x == a {
						who = append(who, e.Name+":"+bmString(e.Bitmap))
					}
				}
			}
			g := bmString(got)
			if !present {
				g = "no entry"
			}
			return fmt.Sprintf("kernel table for %s is %s, the live entries listing it are %v (union %s)", a, g, who, bmString(want[a]))
		}
	}
	return ""
}

// =====================================================================================================================
// layer (a)
// =====================================================================================================================

type aOp struct {
	Owner  int  `json:"owner"`
	Remove bool `json:"remove,omitempty"`
	Bm     int  `json:"bitmap"`  // 0: zero, 1: {bit 0}, 2: {bit 33}
	Set    int  `json:"addrset"` // bit 0: x (IPv4), bit 1: y (IPv6), bit 2: 0.0.0.0
}

var aBitmaps = func() []bitmap {
	var b1, b2 bitmap
	b1[0] = 1
	b2[1] = 2
	return []bitmap{{}, b1, b2}
}()

func aAddrs(set int) []netip.Addr {
	var out []netip.Addr
	if set&4 != 0 {
		out = append(out, addrZ4) // unspecified first: position must not matter
	}
	if set&1 != 0 {
		out = append(out, addrX4)
	}
	if set&2 != 0 {
		out = append(out, addrY6)
	}
	return out
}

func (o aOp) String() string {
	if o.Remove {
		return fmt.Sprintf("remove(o%d)", o.Owner+1)
	}
	var s []string
	for _, a := range aAddrs(o.Set) {
		s = append(s, a.String())
	}
	return fmt.Sprintf("sync(o%d,%s,{%s})", o.Owner+1, bmString(aBitmaps[o.Bm]), strings.Join(s, ","))
}

func aHist(h []aOp) string {
	s := make([]string, len(h))
	for i, o := range h {
		s[i] = o.String()
	}
	return "[" + strings.Join(s, "; ") + "]"
}

func aAlphabet() []aOp {
	var ops []aOp
	for o := 0; o < 3; o++ {
		for bm := 0; bm < 3; bm++ {
			for set := 0; set < 8; set++ {
				ops = append(ops, aOp{Owner: o, Bm: bm, Set: set})
			}
		}
		ops = append(ops, aOp{Owner: o, Remove: true})
	}
	return ops
}

func aCanonical(h []aOp) bool { // owners are interchangeable: o2 only after o1, o3 only after o2
	next := 0
	for _, o := range h {
		if o.Owner > next {
			return false
		}
		if o.Owner == next {
			next++
		}
	}
	return true
}

type aOut struct {
	viol  string
	key   string
	class string
}

// aRun replays a history on a fresh tracker; the invariant is evaluated after every operation, reported for the last.
func aRun(h []aOp) (out aOut) {
	env := control.VerifNewTrackerEnv()
	type own struct {
		bm    bitmap
		addrs []netip.Addr
	}
	live := map[int]own{}
	for i, op := range h {
		var err error
		prev, had := live[op.Owner]
		before := env.Table.Batches
		if op.Remove {
			// the delete callback is handed the entry being deleted
			err = env.Remove(fmt.Sprintf("o%d", op.Owner+1), prev.bm, prev.addrs)
			delete(live, op.Owner)
		} else {
			err = env.Sync(fmt.Sprintf("o%d", op.Owner+1), aBitmaps[op.Bm], aAddrs(op.Set))
			live[op.Owner] = own{aBitmaps[op.Bm], aAddrs(op.Set)}
		}
		_ = had
		if i == len(h)-1 {
			if err != nil {
				out.viol = "callback returned an error: " + err.Error()
				return
			}
			var ls []liveEntry
			for o := 0; o < 3; o++ {
				if e, ok := live[o]; ok {
					ls = append(ls, liveEntry{Name: fmt.Sprintf("o%d", o+1), Addrs: e.addrs, Bitmap: e.bm})
				}
			}
			out.viol = compareTable(env.Table.M, ls)
			out.class = "quiet"
			if env.Table.Batches > before {
				out.class = "batch"
			}
			var sb strings.Builder
			for o := 0; o < 3; o++ {
				if e, ok := live[o]; ok {
					fmt.Fprintf(&sb, "R[o%d]=%s%v;", o+1, bmString(e.bm), e.addrs)
				}
			}
			// owners are interchangeable: the key is the smallest rendering over all renamings of o1..o3
			full := env.Dump() + "#" + sb.String()
			best := ""
			for _, perm := range [][3]string{{"o1", "o2", "o3"}, {"o1", "o3", "o2"}, {"o2", "o1", "o3"}, {"o2", "o3", "o1"}, {"o3", "o1", "o2"}, {"o3", "o2", "o1"}} {
				t := strings.NewReplacer("o1", "\x01", "o2", "\x02", "o3", "\x03").Replace(full)
				t = strings.NewReplacer("\x01", perm[0], "\x02", perm[1], "\x03", perm[2]).Replace(t)
				t = sortedParts(t)
				if best == "" || t < best {
					best = t
				}
			}
			hh := sha256.Sum256([]byte(best + "#" + env.Table.String()))
			out.key = string(hh[:16])
		}
	}
	return
}

// sortedParts re-sorts the ';'-separated items of each '#'-separated section (renaming owners changes their order).
func sortedParts(s string) string {
	secs := strings.Split(s, "#")
	for i, sec := range secs {
		items := strings.Split(sec, ";")
		for j, it := range items {
			// owner lists inside an I[...] item: "I[addr]={..}[o1:{0} o2:{33}]"
			if k := strings.LastIndex(it, "["); k > 0 && strings.HasPrefix(it, "I[") && strings.HasSuffix(it, "]") {
				inner := strings.Fields(it[k+1 : len(it)-1])
				sort.Strings(inner)
				items[j] = it[:k+1] + strings.Join(inner, " ") + "]"
			}
		}
		sort.Strings(items)
		secs[i] = strings.Join(items, ";")
	}
	return strings.Join(secs, "#")
}

type layerAResult struct {
	States, Execs int64
	Levels        []map[string]any
	Fixpoint      bool
	DepthDone     int
	Batches       int64
}

func layerA(r *vlib.Run, maxDepth int) layerAResult {
	var res layerAResult
	alpha := aAlphabet()
	seen := map[string]bool{}
	root := aRun(nil)
	_ = root
	frontier := [][]aOp{nil}
	nviol := 0
	for d := 1; d <= maxDepth; d++ {
		var next [][]aOp
		var execs, news int64
		for _, h0 := range frontier {
			for _, op := range alpha {
				h := append(append([]aOp(nil), h0...), op)
				if !aCanonical(h) {
					continue
				}
				var out aOut
				if pk, msg := vlib.Try(func() { out = aRun(h) }); pk {
					out.viol = "panic at " + vlib.PanicSite(msg) + ": " + firstLine(msg)
				}
				execs++
				if out.class == "batch" {
					res.Batches++
				}
				if out.viol != "" {
					nviol++
					if nviol <= 6 {
						r.Violation("layer=tracker history="+aHist(h)+": "+out.viol, map[string]any{"layer": "tracker", "history": h})
					}
					continue
				}
				if seen[out.key] {
					continue
				}
				seen[out.key] = true
				news++
				r.Distinct("a:" + out.key)
				if len(h) == 3 && news%997 == 1 {
					r.Sample(map[string]any{"layer": "tracker", "history": aHist(h)})
				}
				next = append(next, h)
			}
		}
		res.Execs += execs
		res.States += news
		res.Levels = append(res.Levels, map[string]any{"depth": d, "executions": execs, "new_states": news})
		res.DepthDone = d
		frontier = next
		if len(frontier) == 0 {
			res.Fixpoint = true
			break
		}
	}
	return res
}

// =====================================================================================================================
// layer (b)
// =====================================================================================================================

const (
	epoch   = int64(1_700_000_000_000_000_000)
	latency = 5 * time.Millisecond
	upTtl   = 20
)

type Cfg struct {
	Opt bool `json:"optimistic_cache"`
	Ttl int  `json:"optimistic_cache_ttl"`
	Max int  `json:"max_cache_size"`
}

func (c Cfg) String() string {
	return fmt.Sprintf("optimistic_cache=%v optimistic_cache_ttl=%d max_cache_size=%d", c.Opt, c.Ttl, c.Max)
}

func bCfgs() []Cfg {
	return []Cfg{{true, 0, 2}, {false, 60, 0}, {true, 60, 0}, {true, 60, 2}}
}

type bOp struct {
	Kind  string `json:"op"` // ask | put | rej | ans | adv | jan
	Name  string `json:"name,omitempty"`
	Qtype uint16 `json:"qtype,omitempty"`
	Scope string `json:"scope,omitempty"`
	Ans   int    `json:"answer_set,omitempty"`
	Dur   int64  `json:"advance_ns,omitempty"`
}

var ansNames = []string{"{x}", "{y}", "{x,y}", "{0,x}", "{}"}

func ansAddrs(i int, qtype uint16) []netip.Addr {
	x, y, z := addrX4, addrY4, addrZ4
	if qtype == 28 {
		x, y, z = addrX6, addrY6, addrZ6
	}
	switch i {
	case 0:
		return []netip.Addr{x}
	case 1:
		return []netip.Addr{y}
	case 2:
		return []netip.Addr{x, y}
	case 3:
		return []netip.Addr{z, x}
	}
	return nil
}

func qt(t uint16) string {
	if t == 28 {
		return "AAAA"
	}
	return "A"
}

func (o bOp) String() string {
	switch o.Kind {
	case "ask":
		return fmt.Sprintf("ask(%s,%s,%s)", o.Name, qt(o.Qtype), o.Scope)
	case "ask!":
		return fmt.Sprintf("ask_without_settling(%s,%s,%s)", o.Name, qt(o.Qtype), o.Scope)
	case "put":
		return fmt.Sprintf("upstream_reply_stored(%s,%s,%s)", o.Name, qt(o.Qtype), o.Scope)
	case "rej":
		return fmt.Sprintf("reject(%s,%s)", o.Name, qt(o.Qtype))
	case "ans":
		return "upstream_answers=" + ansNames[o.Ans]
	case "ttl":
		return fmt.Sprintf("upstream_ttl=%d", o.Ans)
	case "adv":
		return "advance(" + time.Duration(o.Dur).String() + ")"
	case "jan":
		return "janitor()"
	}
	return "?"
}

func bHist(h []bOp) string {
	s := make([]string, len(h))
	for i, o := range h {
		s[i] = o.String()
	}
	return "[" + strings.Join(s, "; ") + "]"
}

type bLayer struct {
	Name    string
	Ops     []bOp
	Prefix  []bOp // every history of the layer starts with these operations (depth counts the operations after them)
	OnlyOpt bool  // layer applies only to configurations with optimistic caching on
	DepthQ  int
	DepthT  int
}

func bLayers() []bLayer {
	adv := func(d time.Duration) bOp { return bOp{Kind: "adv", Dur: int64(d)} }
	ask := func(n string, t uint16, s string) bOp { return bOp{Kind: "ask", Name: n, Qtype: t, Scope: s} }
	wide := bLayer{Name: "wide", DepthQ: 3, DepthT: 4}
	for _, n := range []string{"a.", "b."} {
		for _, t := range []uint16{1, 28} {
			for _, s := range []string{"u1", "u2"} {
				wide.Ops = append(wide.Ops, ask(n, t, s))
			}
		}
	}
	wide.Ops = append(wide.Ops, ask("c.", 1, "u1")) // a name no domain rule matches: all-zero bitmap
	for i := range ansNames {
		wide.Ops = append(wide.Ops, bOp{Kind: "ans", Ans: i})
	}
	wide.Ops = append(wide.Ops, bOp{Kind: "rej", Name: "a.", Qtype: 1}, bOp{Kind: "rej", Name: "b.", Qtype: 1},
		adv(latency), adv(2*time.Second), adv(21*time.Second), adv(61*time.Second), adv(85*time.Second), bOp{Kind: "jan"})
	put := func(n string, t uint16, s string) bOp { return bOp{Kind: "put", Name: n, Qtype: t, Scope: s} }
	wide.Ops = append(wide.Ops, put("a.", 1, "u1"), put("a.", 1, "u2"), put("b.", 1, "u1"))
	narrow := bLayer{Name: "narrow", DepthQ: 4, DepthT: 5, Ops: []bOp{
		ask("a.", 1, "u1"), ask("b.", 1, "u1"), ask("a.", 1, "u2"), put("a.", 1, "u1"), put("b.", 1, "u1"),
		{Kind: "ans", Ans: 0}, {Kind: "ans", Ans: 1}, {Kind: "ans", Ans: 2}, {Kind: "ans", Ans: 3}, {Kind: "ans", Ans: 4},
		{Kind: "rej", Name: "a.", Qtype: 1}, adv(latency), adv(21 * time.Second), adv(61 * time.Second), {Kind: "jan"}}}
	// refresh: two names sharing address x are cached and have expired (stale window open); then every continuation: the
	// upstream's address set changes, a client asks (stale answer + background refresh that REPLACES the live entry), ...
	refresh := bLayer{Name: "refresh", OnlyOpt: true, DepthQ: 3, DepthT: 4,
		Prefix: []bOp{ask("a.", 1, "u1"), ask("b.", 1, "u1"), adv(21 * time.Second)},
		Ops: []bOp{ask("a.", 1, "u1"), ask("b.", 1, "u1"),
			{Kind: "ans", Ans: 0}, {Kind: "ans", Ans: 1}, {Kind: "ans", Ans: 2}, {Kind: "ans", Ans: 3}, {Kind: "ans", Ans: 4},
			{Kind: "rej", Name: "a.", Qtype: 1}, adv(latency), adv(61 * time.Second), {Kind: "jan"}}}
	return []bLayer{refresh, narrow, wide}
}

var matcher *control.VerifRouting

func prepare() {
	if err := control.VerifPrepareDnsRoutings(); err != nil {
		fmt.Fprintln(os.Stderr, "C10: cannot build dns routing programs:", err)
		os.Exit(2)
	}
	// two domain rules => two different domain bitmaps; c. matches none
	m, err := control.VerifCompileRouting("global{}\nrouting{\n domain(full: a) -> direct\n domain(suffix: b) -> block\n fallback: direct\n}\n", nil, nil)
	if err != nil {
		fmt.Fprintln(os.Stderr, "C10: cannot compile routing:", err)
		os.Exit(2)
	}
	matcher = m
}

type bOut struct {
	viol    string
	key     string
	class   string
	trace   string
	bitmaps map[string]string
}

func bRun(cfg Cfg, h []bOp, trace bool) (out bOut) {
	var tb strings.Builder
	out.bitmaps = map[string]string{}
	res := vsched.Run(func() {
		table := control.VerifObserveKernelTable()
		ans := 0
		ttl := uint32(upTtl)
		script := func(up, name string, qtype uint16) ([]netip.Addr, uint32, bool) {
			return ansAddrs(ans, qtype), ttl, true
		}
		ctl, err := control.VerifNewDnsCtl(control.VerifDnsOpts{Optimistic: cfg.Opt, OptimisticTtl: cfg.Ttl, MaxCacheSize: cfg.Max, Matcher: matcher, Latency: latency, WithKernelTable: true}, script)
		if err != nil {
			panic("harness: " + err.Error())
		}
		dst := netip.MustParseAddrPort("198.51.100.1:53")
		for i, op := range h {
			b0, k0 := table.Batches, len(ctl.CacheKeys())
			switch op.Kind {
			case "ask":
				rep := ctl.Ask(op.Scope, op.Name, op.Qtype, dst, uint16(0x200+i))
				if rep.Err != "" || rep.Replies != 1 {
					panic(fmt.Sprintf("harness: question not answered: %+v", rep))
				}
			case "put":
				// an upstream reply for this question arrives and is stored (NormalizeAndCacheDnsResp_, what dialSend and
				// the background refresh call) whatever the cache holds for the key: replace / refresh with other addresses
				if err := ctl.InsertRaw(op.Scope, op.Name, op.Qtype, dst, ansAddrs(ans, op.Qtype), ttl); err != nil {
					panic("harness: InsertRaw: " + err.Error())
				}
			case "ask!": // replay files only: a question after which background workers are NOT given time to settle
				ctl.Ask(op.Scope, op.Name, op.Qtype, dst, uint16(0x200+i))
				continue
			case "rej":
				ctl.Ask("reject", op.Name, op.Qtype, dst, uint16(0x200+i))
			case "ans":
				ans = op.Ans
			case "ttl": // replay files only
				ttl = uint32(op.Ans)
			case "adv":
				vtime.Sleep(time.Duration(op.Dur))
			case "jan":
				ctl.Janitor()
			}
			vsched.Quiesce()
			if trace || i == len(h)-1 {
				var live []liveEntry
				for _, e := range ctl.LiveEntries() {
					live = append(live, liveEntry{Name: e.Key, Addrs: e.Addrs, Bitmap: e.Bitmap})
					out.bitmaps[strings.SplitN(e.Key, ".", 2)[0]] = bmString(e.Bitmap)
				}
				v := compareTable(table.M, live)
				if trace {
					fmt.Fprintf(&tb, "  %-28s now %-12s cache: ", op, time.Duration(vtime.Now().UnixNano()-epoch))
					for _, e := range live {
						fmt.Fprintf(&tb, "%s=%v%s ", e.Name, e.Addrs, bmString(e.Bitmap))
					}
					fmt.Fprintf(&tb, "\n      kernel table: %s\n", table.String())
					if v != "" {
						fmt.Fprintf(&tb, "      !! %s\n", v)
					}
				}
				if i == len(h)-1 {
					out.viol = v
					k1 := len(ctl.CacheKeys())
					out.class = op.Kind
					switch {
					case table.Batches > b0 && k1 < k0:
						out.class += ":removed+batch"
					case table.Batches > b0:
						out.class += ":batch"
					case k1 < k0:
						out.class += ":removed"
					}
				}
			}
		}
		hh := sha256.Sum256([]byte(ctl.DumpString() + "#" + ctl.TrackerDump() + "#" + table.String() + "#" + fmt.Sprint(ans)))
		out.key = string(hh[:16])
		ctl.Close()
	}, vsched.Options{MaxSteps: 1 << 22, HorizonNs: int64(2 * time.Hour)})
	switch res.Status {
	case vsched.StPanic:
		if strings.Contains(res.PanicMsg, "harness: ") {
			fmt.Fprintln(os.Stderr, "C10: harness failure:", res.PanicMsg, bHist(h))
			os.Exit(2)
		}
		out.viol = "panic in the code under test at " + vlib.PanicSite(res.PanicMsg) + ": " + firstLine(res.PanicMsg)
	case vsched.StHorizon, vsched.StDiverged:
		fmt.Fprintf(os.Stderr, "C10: execution did not finish (status %d) for %s\n", res.Status, bHist(h))
		os.Exit(2)
	}
	out.trace = tb.String()
	return
}

func firstLine(s string) string {
	if i := strings.IndexByte(s, '\n'); i >= 0 {
		return s[:i]
	}
	return s
}

type levelStat struct {
	Layer      string `json:"layer"`
	Depth      int    `json:"depth"`
	Executions int64  `json:"executions"`
	NewStates  int64  `json:"new_states"`
	Complete   bool   `json:"complete"`
}

type violOut struct {
	Sig    string `json:"sig"`
	Detail any    `json:"detail"`
}

type workerOut struct {
	Cfg     Cfg               `json:"cfg"`
	Levels  []levelStat       `json:"levels"`
	States  int64             `json:"states"`
	Execs   int64             `json:"executions"`
	Classes map[string]int64  `json:"classes"`
	Viols   []violOut         `json:"violations"`
	Samples []string          `json:"samples"`
	CapHit  []string          `json:"caps"`
	Bitmaps map[string]string `json:"bitmaps"`
}

func bBfs(cfg Cfg, thorough bool, deadline time.Time) *workerOut {
	wo := &workerOut{Cfg: cfg, Classes: map[string]int64{}, Bitmaps: map[string]string{}}
	nviol := 0
	for _, l := range bLayers() {
		depth := l.DepthQ
		if thorough {
			depth = l.DepthT
		}
		if l.OnlyOpt && !cfg.Opt {
			continue
		}
		seen := map[string]bool{}
		frontier := [][]bOp{l.Prefix}
		for d := 1; d <= depth; d++ {
			ls := levelStat{Layer: l.Name, Depth: d, Complete: true}
			var next [][]bOp
		level:
			for _, h0 := range frontier {
				curAns := 0
				for _, o := range h0 {
					if o.Kind == "ans" {
						curAns = o.Ans
					}
				}
				for _, op := range l.Ops {
					if op.Kind == "ans" && (op.Ans == curAns || (len(h0) > 0 && h0[len(h0)-1].Kind == "ans")) {
						continue // harness-only no-ops
					}
					if time.Now().After(deadline) {
						ls.Complete = false
						wo.CapHit = append(wo.CapHit, fmt.Sprintf("time budget reached in layer controller/%s at depth %d (%s)", l.Name, d, cfg))
						break level
					}
					h := append(append([]bOp(nil), h0...), op)
					out := bRun(cfg, h, false)
					ls.Executions++
					wo.Execs++
					wo.Classes[out.class]++
					for k, v := range out.bitmaps {
						wo.Bitmaps[k] = v
					}
					if out.viol != "" {
						nviol++
						if nviol <= 4 {
							tr := bRun(cfg, h, true)
							wo.Viols = append(wo.Viols, violOut{Sig: fmt.Sprintf("layer=controller config{%s} history=%s: %s", cfg, bHist(h), out.viol),
								Detail: map[string]any{"layer": "controller", "config": cfg, "history": h, "trace": strings.Split(tr.trace, "\n")}})
						}
						continue
					}
					if seen[out.key] {
						continue
					}
					seen[out.key] = true
					ls.NewStates++
					if len(wo.Samples) < 2 && d == depth && strings.Contains(out.class, "removed+batch") {
						wo.Samples = append(wo.Samples, bHist(h)+" => "+out.class)
					}
					if d < depth {
						next = append(next, h)
					}
				}
			}
			wo.Levels = append(wo.Levels, ls)
			wo.States += ls.NewStates
			frontier = next
			if !ls.Complete {
				break
			}
		}
	}
	return wo
}

// =====================================================================================================================
// layer (s): two cache callbacks on different owners at the same time (engine S, schedule exploration)
// =====================================================================================================================
//
// Several names / types / scopes resolving to one address are answered on different goroutines, so two syncOwner
// calls for different owners can overlap. control/domain_routing_tracker.go is rewritten onto the scheduler's
// mutex; every interleaving of the two calls within the preemption bound is executed on the real tracker; the batch
// observer plays the kernel map; at quiescence the mirror invariant must hold.

type sSpec struct {
	Pre  []aOp
	A, B aOp
}

func (sp sSpec) name() string {
	return fmt.Sprintf("pre=%s | %s || %s", aHist(sp.Pre), sp.A, sp.B)
}

func sSpecs() []sSpec {
	x, y := 1, 2
	pres := [][]aOp{
		nil,
		{{Owner: 0, Bm: 1, Set: x}},
		{{Owner: 0, Bm: 1, Set: x}, {Owner: 1, Bm: 2, Set: x}},
		{{Owner: 2, Bm: 1, Set: x}},
		{{Owner: 0, Bm: 1, Set: x | y}, {Owner: 1, Bm: 2, Set: y}},
	}
	as := []aOp{{Owner: 0, Bm: 1, Set: x}, {Owner: 0, Bm: 1, Set: x | y}, {Owner: 0, Bm: 1, Set: y}, {Owner: 0, Remove: true}}
	bs := []aOp{{Owner: 1, Bm: 2, Set: x}, {Owner: 1, Bm: 2, Set: x | y}, {Owner: 1, Remove: true}}
	var out []sSpec
	for _, p := range pres {
		for _, a := range as {
			for _, b := range bs {
				out = append(out, sSpec{Pre: p, A: a, B: b})
			}
		}
	}
	return out
}

type sObs struct {
	table map[netip.Addr][32]uint32
	live  []liveEntry
	done  int
	errs  []string
}

var sCur *sObs

func sScenario(sp sSpec) *vsched.Scenario {
	type own struct {
		bm    bitmap
		addrs []netip.Addr
	}
	body := func() {
		o := &sObs{}
		sCur = o
		env := control.VerifNewTrackerEnv()
		live := map[int]own{}
		do := func(op aOp, prev own) {
			var err error
			if op.Remove {
				err = env.Remove(fmt.Sprintf("o%d", op.Owner+1), prev.bm, prev.addrs)
			} else {
				err = env.Sync(fmt.Sprintf("o%d", op.Owner+1), aBitmaps[op.Bm], aAddrs(op.Set))
			}
			if err != nil {
				o.errs = append(o.errs, err.Error())
			}
		}
		upd := func(op aOp) {
			if op.Remove {
				delete(live, op.Owner)
			} else {
				live[op.Owner] = own{aBitmaps[op.Bm], aAddrs(op.Set)}
			}
		}
		for _, op := range sp.Pre {
			do(op, live[op.Owner])
			upd(op)
		}
		for i, op := range []aOp{sp.A, sp.B} {
			op, prev := op, live[op.Owner]
			vsched.GoNamed(fmt.Sprintf("callback%d", i), func() {
				do(op, prev)
				o.done++
			})
		}
		vsched.WaitUntil(func() bool { return o.done == 2 })
		upd(sp.A)
		upd(sp.B) // different owners: the two operations commute in the reference
		for ow := 0; ow < 3; ow++ {
			if e, ok := live[ow]; ok {
				o.live = append(o.live, liveEntry{Name: fmt.Sprintf("o%d", ow+1), Addrs: e.addrs, Bitmap: e.bm})
			}
		}
		o.table = map[netip.Addr][32]uint32{}
		for k, v := range env.Table.M {
			o.table[k] = v
		}
	}
	check := func(r *vsched.Result) (string, any) {
		o := sCur
		if r.Status == vsched.StPanic {
			return "panic in a managed thread: " + firstLine(r.PanicMsg), r.PanicMsg
		}
		if r.Status == vsched.StHorizon {
			return "", nil
		}
		if o.done != 2 {
			return "deadlock: callbacks blocked: " + strings.Join(r.Blocked, "; "), nil
		}
		if len(o.errs) > 0 {
			return "callback returned an error: " + o.errs[0], nil
		}
		if v := compareTable(o.table, o.live); v != "" {
			return "after two concurrent callbacks settled: " + v, nil
		}
		return "", nil
	}
	outcome := func(r *vsched.Result) string {
		o := sCur
		t := &control.VerifKernelTable{M: o.table}
		return t.String()
	}
	return &vsched.Scenario{Name: sp.name(), Body: body, Check: check, Outcome: outcome, MaxSteps: 1 << 14, HorizonNs: int64(time.Minute)}
}

type sOut struct {
	Scenarios  int            `json:"scenarios"`
	Executions int64          `json:"executions"`
	Decisions  int64          `json:"decisions"`
	Outcomes   int            `json:"distinct_outcomes"`
	MaxDepth   int            `json:"max_depth"`
	Exhaustive bool           `json:"exhaustive"`
	Bounds     []vsched.Bound `json:"bounds"`
	Viols      []violOut      `json:"violations"`
	Sample     string         `json:"sample"`
}

func layerS(thorough bool, deadline time.Time) *sOut {
	out := &sOut{Exhaustive: true, Bounds: []vsched.Bound{{0, 0}, {1, 0}, {2, 0}}}
	if thorough {
		out.Bounds = append(out.Bounds, vsched.Bound{3, 0})
	}
	for _, sp := range sSpecs() {
		sc := sScenario(sp)
		e := &vsched.Explorer{Sc: sc, Bounds: out.Bounds, Deadline: deadline}
		st := e.Explore()
		out.Scenarios++
		out.Executions += st.Executions
		out.Decisions += st.Steps
		out.Outcomes += len(st.OutcomeHashes)
		if st.MaxDepth > out.MaxDepth {
			out.MaxDepth = st.MaxDepth
		}
		if !st.Exhaustive {
			out.Exhaustive = false
		}
		if out.Sample == "" {
			out.Sample = sc.Name
		}
		for k := range st.Violations {
			v := st.Violations[k]
			if !e.Confirm(&v, 5) {
				fmt.Fprintf(os.Stderr, "C10: schedule exploration: schedule did not reproduce: %s\n", v.Sig)
				os.Exit(2)
			}
			if len(out.Viols) < 4 {
				out.Viols = append(out.Viols, violOut{Sig: fmt.Sprintf("layer=schedule scenario{%s} bound=%v: %s", sc.Name, v.Bound, v.Sig),
					Detail: map[string]any{"layer": "schedule", "scenario": sc.Name, "schedule": v.Schedule, "bound": v.Bound, "trace": v.Trace}})
			}
		}
	}
	return out
}

var (
	fWorker   = flag.Int("c10worker", -1, "internal: configuration index of layer (b)")
	fDeadline = flag.Int64("c10deadline", 0, "internal: unix deadline")
	fSched    = flag.Bool("c10sched", false, "internal: run the schedule-exploration layer")
)

func main() {
	flag.Parse()
	if *fSched {
		so := layerS(flag.Lookup("tier").Value.String() == "thorough", time.Unix(*fDeadline, 0))
		b, _ := json.Marshal(so)
		os.Stdout.Write(b)
		os.Exit(0)
	}
	if *fWorker >= 0 {
		prepare()
		wo := bBfs(bCfgs()[*fWorker], flag.Lookup("tier").Value.String() == "thorough", time.Unix(*fDeadline, 0))
		b, _ := json.Marshal(wo)
		os.Stdout.Write(b)
		os.Exit(0)
	}
	r := vlib.Start("C10", "model_checking")
	if r.ReplayArg != "" {
		replay(r)
		return
	}
	deadline := time.Now().Add(r.Budget(80*time.Second, 16*time.Minute))
	cfgs := bCfgs()
	outs := make([]*workerOut, len(cfgs))
	errs := make([]string, len(cfgs))
	var wg sync.WaitGroup
	for i := range cfgs {
		wg.Add(1)
		go func(i int) {
			defer wg.Done()
			cmd := exec.Command(os.Args[0], "-tier", r.Tier(), "-c10worker", fmt.Sprint(i), "-c10deadline", fmt.Sprint(deadline.Unix()))
			cmd.Env = append(os.Environ(), "GOMAXPROCS=1")
			var so, se bytes.Buffer
			cmd.Stdout, cmd.Stderr = &so, &se
			if err := cmd.Run(); err != nil {
				errs[i] = fmt.Sprintf("worker %d (%s): %v: %s", i, cfgs[i], err, tailStr(se.String(), 1500))
				return
			}
			var wo workerOut
			if err := json.Unmarshal(so.Bytes(), &wo); err != nil {
				errs[i] = fmt.Sprintf("worker %d: bad output: %v", i, err)
				return
			}
			outs[i] = &wo
		}(i)
	}
	var sres *sOut
	var serr string
	wg.Add(1)
	go func() {
		defer wg.Done()
		cmd := exec.Command(os.Args[0], "-tier", r.Tier(), "-c10sched", "-c10deadline", fmt.Sprint(deadline.Unix()))
		cmd.Env = append(os.Environ(), "GOMAXPROCS=1")
		var so, se bytes.Buffer
		cmd.Stdout, cmd.Stderr = &so, &se
		if err := cmd.Run(); err != nil {
			serr = fmt.Sprintf("schedule layer: %v: %s", err, tailStr(se.String(), 1500))
			return
		}
		var x sOut
		if err := json.Unmarshal(so.Bytes(), &x); err != nil {
			serr = fmt.Sprintf("schedule layer: bad output: %v", err)
			return
		}
		sres = &x
	}()
	// layer (a) runs in this process meanwhile
	depthA := 6 // explored until no new state appears (finite state space) or this depth
	if r.Thorough() {
		depthA = 8
	}
	la := layerA(r, depthA)
	wg.Wait()
	broken := false
	states, execs := la.States, la.Execs
	classes := map[string]int64{}
	var perCfg []map[string]any
	for i, wo := range outs {
		if wo == nil {
			fmt.Fprintln(os.Stderr, errs[i])
			broken = true
			continue
		}
		states += wo.States
		execs += wo.Execs
		for k, v := range wo.Classes {
			classes[k] += v
		}
		for _, c := range wo.CapHit {
			r.CapHit(c)
		}
		for _, v := range wo.Viols {
			r.Violation(v.Sig, v.Detail)
		}
		for _, s := range wo.Samples {
			r.Sample(map[string]any{"layer": "controller", "config": wo.Cfg.String(), "history": s})
		}
		// non-vacuity of the bitmap dimension: the two rule-matched names carry different non-zero bitmaps, c. carries none
		if wo.Bitmaps["a"] == "" || wo.Bitmaps["a"] == "{}" || wo.Bitmaps["b"] == "{}" || wo.Bitmaps["a"] == wo.Bitmaps["b"] {
			fmt.Fprintf(os.Stderr, "C10: vacuous bitmaps in layer (b): %v\n", wo.Bitmaps)
			broken = true
		}
		perCfg = append(perCfg, map[string]any{"config": wo.Cfg.String(), "levels": wo.Levels, "states": wo.States, "executions": wo.Execs, "bitmaps_seen": wo.Bitmaps})
	}
	if sres == nil {
		fmt.Fprintln(os.Stderr, "C10:", serr)
		broken = true
	} else {
		for _, v := range sres.Viols {
			r.Violation(v.Sig, v.Detail)
		}
		if !sres.Exhaustive {
			r.CapHit("time budget reached in the schedule layer")
		}
		execs += sres.Executions
		r.Set("schedule_layer", map[string]any{"scenarios": sres.Scenarios, "executions": sres.Executions, "decisions": sres.Decisions, "distinct_outcomes": sres.Outcomes, "max_depth": sres.MaxDepth, "bounds": sres.Bounds, "exhaustive_within_bounds": sres.Exhaustive})
		r.Set("schedule_executions", sres.Executions)
		r.Set("schedule_distinct_outcomes", sres.Outcomes)
		r.Sample(map[string]any{"layer": "schedule", "scenario": sres.Sample})
	}
	if broken {
		fmt.Fprintln(os.Stderr, "C10: check broken: no verdict")
		os.Exit(2)
	}
	r.Set("states", states)
	r.Set("transitions", execs)
	r.Set("traces_validated_against_impl", execs)
	r.Set("evaluations", execs)
	r.Set("distinct_nontrivial", states)
	r.Set("tracker_layer", map[string]any{"states": la.States, "executions": la.Execs, "levels": la.Levels, "fixpoint_reached": la.Fixpoint, "depth_completed": la.DepthDone, "executions_emitting_a_batch": la.Batches})
	r.Set("tracker_states", la.States)
	r.Set("tracker_fixpoint", map[bool]int{false: 0, true: 1}[la.Fixpoint])
	r.Set("controller_layer", perCfg)
	r.Set("controller_observation_classes", classes)
	r.Set("controller_batches_seen", sumSub(classes, "batch"))
	r.Set("controller_removals_seen", sumSub(classes, "removed"))
	r.Rule("state = operation history replayed on a fresh real tracker / real DnsController+tracker; merged by an exact dump of the tracker's owners and ips maps + the shadow kernel table (+ canonical cache dump relative to now in the controller layer); the mirror invariant is evaluated in every state; tracker layer: 3 owners x {zero,{0},{33}} bitmaps x subsets of {x(v4), y(v6), 0.0.0.0} + removal, owners up to renaming, explored until no new state appears or the depth bound; controller layer: two alphabets (narrow, wide) per configuration to the depths listed; states = distinct merged states, transitions = histories executed")
	r.Assume("the kernel table is the in-order fold of the (update keys, values, delete keys) batches syncOwner issues (update batch first, then delete batch), observed by one statement inserted in front of the map write; BpfMapBatchUpdate/Delete themselves are not exercised (nil map)")
	r.Assume("unspecified addresses (0.0.0.0, ::) are 'no address': a live entry listing one does not entitle the table to an entry for it")
	r.Assume("layer (b): 'live cache entries' are the entries the cache store holds after background workers settled (expired entries not yet swept still count); their bitmaps are the ones the production NewCache closure computed from the real domain matcher (checked to differ between the two rule-matched names and to be zero for the unmatched name)")
	r.Assume("schedule layer: scheduling points at the mutex operations of domain_routing_tracker.go (source-rewritten); two concurrent callbacks for different owners, every schedule within the preemption bound, sequential consistency")
	r.Assume("schedules: the bpf-update worker, evictor and refresh goroutines run to quiescence after every operation (default schedule); interleavings inside one controller operation are not explored (the schedule layer covers two overlapping tracker callbacks)")
	r.Finish()
}

func sumSub(m map[string]int64, sub string) int64 {
	var n int64
	for k, v := range m {
		if strings.Contains(k, sub) {
			n += v
		}
	}
	return n
}

func tailStr(s string, n int) string {
	if len(s) <= n {
		return s
	}
	return s[len(s)-n:]
}

func replay(r *vlib.Run) {
	b, err := os.ReadFile(r.ReplayArg)
	if err != nil {
		fmt.Fprintln(os.Stderr, err)
		os.Exit(2)
	}
	var f struct {
		Detail struct {
			Layer   string          `json:"layer"`
			Config  Cfg             `json:"config"`
			History json.RawMessage `json:"history"`
		} `json:"detail"`
	}
	if err := json.Unmarshal(b, &f); err != nil {
		fmt.Fprintln(os.Stderr, err)
		os.Exit(2)
	}
	viol := ""
	if f.Detail.Layer == "tracker" {
		var h []aOp
		json.Unmarshal(f.Detail.History, &h)
		fmt.Println("history:", aHist(h))
		for i := 1; i <= len(h); i++ {
			out := aRun(h[:i])
			fmt.Printf("  after %-40s %s\n", h[i-1], map[bool]string{true: "ok", false: "!! " + out.viol}[out.viol == ""])
			viol = out.viol
		}
	} else {
		prepare()
		var h []bOp
		json.Unmarshal(f.Detail.History, &h)
		out := bRun(f.Detail.Config, h, true)
		fmt.Printf("config: %s\nhistory: %s\n%s", f.Detail.Config, bHist(h), out.trace)
		viol = out.viol
	}
	if viol != "" {
		fmt.Printf("verdict: %s\nVIOLATION property=C10 replay=%s\n", viol, r.ReplayArg)
		os.Exit(1)
	}
	fmt.Println("no violation")
	os.Exit(0)
}
