package main

import (
	"fmt"
	"strings"
	"unicode/utf8"

	"github.com/daeuniverse/dae/pkg/config_parser"
	"github.com/daeuniverse/dae/verifx/vlib"
)

// ---- production tree -> the reference tree shape (pure data copy, no interpretation) ----

func fromImplParams(ps []*config_parser.Param) []*RParam {
	if ps == nil {
		return nil
	}
	out := make([]*RParam, 0, len(ps))
	for _, p := range ps {
		out = append(out, fromImplParam(p))
	}
	return out
}
func fromImplParam(p *config_parser.Param) *RParam {
	if p == nil {
		return &RParam{Key: "<nil param>"}
	}
	return &RParam{Key: p.Key, Val: p.Val, Funcs: fromImplFuncs(p.AndFunctions), Ann: fromImplParams(p.Annotation)}
}
func fromImplFuncs(fs []*config_parser.Function) []*RFunc {
	if fs == nil {
		return nil
	}
	out := make([]*RFunc, 0, len(fs))
	for _, f := range fs {
		out = append(out, fromImplFunc(f))
	}
	return out
}
func fromImplFunc(f *config_parser.Function) *RFunc {
	if f == nil {
		return &RFunc{Name: "<nil function>"}
	}
	return &RFunc{Name: f.Name, Not: f.Not, Params: fromImplParams(f.Params)}
}
func fromImplSection(s *config_parser.Section) *RSection {
	if s == nil {
		return &RSection{Name: "<nil section>"}
	}
	out := &RSection{Name: s.Name}
	for _, it := range s.Items {
		if it == nil {
			out.Items = append(out.Items, &RItem{P: &RParam{Key: "<nil item>"}})
			continue
		}
		switch v := it.Value.(type) {
		case *config_parser.Param:
			out.Items = append(out.Items, &RItem{P: fromImplParam(v)})
		case *config_parser.RoutingRule:
			if v == nil {
				out.Items = append(out.Items, &RItem{P: &RParam{Key: "<nil rule>"}})
				continue
			}
			ob := v.Outbound
			out.Items = append(out.Items, &RItem{R: &RRule{And: fromImplFuncs(v.AndFunctions), Out: fromImplFunc(&ob)}})
		case *config_parser.Section:
			out.Items = append(out.Items, &RItem{S: fromImplSection(v)})
		default:
			out.Items = append(out.Items, &RItem{P: &RParam{Key: fmt.Sprintf("<unknown item %T>", it.Value)}})
		}
	}
	return out
}
func fromImplSections(ss []*config_parser.Section) []*RSection {
	out := make([]*RSection, 0, len(ss))
	for _, s := range ss {
		out = append(out, fromImplSection(s))
	}
	return out
}

// ---- one text against the oracle ----

type verdict struct {
	Kind   string // "" = agrees; else violation kind
	Sig    string // stable signature part
	Detail string
	Accept bool // reference verdict
	Canon  string
	// Parsed: the text is lexically well-formed and has at least two parser-visible tokens, i.e. the case
	// gets past the lexer and gives the parser/walker something to do (the non-triviality rule).
	Parsed bool
}

// checkText runs config_parser.Parse(text) and compares with the reference.
// wantCanon != "" additionally pins the tree known by construction (generator legs).
func checkText(text string, wantCanon string) verdict {
	refSecs, refErr := refParse(text)
	v := verdict{Accept: refErr == nil}
	if vis, _, lerr := refLex(text); lerr == nil && len(vis) >= 2 {
		v.Parsed = true
	}
	if refErr == nil {
		v.Canon = canonSections(refSecs)
		if wantCanon != "" && wantCanon != v.Canon {
			v.Kind, v.Sig = "harness", "harness: reference reader disagrees with the generator's own tree"
			v.Detail = fmt.Sprintf("text=%q\n gen=%s\n ref=%s", text, wantCanon, v.Canon)
			return v
		}
	} else if wantCanon != "" {
		v.Kind, v.Sig = "harness", "harness: reference reader rejects a generated derivation"
		v.Detail = fmt.Sprintf("text=%q err=%v", text, refErr)
		return v
	}
	var secs []*config_parser.Section
	var err error
	if p, msg := vlib.Try(func() { secs, err = config_parser.Parse(text) }); p {
		v.Kind = "panic"
		v.Sig = "panic site=" + vlib.PanicSite(msg)
		v.Detail = msg
		return v
	}
	if err != nil {
		if strings.TrimSpace(err.Error()) == "" {
			v.Kind, v.Sig = "empty-error", "rejected with an empty error message"
			return v
		}
		if refErr == nil && utf8.ValidString(text) {
			// (a text that is not valid UTF-8 may be refused as a whole: that is a clean error)
			v.Kind, v.Sig = "false-reject", "valid text rejected: "+errClass(err.Error())
			v.Detail = fmt.Sprintf("reference tree: %s\nerror: %s", v.Canon, err.Error())
		}
		return v
	}
	got := canonSections(fromImplSections(secs))
	if refErr != nil {
		v.Kind, v.Sig = "false-accept", "text outside the language accepted ("+refErrClass(refErr)+")"
		v.Detail = fmt.Sprintf("reference error: %v\nproduction tree: %s", refErr, got)
		return v
	}
	if got != v.Canon {
		if !utf8.ValidString(text) && got == canonSections(refParseMust(string([]rune(text)))) {
			v.Kind, v.Sig = "fidelity-utf8", "fidelity: invalid UTF-8 byte inside a value silently replaced by U+FFFD"
		} else {
			v.Kind, v.Sig = "fidelity", "fidelity: parsed tree differs from what is written ("+diffClass(v.Canon, got)+")"
		}
		v.Detail = fmt.Sprintf("want: %s\n got: %s", v.Canon, got)
	}
	return v
}

func refParseMust(text string) []*RSection {
	s, _ := refParse(text)
	return s
}

func firstLine(s string) string {
	if i := strings.IndexByte(s, '\n'); i >= 0 {
		s = s[:i]
	}
	if len(s) > 80 {
		s = s[:80]
	}
	return s
}

// errClass strips positions and echoed input from a production error message so that one cause = one class.
func errClass(msg string) string {
	for _, k := range []string{"empty parameter list", "bad function prototype", "bad declaration", "bad routing rule", "is not supported", "token recognition error", "mismatched input", "extraneous input", "missing", "no viable alternative"} {
		if strings.Contains(msg, k) {
			return k
		}
	}
	return "other"
}
func refErrClass(err error) string {
	s := err.Error()
	if strings.HasPrefix(s, "lex:") {
		return "lexical error"
	}
	if strings.HasPrefix(s, "empty") {
		return s
	}
	return "syntax error"
}

// diffClass: a coarse, stable description of the first difference between two canonical trees.
func diffClass(want, got string) string {
	n := len(want)
	if len(got) < n {
		n = len(got)
	}
	i := 0
	for i < n && want[i] == got[i] {
		i++
	}
	// walk back to the enclosing constructor letter
	j := i
	if j >= len(want) {
		j = len(want) - 1
	}
	for j > 0 && !strings.ContainsRune("PFRS", rune(want[j])) {
		j--
	}
	ctx := "?"
	if j >= 0 && j < len(want) {
		ctx = string(want[j])
	}
	switch {
	case len(got) < len(want):
		return "in " + ctx + ", shorter"
	case len(got) > len(want):
		return "in " + ctx + ", longer"
	}
	return "in " + ctx
}
