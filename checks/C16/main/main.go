// C16 — Node health follows the documented thresholds and is reported on edges only.
//
// Explicit-state BFS over histories of health events on the REAL dialer.Dialer objects shared by REAL
// outbound.DialerGroup objects (one latency-policy group, one random-policy group), every history inside one
// vsched.Run (virtual clock: scripted probes through the real d.check(), reload quiesce window and recovery timers
// run on virtual time). A reference written from the property statement (per node and domain: alive bit and two
// failure-run counters kept as INTERVALS where the statement is silent; per address: death transitions without a
// success; suppression scopes) is evolved along the history; the LAST event of every history is judged call by
// call (repeat-k macro events call the real function k times and compare after each call).
package main

import (
	"context"
	"errors"
	"fmt"
	"net"
	"net/url"
	"strings"
	"time"

	"github.com/daeuniverse/dae/common/consts"
	"github.com/daeuniverse/dae/component/outbound"
	"github.com/daeuniverse/dae/component/outbound/dialer"
	"github.com/daeuniverse/dae/control"
	"github.com/daeuniverse/dae/verifx/dialerh"
	"github.com/daeuniverse/dae/verifx/fastrandx"
)

const (
	DNS4 = iota
	DNS6
	TCP4
	TCP6
	DAT4
	DAT6
)

var typeShort = [6]string{"dns4", "dns6", "tcp4", "tcp6", "dat4", "dat6"}

func isTCP(t int) bool  { return t == TCP4 || t == TCP6 }
func isData(t int) bool { return t == DAT4 || t == DAT6 }

// thresholds, straight from the statement
func thrProbe(t int) int {
	if isTCP(t) {
		return 1 // one failed TCP probe
	}
	return 3 // three failed UDP probes
}
func thrTraffic(t int) int {
	if isTCP(t) {
		return 10 // ten TCP traffic failures
	}
	return 50 // fifty UDP traffic failures
}

const (
	escalationDeaths = 3                // three death transitions for an address without a success in between
	quiesceWindow    = 20 * time.Second // documented: reloadFailureQuiesce = Timeout(10s) + 10s
	advanceStep      = 21 * time.Second
	probeLatency     = 40 * time.Millisecond
	slowMs           = 1500 // second probe latency: beyond 40ms + the 1s recovery penalty
	big              = 1 << 20
)

type evKind int

const (
	evPOK evKind = iota
	evPFail
	evXFail // transactional failure report (DNS request failure): probe-class counter
	evTFail
	evFFail
	evTOK
	evIgn
	evScript // one probe whose two attempts answer DIFFERENTLY (event.scr indexes probeScripts)
	evBegin
	evEnd
	evAdv
	evReload
)

type event struct {
	kind evKind
	node int
	typ  int
	k    int // repeat count; for evReload: the fixed answer of every fastrand.Intn during the reload
	scr  int // evScript: index into probeScripts
}

// ---- a probe is a sequence of attempts ---------------------------------------------------------------------
//
// The real probe retries once after a genuine error. What each attempt answers is the environment's choice, so the
// alphabet of ONE probe is the set of attempt sequences below (every first answer that lets the probe go on x every
// second answer, plus the single-attempt answers the plain probeok/probefail/ignorable events do not produce).
// The verdict of a probe is read from the statement, attempt by attempt: a success makes it a successful probe; an
// attempt ended by cancellation/teardown makes it a probe that "never counts" (nothing may change, whatever failed
// before it); "not performed" (no applicable address) is no probe at all; a probe whose every attempt failed
// genuinely - a refused/reset connection or the probe's own timeout - is ONE failed probe.

type attKind int

const (
	attOK      attKind = iota // answers after 40ms
	attFail                   // genuine error (refused / handshake failure)
	attTimeout                // genuine error: the attempt's own deadline expired (wrapped context.DeadlineExceeded)
	attSkip                   // (false, nil): no applicable address, nothing was probed
	attCancel                 // bare context.Canceled: dialer context cancelled (reload cut-over, shutdown, Close)
	attWCancel                // the same, wrapped the way net/http hands it back (*url.Error)
)

var attNames = [...]string{"ok", "fail", "timeout", "skip", "cancel", "wrappedcancel"}

var (
	errAttTimeout = &url.Error{Op: "Get", URL: "http://verif.invalid/", Err: context.DeadlineExceeded}
	errAttWCancel = &url.Error{Op: "Get", URL: "http://verif.invalid/", Err: context.Canceled}
)

func (a attKind) answer() dialer.VerifAttempt {
	switch a {
	case attOK:
		return dialer.VerifAttempt{Latency: probeLatency, OK: true}
	case attFail:
		return dialer.VerifAttempt{Err: dialer.VerifErrProbe}
	case attTimeout:
		return dialer.VerifAttempt{Err: errAttTimeout}
	case attCancel:
		return dialer.VerifAttempt{Err: context.Canceled}
	case attWCancel:
		return dialer.VerifAttempt{Err: errAttWCancel}
	}
	return dialer.VerifAttempt{} // attSkip
}

type probeVerdict int

const (
	pvSuccess probeVerdict = iota
	pvFailed
	pvNeverCounts
	pvNotPerformed
)

type probeScript []attKind

func (s probeScript) verdict() probeVerdict {
	for _, a := range s {
		switch a {
		case attOK:
			return pvSuccess
		case attSkip:
			return pvNotPerformed
		case attCancel, attWCancel:
			return pvNeverCounts
		}
	}
	return pvFailed
}

func (s probeScript) name() string {
	n := make([]string, len(s))
	for i, a := range s {
		n[i] = attNames[a]
	}
	return "attempts:" + strings.Join(n, ">")
}

func (s probeScript) answers() (out []dialer.VerifAttempt, virtual time.Duration) {
	for _, a := range s {
		v := a.answer()
		out = append(out, v)
		virtual += v.Latency
	}
	return
}

// probeScripts: {fail,timeout} x {ok,fail,timeout,skip,cancel,wrappedcancel} minus fail>fail (= probefail) and the
// two x>skip mixes (the statement does not say whether a failed attempt followed by "nothing to probe" is a failed
// probe), plus the single answers skip and wrappedcancel. Simplest first.
var probeScripts = func() (out []probeScript) {
	out = append(out, probeScript{attSkip}, probeScript{attWCancel})
	for _, first := range []attKind{attFail, attTimeout} {
		for _, second := range []attKind{attOK, attFail, attTimeout, attCancel, attWCancel} {
			if first == attFail && second == attFail {
				continue
			}
			out = append(out, probeScript{first, second})
		}
	}
	return
}()

// latency of a probe-ok event: k<=1 is the default 40ms, otherwise k milliseconds (a slow sample: far enough from the
// default that the 1s recovery penalty and any tolerance are exceeded in both directions)
func (e event) latency() time.Duration {
	if e.k > 1 {
		return time.Duration(e.k) * time.Millisecond
	}
	return probeLatency
}

type groupSpec struct {
	name    string
	latency bool // min policy (latency) or random
	members []int
}

type cfg struct {
	name    string
	addrs   []string // per node
	groups  []groupSpec
	depth   int
	events  []event
	evNames []string
}

func (c *cfg) addNodeEvents(node int, t int, kinds map[evKind][]int) {
	order := []evKind{evPOK, evPFail, evXFail, evTFail, evFFail, evTOK, evIgn}
	names := map[evKind]string{evPOK: "probeok", evPFail: "probefail", evXFail: "txnfail", evTFail: "trafficfail", evFFail: "forcedfail", evTOK: "trafficok", evIgn: "ignorable"}
	for _, k := range order {
		ks, ok := kinds[k]
		if !ok {
			continue
		}
		if len(ks) == 0 {
			ks = []int{1}
		}
		for _, rep := range ks {
			c.events = append(c.events, event{kind: k, node: node, typ: t, k: rep})
			n := fmt.Sprintf("%c.%s.%s", 'a'+node, typeShort[t], names[k])
			if k == evPOK {
				// for probe ok the parameter is the latency in ms (1 = the default 40ms)
				if rep > 1 {
					n += fmt.Sprintf("%dms", rep)
				}
			} else if rep > 1 || len(ks) > 1 {
				n += fmt.Sprintf("x%d", rep)
			}
			c.evNames = append(c.evNames, n)
		}
	}
}

// addScriptEvents: every probe script of the attempt alphabet as one event on (node, t).
func (c *cfg) addScriptEvents(node, t int) {
	for si, s := range probeScripts {
		c.events = append(c.events, event{kind: evScript, node: node, typ: t, k: 1, scr: si})
		c.evNames = append(c.evNames, fmt.Sprintf("%c.%s.%s", 'a'+node, typeShort[t], s.name()))
	}
}

func (c *cfg) addGlobal(kinds ...evKind) {
	names := map[evKind]string{evBegin: "suppress.begin", evEnd: "suppress.end", evAdv: "advance21s", evReload: "reload"}
	for _, k := range kinds {
		c.events = append(c.events, event{kind: k})
		c.evNames = append(c.evNames, names[k])
	}
}

// addReloadRand: a reload during which every random pick (fallback candidate of a random-policy group) takes
// outcome v instead of 0 — with at most two members per group, reload + reload/rand=1 cover ALL outcomes.
func (c *cfg) addReloadRand(v int) {
	c.events = append(c.events, event{kind: evReload, k: v})
	c.evNames = append(c.evNames, fmt.Sprintf("reload/rand=%d", v))
}

// ---- the world: real objects -------------------------------------------------------------------------------

type cbRec struct {
	node  int
	t     int
	alive bool
}

type generation struct {
	nodes  []*dialer.Dialer
	groups []*outbound.DialerGroup
}

type world struct {
	c     *cfg
	types [6]*dialer.NetworkType
	opt   *dialer.GlobalOption
	gen   *generation
	genNo int
	cbs   []cbRec // node transition callbacks of the CURRENT generation since the last clear
	bits  [][6]int
	bitW  [][6][]int // group alive-change writes since the last clear
}

var (
	errTraffic = errors.New("verif: traffic failure")
	errForced  = errors.New("verif: forced failure")
	quietLog   = dialerh.QuietLogger()
)

func (w *world) build() *generation {
	w.genNo++
	me := w.genNo
	g := &generation{}
	for i, addr := range w.c.addrs {
		d := dialer.VerifNewDialer(w.opt, string(rune('a'+i)), addr)
		g.nodes = append(g.nodes, d)
	}
	w.bits = make([][6]int, len(w.c.groups))
	w.bitW = make([][6][]int, len(w.c.groups))
	for gi, gs := range w.c.groups {
		var ds []*dialer.Dialer
		var annos []*dialer.Annotation
		for _, m := range gs.members {
			ds = append(ds, g.nodes[m])
			annos = append(annos, &dialer.Annotation{})
		}
		p := consts.DialerSelectionPolicy_Random
		if gs.latency {
			p = consts.DialerSelectionPolicy_MinLastLatency
		}
		gi := gi
		for t := range w.bits[gi] {
			w.bits[gi][t] = -1
		}
		grp := outbound.NewDialerGroup(w.opt, gs.name, ds, annos, outbound.DialerSelectionPolicy{Policy: p},
			func(alive bool, nt *dialer.NetworkType, isInit bool) {
				if w.genNo != me {
					return // a closed generation: control ignores its callbacks (core retired)
				}
				t := nt.Index() - 2
				v := 0
				if alive {
					v = 1
				}
				w.bits[gi][t] = v
				w.bitW[gi][t] = append(w.bitW[gi][t], v)
			})
		g.groups = append(g.groups, grp)
	}
	// control registers one transition callback per distinct dialer after the groups exist
	for i, d := range g.nodes {
		i := i
		d.RegisterAliveTransitionCallback(func(nt *dialer.NetworkType, alive bool) {
			if w.genNo != me {
				return
			}
			w.cbs = append(w.cbs, cbRec{i, nt.Index() - 2, alive})
		})
	}
	return g
}

func newWorld(c *cfg) *world {
	w := &world{c: c, types: dialer.VerifStdTypes()}
	w.opt = dialerh.NewOption(quietLog, 30*time.Second, 0)
	w.gen = w.build()
	return w
}

func (w *world) clearLogs() {
	w.cbs = w.cbs[:0]
	for gi := range w.bitW {
		for t := range w.bitW[gi] {
			w.bitW[gi][t] = nil
		}
	}
}

func (w *world) alive(node, t int) bool { return w.gen.nodes[node].MustGetAlive(w.types[t]) }

func (w *world) aliveAll() [][6]bool {
	out := make([][6]bool, len(w.gen.nodes))
	for i := range w.gen.nodes {
		for t := 0; t < 6; t++ {
			out[i][t] = w.alive(i, t)
		}
	}
	return out
}

// reload: the runtime-state reset cmd/run.go performs at the start of a reload, a fresh generation (same node names,
// addresses, groups), the REAL ControlPlane.InheritDialerHealthFrom, then the old generation is closed.
func (w *world) reload() {
	old := w.gen
	dialer.ResetGlobalProxyStateForReload()
	nw := w.build()
	control.VerifInheritDialerHealth(nw.groups, old.groups)
	for _, g := range old.groups {
		_ = g.Close()
	}
	for _, d := range old.nodes {
		_ = d.Close()
	}
	w.gen = nw
}

func (w *world) dump(now int64, r *ref) string {
	var sb strings.Builder
	for _, d := range w.gen.nodes {
		d.VerifDump(&sb, now)
	}
	for gi, g := range w.gen.groups {
		fmt.Fprintf(&sb, "G%d{", gi)
		for t := 0; t < 6; t++ {
			if a := g.MustGetAliveDialerSet(w.types[t]); a != nil {
				a.VerifDump(&sb)
			}
			fmt.Fprintf(&sb, "b%d ", w.bits[gi][t])
		}
		sb.WriteString("}")
	}
	dialer.VerifGlobalsDump(&sb, now)
	r.dump(&sb, now)
	return sb.String()
}

// ---- the reference ---------------------------------------------------------------------------------------

type ival struct{ lo, hi int }

func (v *ival) inc() {
	v.lo++
	if v.hi < big {
		v.hi++
	}
}

type ref struct {
	c      *cfg
	alive  [][6]bool
	pf, tf [][6]ival
	deaths map[string]*ival
	sup    int
	until  int64 // virtual ns until which the lifted suppression still mutes
}

func newRef(c *cfg) *ref {
	r := &ref{c: c, deaths: map[string]*ival{}}
	for range c.addrs {
		r.alive = append(r.alive, [6]bool{true, true, true, true, true, true})
		r.pf = append(r.pf, [6]ival{})
		r.tf = append(r.tf, [6]ival{})
	}
	for _, a := range c.addrs {
		r.deaths[a] = &ival{}
	}
	return r
}

func (r *ref) suppressed(now int64) bool { return r.sup > 0 || now < r.until }

func (r *ref) dump(sb *strings.Builder, now int64) {
	sb.WriteString("REF{")
	for i := range r.alive {
		for t := 0; t < 6; t++ {
			fmt.Fprintf(sb, "%d,%d,%d,%d ", r.pf[i][t].lo, r.pf[i][t].hi, r.tf[i][t].lo, r.tf[i][t].hi)
		}
	}
	seen := map[string]bool{}
	for _, a := range r.c.addrs {
		if !seen[a] {
			seen[a] = true
			fmt.Fprintf(sb, "%s:%d-%d ", a, r.deaths[a].lo, r.deaths[a].hi)
		}
	}
	fmt.Fprintf(sb, "sup%d", r.sup)
	if r.until > now {
		fmt.Fprintf(sb, " until+%d", r.until-now)
	}
	sb.WriteString("}")
}

// ---- judged execution ------------------------------------------------------------------------------------

type runner struct {
	w      *world
	r      *ref
	res    *dialerh.StepResult
	sc     *dialerh.Scenario
	hist   []int
	judge  bool // the event being executed is the last of the history
	evName string
}

func (x *runner) viol(kind, what string) {
	if !x.judge {
		return
	}
	x.res.Violate(kind, fmt.Sprintf("%s: %s | cfg=%s history=%s", kind, what, x.w.c.name, dialerh.HistString(x.sc, x.hist)), nil)
}

func (x *runner) count(name string) {
	if x.judge {
		x.res.Count(name, 1)
	}
}

const (
	expSame = iota // must keep its state
	expAlive
	expDead
	expEither
)

// settle compares the real alive bits with the per-(node,domain) expectation and adopts the real state.
func (x *runner) settle(what string, exp [][6]int, before [][6]bool) {
	w, r := x.w, x.r
	for i := range r.alive {
		for t := 0; t < 6; t++ {
			got := w.alive(i, t)
			switch exp[i][t] {
			case expSame:
				if got != before[i][t] {
					x.viol("health", fmt.Sprintf("%s: node %c %s changed alive %v -> %v although nothing the statement names happened to it", what, 'a'+i, typeShort[t], before[i][t], got))
				}
			case expAlive:
				if !got {
					x.viol("health", fmt.Sprintf("%s: node %c %s must be alive, is not alive", what, 'a'+i, typeShort[t]))
				}
			case expDead:
				if got {
					x.viol("health", fmt.Sprintf("%s: node %c %s must be not alive, is alive", what, 'a'+i, typeShort[t]))
				}
			}
			r.alive[i][t] = got
		}
	}
}

func (x *runner) blankExp() [][6]int { return make([][6]int, len(x.r.alive)) }

// failure: one NON-forced failure report of class probe (traffic=false) or traffic on (node,t), already performed
// on the real objects; before = alive bits before the call.
func (x *runner) failure(what string, node, t int, traffic bool, before [][6]bool, now int64) {
	r := x.r
	exp := x.blankExp()
	if r.suppressed(now) {
		x.count("failure_muted_by_suppression")
		x.settle(what+" (muted: reload suppression in force)", exp, before)
		return
	}
	ctr := &r.pf[node][t]
	thr := thrProbe(t)
	if traffic {
		ctr = &r.tf[node][t]
		thr = thrTraffic(t)
	}
	ctr.inc()
	if !before[node][t] {
		x.settle(what, exp, before)
		return
	}
	must, may := ctr.lo >= thr, ctr.hi >= thr
	died := !x.w.alive(node, t)
	switch {
	case must:
		exp[node][t] = expDead
	case may:
		exp[node][t] = expEither
		x.count("threshold_inside_silent_interval")
	default:
		exp[node][t] = expAlive
	}
	if died && (must || may) {
		// a death transition: the address accumulates it; at three without a success the whole node goes down
		d := r.deaths[r.c.addrs[node]]
		d.inc()
		escMust, escMay := d.lo >= escalationDeaths, d.hi >= escalationDeaths
		for u := 0; u < 6; u++ {
			if u == t {
				continue
			}
			switch {
			case escMust:
				exp[node][u] = expDead
			case escMay:
				exp[node][u] = expEither
			}
		}
		if escMust || escMay {
			if escMay && !escMust {
				x.count("escalation_inside_silent_interval")
			}
			// nodes sharing the address: the statement speaks of "a proxy"; whether its other node entries follow is not said
			for j := range r.alive {
				if j != node && r.c.addrs[j] == r.c.addrs[node] {
					for u := 0; u < 6; u++ {
						exp[j][u] = expEither
					}
				}
			}
			allDead := true
			for u := 0; u < 6; u++ {
				if x.w.alive(node, u) {
					allDead = false
				}
			}
			if allDead {
				x.count("escalations")
				*d = ival{0, escalationDeaths} // whether the count restarts is not said
				for u := 0; u < 6; u++ {
					r.pf[node][u], r.tf[node][u] = ival{0, big}, ival{0, big}
				}
			}
		}
	}
	x.settle(what, exp, before)
}

func (x *runner) success(node, t int) {
	r := x.r
	r.pf[node][t], r.tf[node][t] = ival{}, ival{}
	*r.deaths[r.c.addrs[node]] = ival{}
}

// exec performs one event on the real objects, call by call, evolving and (for the last event) judging.
func (x *runner) exec(e event) {
	w, r := x.w, x.r
	dialerh.Sync()
	w.clearLogs()
	pre := w.aliveAll()
	preBits := append([][6]int(nil), w.bits...)
	var preDump string
	if (e.kind == evIgn || e.kind == evScript && probeScripts[e.scr].verdict() == pvNeverCounts) && x.judge {
		preDump = w.dump(dialer.VerifNowNano(), r)
	}
	var d *dialer.Dialer
	var nt *dialer.NetworkType
	if e.kind <= evScript {
		d, nt = w.gen.nodes[e.node], w.types[e.typ]
	}
	k := e.k
	if k < 1 {
		k = 1
	}
	what := x.evName
	switch e.kind {
	case evPOK:
		d.VerifProbe(nt, e.latency(), true, nil)
		exp := x.blankExp()
		exp[e.node][e.typ] = expAlive
		x.success(e.node, e.typ)
		x.settle(what, exp, pre)
	case evPFail, evXFail, evTFail:
		for c := 1; c <= k; c++ {
			before := w.aliveAll()
			now := dialer.VerifNowNano()
			switch e.kind {
			case evPFail:
				d.VerifProbe(nt, 0, false, dialer.VerifErrProbe)
			case evXFail:
				d.ReportUnavailableTransactional(nt, errTraffic)
			case evTFail:
				d.ReportUnavailable(nt, errTraffic)
			}
			x.failure(fmt.Sprintf("%s (call %d of %d)", what, c, k), e.node, e.typ, e.kind == evTFail, before, now)
		}
	case evFFail:
		d.ReportUnavailableForced(nt, errForced)
		exp := x.blankExp()
		exp[e.node][e.typ] = expDead
		if pre[e.node][e.typ] {
			if dd := r.deaths[r.c.addrs[e.node]]; dd.hi < big {
				dd.hi++ // whether a forced death counts towards the escalation is not said
			}
		}
		r.pf[e.node][e.typ], r.tf[e.node][e.typ] = ival{0, big}, ival{0, big}
		x.settle(what, exp, pre)
	case evTOK:
		d.ReportAvailableTraffic(nt)
		exp := x.blankExp()
		if isData(e.typ) {
			exp[e.node][e.typ] = expAlive
			if !pre[e.node][e.typ] {
				x.success(e.node, e.typ) // revival by successful data-UDP traffic: counts cleared
			} else {
				// already alive: the traffic run is over; whether the probe run / address deaths are cleared too is read leniently
				r.tf[e.node][e.typ] = ival{}
				r.pf[e.node][e.typ].lo = 0
				r.deaths[r.c.addrs[e.node]].lo = 0
			}
		} else {
			r.tf[e.node][e.typ].lo = 0 // a traffic success between traffic failures: the statement does not say
		}
		x.settle(what, exp, pre)
	case evIgn:
		// cancellation / teardown errors through every reporting path
		d.ReportUnavailable(nt, context.Canceled)
		d.ReportUnavailableTransactional(nt, net.ErrClosed)
		d.ReportUnavailable(nt, fmt.Errorf("read udp: %w", net.ErrClosed))
		d.VerifProbe(nt, 0, false, context.Canceled)
		x.settle(what, x.blankExp(), pre)
		if x.judge {
			if post := w.dump(dialer.VerifNowNano(), r); post != preDump {
				x.viol("ignorable", fmt.Sprintf("%s: a cancellation/teardown error changed the health state: before %s after %s", what, preDump, post))
			}
		}
	case evScript:
		// one probe, attempt by attempt; the verdict comes from the statement (probeScript.verdict), the number of
		// attempts the real code makes is its own business
		s := probeScripts[e.scr]
		now := dialer.VerifNowNano()
		answers, _ := s.answers()
		made := d.VerifProbeScript(nt, answers)
		if made >= len(s) {
			x.count("probe_scripts_played_to_the_end")
		}
		switch s.verdict() {
		case pvSuccess:
			exp := x.blankExp()
			exp[e.node][e.typ] = expAlive
			x.success(e.node, e.typ)
			x.settle(what, exp, pre)
		case pvFailed:
			x.failure(what, e.node, e.typ, false, pre, now)
		case pvNotPerformed:
			x.settle(what+" (nothing was probed)", x.blankExp(), pre)
		case pvNeverCounts:
			x.settle(what+" (probe cut short by cancellation/teardown: never counts)", x.blankExp(), pre)
			if x.judge {
				if post := w.dump(dialer.VerifNowNano(), r); post != preDump {
					x.viol("ignorable", fmt.Sprintf("%s: a probe ended by cancellation/teardown changed the health state: before %s after %s", what, preDump, post))
				}
			}
		}
	case evBegin:
		dialer.BeginReloadProxyFailureSuppression()
		r.sup++
		x.settle(what, x.blankExp(), pre)
	case evEnd:
		now := dialer.VerifNowNano()
		dialer.EndReloadProxyFailureSuppression()
		if r.sup > 0 {
			r.sup--
			if r.sup == 0 {
				r.until = now + int64(quiesceWindow)
			}
		}
		x.settle(what, x.blankExp(), pre)
	case evAdv:
		dialer.VerifSleep(advanceStep)
		x.settle(what, x.blankExp(), pre)
	case evReload:
		fastrandx.SetFixed(e.k)
		x.reload(pre)
		fastrandx.SetFixed(0)
	}
	dialer.VerifSleep(0)
	if !x.judge {
		return
	}
	post := w.aliveAll()
	// suppression: counter balanced, lifted after the window
	if got := int(dialer.VerifSuppressionCounter()); got != r.sup {
		x.viol("suppression", fmt.Sprintf("%s: suppression counter is %d, %d scopes are open", what, got, r.sup))
	}
	if got, want := dialer.VerifSuppressedNow(), r.suppressed(dialer.VerifNowNano()); got != want {
		x.viol("suppression", fmt.Sprintf("%s: failures muted=%v, expected %v (open scopes %d)", what, got, want, r.sup))
	}
	// transition callbacks: exactly once per actual transition
	if e.kind != evReload {
		x.judgeCallbacks(what, pre, post)
	}
	x.judgeGroups(what, preBits, pre, post, e.kind == evReload)
}

func (x *runner) judgeCallbacks(what string, pre, post [][6]bool) {
	for i := range post {
		for t := 0; t < 6; t++ {
			cur := pre[i][t]
			for _, cb := range x.w.cbs {
				if cb.node != i || cb.t != t {
					continue
				}
				if cb.alive == cur {
					x.viol("callback", fmt.Sprintf("%s: alive callback(%v) for node %c %s fired without a transition (state was already %v)", what, cb.alive, 'a'+i, typeShort[t], cur))
				}
				cur = cb.alive
			}
			if cur != post[i][t] {
				x.viol("callback", fmt.Sprintf("%s: node %c %s went alive %v -> %v but the callbacks seen end at %v", what, 'a'+i, typeShort[t], pre[i][t], post[i][t], cur))
			}
		}
	}
}

// judgeGroups: every group's alive set agrees with its nodes; the connectivity bit of a latency group equals
// "some member is alive" after the event and was never written with a value that is true neither before nor after.
func (x *runner) judgeGroups(what string, preBits [][6]int, pre, post [][6]bool, reload bool) {
	w := x.w
	for gi, gs := range w.c.groups {
		g := w.gen.groups[gi]
		for t := 0; t < 6; t++ {
			a := g.MustGetAliveDialerSet(w.types[t])
			if a == nil {
				x.viol("agreement", fmt.Sprintf("%s: group %s has no alive set for %s", what, gs.name, typeShort[t]))
				continue
			}
			for _, b := range a.VerifStructural() {
				x.viol("structural", fmt.Sprintf("%s: group %s %s: %s", what, gs.name, typeShort[t], b))
			}
			v := a.VerifView()
			any, anyPre := false, false
			for _, m := range gs.members {
				in := v.Index[w.gen.nodes[m]] >= 0
				if in != post[m][t] {
					x.viol("agreement", fmt.Sprintf("%s: group %s %s: node %c alive=%v but member of the group's alive set=%v", what, gs.name, typeShort[t], 'a'+m, post[m][t], in))
				}
				any = any || post[m][t]
				anyPre = anyPre || pre[m][t]
			}
			if a.Len() == 0 != !any {
				// covered by the agreement lines above
			}
			if !gs.latency {
				continue
			}
			want := 0
			if any {
				want = 1
			}
			if w.bits[gi][t] != want {
				x.viol("connectivity", fmt.Sprintf("%s: latency group %s %s: connectivity bit is %d but %s", what, gs.name, typeShort[t], w.bits[gi][t],
					map[bool]string{true: "a member is alive", false: "no member is alive"}[any]))
			}
			if !reload {
				for _, wr := range w.bitW[gi][t] {
					if (wr == 1) != any && (wr == 1) != anyPre {
						x.viol("connectivity", fmt.Sprintf("%s: latency group %s %s: connectivity bit written %d although some-member-alive was %v before and %v after", what, gs.name, typeShort[t], wr, anyPre, any))
					}
				}
				if len(w.bitW[gi][t]) > 0 && anyPre == any && preBits[gi][t] == want {
					x.count("redundant_connectivity_writes")
				}
			}
		}
	}
}

// reload: snapshot -> restore into a fresh generation + selection floor.
func (x *runner) reload(pre [][6]bool) {
	w, r := x.w, x.r
	what := x.evName
	w.reload()
	for _, d := range r.deaths {
		*d = ival{} // ResetGlobalProxyStateForReload: the new generation starts from a clean failure tracker
	}
	post := w.aliveAll()
	for i := range post {
		for t := 0; t < 6; t++ {
			r.pf[i][t].lo, r.tf[i][t].lo = 0, 0 // whether the runs survive a reload is not said
			switch {
			case pre[i][t] && !post[i][t]:
				x.viol("reload", fmt.Sprintf("%s: node %c %s was alive in the old generation, is not alive in the new one", what, 'a'+i, typeShort[t]))
			case !pre[i][t] && post[i][t]:
				// allowed only as the floor of a group that would otherwise have no selectable node for this type
				justified := false
				for _, gs := range w.c.groups {
					member, others := false, false
					for _, m := range gs.members {
						if m == i {
							member = true
						} else if pre[m][t] {
							others = true
						}
					}
					if member && !others {
						justified = true
					}
				}
				if !justified {
					x.viol("reload", fmt.Sprintf("%s: node %c %s was not alive in the old generation but is alive in the new one, and every group containing it had another alive node", what, 'a'+i, typeShort[t]))
				} else {
					x.count("reload_floor_revivals")
					r.pf[i][t], r.tf[i][t] = ival{0, r.pf[i][t].hi}, ival{0, r.tf[i][t].hi}
				}
			}
			r.alive[i][t] = post[i][t]
		}
	}
	if !x.judge {
		return
	}
	// every non-empty group keeps at least one selectable node for every type
	for gi, gs := range w.c.groups {
		g := w.gen.groups[gi]
		for t := 0; t < 6; t++ {
			any := false
			for _, m := range gs.members {
				any = any || post[m][t]
			}
			if !any {
				x.viol("reload", fmt.Sprintf("%s: group %s has no alive (selectable) node for %s in the new generation", what, gs.name, typeShort[t]))
				continue
			}
			nt := *w.types[t]
			dd, _, _, err := g.SelectWithExclusionResult(&nt, true, nil)
			if err != nil || dd == nil {
				x.viol("reload", fmt.Sprintf("%s: group %s: selection for %s fails in the new generation: %v", what, gs.name, typeShort[t], err))
			} else if !dd.MustGetAlive(&nt) {
				x.viol("reload", fmt.Sprintf("%s: group %s: selection for %s returns a node that is not alive", what, gs.name, typeShort[t]))
			}
		}
	}
	// callbacks of the new generation: it started all-alive
	fresh := make([][6]bool, len(post))
	for i := range fresh {
		fresh[i] = [6]bool{true, true, true, true, true, true}
	}
	x.judgeCallbacks(what, fresh, post)
}

func makeScenario(c *cfg) *dialerh.Scenario {
	sc := &dialerh.Scenario{Name: c.name, Events: c.evNames, Depth: c.depth}
	cost := 0
	for _, e := range c.events {
		cost += 1 + e.k/4
	}
	sc.Weight = cost
	for i := 1; i < c.depth; i++ {
		sc.Weight *= len(c.events)
	}
	sc.Prepare = func(hist []int, verbose bool) (time.Duration, func(), func(int64) *dialerh.StepResult) {
		res := &dialerh.StepResult{}
		w := newWorld(c)
		x := &runner{w: w, r: newRef(c), res: res, sc: sc, hist: hist}
		var horizon time.Duration
		for _, ei := range hist {
			switch e := c.events[ei]; e.kind {
			case evPOK:
				horizon += e.latency()
			case evAdv:
				horizon += advanceStep
			case evScript:
				_, v := probeScripts[e.scr].answers()
				horizon += v
			}
		}
		body := func() {
			for k, ei := range hist {
				x.judge = k == len(hist)-1
				x.evName = c.evNames[ei]
				x.exec(c.events[ei])
			}
			if len(hist) == 0 {
				// the initial state: groups agree, bits set
				x.judge = true
				x.evName = "initial state"
				a := w.aliveAll()
				x.judgeGroups("initial state", w.bits, a, a, true)
			}
		}
		finish := func(now int64) *dialerh.StepResult {
			res.Key = w.dump(now, x.r)
			var sb strings.Builder
			for i := range x.r.alive {
				for t := 0; t < 6; t++ {
					if x.r.alive[i][t] {
						sb.WriteByte('1')
					} else {
						sb.WriteByte('0')
					}
				}
			}
			for gi := range w.bits {
				fmt.Fprintf(&sb, "|%v", w.bits[gi])
			}
			fmt.Fprintf(&sb, "|s%d", x.r.sup)
			if len(hist) > 0 {
				sb.WriteString("|" + c.evNames[hist[len(hist)-1]])
			}
			res.Obs = []string{c.name + "|" + sb.String()}
			if verbose {
				fmt.Printf("    state: %s\n", res.Key)
			}
			return res
		}
		return horizon, body, finish
	}
	return sc
}

func scenarios(thorough bool) []*dialerh.Scenario {
	var out []*dialerh.Scenario
	oneNode := []groupSpec{{"g1", true, []int{0}}, {"g2", false, []int{0}}}
	twoA := []groupSpec{{"g1", true, []int{0, 1}}, {"g2", false, []int{0}}}
	twoB := []groupSpec{{"g1", true, []int{0}}, {"g2", false, []int{0, 1}}}
	probeK := func(t int) []int {
		if isTCP(t) {
			return []int{1}
		}
		return []int{1, 2, 3}
	}
	trafK := func(t int) []int {
		if isTCP(t) {
			return []int{1, 9, 10}
		}
		return []int{1, 49, 50}
	}
	pick := func(q, th int) int {
		if thorough {
			return th
		}
		return q
	}
	doms := []int{TCP4, DNS4, DAT4}
	if thorough {
		doms = []int{TCP4, TCP6, DNS4, DNS6, DAT4, DAT6}
	}
	for _, t := range doms {
		// thr: thresholds hit at, just below, just above — every failure source, success kinds, ignorable errors
		thrDepth := pick(5, 6)
		if !isTCP(t) {
			thrDepth = pick(4, 5) // twelve events, two of them 49/50 calls long
		}
		c := &cfg{name: "thr/" + typeShort[t], addrs: []string{"addr-x"}, groups: oneNode, depth: thrDepth}
		m := map[evKind][]int{evPOK: {1, slowMs}, evPFail: probeK(t), evTFail: trafK(t), evFFail: nil, evTOK: nil, evIgn: nil}
		if !isTCP(t) {
			m[evXFail] = []int{1, 3}
		}
		c.addNodeEvents(0, t, m)
		out = append(out, makeScenario(c))
		// sup: reload suppression scopes and the quiesce window against every failure source
		deep := pick(5, 7)
		if t == TCP6 || t == DNS6 || t == DAT6 {
			deep = 6 // thorough: the v6 twins one level less
		}
		c = &cfg{name: "sup/" + typeShort[t], addrs: []string{"addr-x"}, groups: oneNode, depth: deep}
		c.addNodeEvents(0, t, map[evKind][]int{evPOK: nil, evPFail: {thrProbe(t)}, evTFail: {thrTraffic(t)}, evFFail: nil})
		c.addGlobal(evBegin, evEnd, evAdv)
		out = append(out, makeScenario(c))
		// att: one probe = a sequence of attempts; every attempt script against the plain probe events (failure runs
		// one short of the threshold, so a script that wrongly counts kills) and a forced death (revival on the retry)
		c = &cfg{name: "att/" + typeShort[t], addrs: []string{"addr-x"}, groups: oneNode, depth: pick(4, 5)}
		pk := []int{1}
		if thrProbe(t) > 1 {
			pk = []int{1, thrProbe(t) - 1}
		}
		c.addNodeEvents(0, t, map[evKind][]int{evPOK: nil, evPFail: pk, evFFail: nil})
		c.addScriptEvents(0, t)
		out = append(out, makeScenario(c))
		// rel: snapshot -> restore -> floor against deaths and revivals
		c = &cfg{name: "rel/" + typeShort[t], addrs: []string{"addr-x"}, groups: oneNode, depth: deep}
		c.addNodeEvents(0, t, map[evKind][]int{evPOK: {1, slowMs}, evPFail: {thrProbe(t)}, evFFail: nil, evTOK: nil})
		c.addGlobal(evReload, evAdv, evBegin, evEnd)
		out = append(out, makeScenario(c))
	}
	// esc: two nodes with the SAME address (escalation after three death transitions), TCP probes on both families
	{
		c := &cfg{name: "esc/tcp46", addrs: []string{"addr-x", "addr-x"}, groups: twoA, depth: pick(5, 6)}
		for _, t := range []int{TCP4, TCP6} {
			c.addNodeEvents(0, t, map[evKind][]int{evPOK: nil, evPFail: nil})
			c.addNodeEvents(1, t, map[evKind][]int{evPFail: nil})
		}
		c.addNodeEvents(1, TCP4, map[evKind][]int{evPOK: nil})
		if thorough {
			c.addGlobal(evBegin, evEnd)
		}
		out = append(out, makeScenario(c))
	}
	{
		// escalation through UDP thresholds and traffic failures, one node, all its domains fall together
		c := &cfg{name: "esc/mixed", addrs: []string{"addr-x"}, groups: oneNode, depth: pick(4, 7)}
		c.addNodeEvents(0, TCP4, map[evKind][]int{evPOK: nil, evPFail: nil, evTFail: {10}})
		c.addNodeEvents(0, DNS4, map[evKind][]int{evPFail: {3}, evFFail: nil})
		c.addNodeEvents(0, DAT4, map[evKind][]int{evTFail: {50}, evTOK: nil})
		c.addNodeEvents(0, TCP6, map[evKind][]int{evPFail: nil})
		out = append(out, makeScenario(c))
	}
	// share: two nodes, the shared node's reload inheritance with both membership shapes
	for _, sh := range []struct {
		name string
		gs   []groupSpec
	}{{"share-ab-a", twoA}, {"share-a-ab", twoB}} {
		c := &cfg{name: sh.name + "/tcp4+dat4", addrs: []string{"addr-x", "addr-y"}, groups: sh.gs, depth: pick(4, 6)}
		for n := 0; n < 2; n++ {
			c.addNodeEvents(n, TCP4, map[evKind][]int{evPOK: nil, evPFail: nil})
			c.addNodeEvents(n, DAT4, map[evKind][]int{evFFail: nil, evTOK: nil})
		}
		c.addGlobal(evReload, evAdv)
		if sh.name == "share-a-ab" {
			c.addReloadRand(1)
		}
		out = append(out, makeScenario(c))
	}
	if thorough {
		// cross: two nodes with different addresses, three domains each, deaths/revivals/reload across domains
		c := &cfg{name: "cross/tcp4+dns4+dat4", addrs: []string{"addr-x", "addr-y"}, groups: twoA, depth: 5}
		for n := 0; n < 2; n++ {
			c.addNodeEvents(n, TCP4, map[evKind][]int{evPOK: nil, evPFail: nil})
			c.addNodeEvents(n, DNS4, map[evKind][]int{evPFail: {3}, evFFail: nil})
			c.addNodeEvents(n, DAT4, map[evKind][]int{evFFail: nil, evTOK: nil})
		}
		c.addGlobal(evReload, evAdv)
		out = append(out, makeScenario(c))
	}
	return out
}

func main() {
	dialerh.Main(&dialerh.Plan{
		ID: "C16",
		Rule: "states = distinct FULL dumps (every collection of every node: alive flag, both failure counters, latency window, moving average, last probe; recovery levels and pending confirmation timers as deadline-minus-now; every AliveDialerSet of every group: array order, index map, cached best; connectivity bits last written; suppression counter and remaining quiesce window; per-address failure tracker; the reference's interval counters) reached by BFS over event histories on the real objects, one history = fresh objects + replay inside ONE vsched.Run on the virtual clock; transitions = (state,event) executions, each judged call by call against the reference from the statement; alphabet per scenario: probe ok / probe fail xk / transactional fail xk / traffic fail xk (k hits each threshold at, just below, just above: 1,2,3 | 1,9,10 | 1,49,50) / forced fail / traffic ok / cancellation+teardown errors / one probe as a sequence of per-attempt answers ({fail,timeout} x {ok,fail,timeout,cancel,wrapped cancel}, skip, wrapped cancel; verdict per the statement: success on any attempt = successful probe, cancellation on any attempt = never counts, all attempts failed = ONE failed probe) / suppression begin,end / advance 21s (past the 20s quiesce window) / reload (real ControlPlane.InheritDialerHealthFrom into a fresh generation, for both outcomes of the random fallback pick); distinct_nontrivial = distinct (alive matrix, connectivity bits, open suppression scopes, last event) observations summed over scenarios",
		Scenarios:   scenarios,
		BudgetQuick: 45 * time.Second, BudgetThorough: 17 * time.Minute,
		Assumptions: []string{
			"nodes are built by NewDialer on a fake transport with the background checker disabled; probes are the real Dialer.check() with a scripted CheckFunc that takes 40ms of virtual time; production probes only tcp4/6 and dns-udp4/6, the harness also probes data-UDP (findings reachable only that way are marked)",
			"transactional failure reports (DNS request failures) are read as probe-class failures (threshold 1 TCP / 3 UDP), forced reports as immediate",
			"reload suppression mutes non-forced failure reports while a scope is open and for the documented quiesce window reloadFailureQuiesce = 20s after the last scope closed (constant taken from the code's documentation, not from the statement)",
			"the kernel connectivity bit is observed as the (alive, type) sequence of the group's alive-change callback that control.outboundAliveChangeCallback turns into an OutboundConnectivityMap write (key encoding is C19's subject); the map writer itself is not driven",
			"reload = dialer.ResetGlobalProxyStateForReload + fresh nodes/groups of the same names + the REAL control.ControlPlane.InheritDialerHealthFrom (real-mode build of package control) + Close of the old generation",
			"cachedTimeNano is kept equal to the virtual now by the harness before every event; package dialer's init goroutine (real 1s ticker) cannot be stopped: a history during which it wrote the variable is detected and replayed",
			"the per-address failure tracker TTL (15 min) is outside the explored time range",
		},
		SilentCounters: map[string]string{
			"threshold_inside_silent_interval":  "a failure run whose length the statement does not fix (after a forced report, a reload, or a traffic success on a TCP/DNS-UDP domain) reached a threshold: either outcome accepted",
			"escalation_inside_silent_interval": "the address death count is not fixed by the statement (forced deaths, restart after an escalation, data-UDP traffic success on an alive domain): either outcome accepted",
			"failure_muted_by_suppression":      "non-forced failure reported while reload suppression was in force: required to change nothing",
			"redundant_connectivity_writes":     "the connectivity bit was written with the value it already had",
			"reload_floor_revivals":             "a node not alive in the old generation is alive in the new one because a group containing it had no other alive node (selection floor)",
		},
	})
}
