// Package simnet: in-memory stream and datagram connections whose blocking and deadlines are owned by the vsched
// scheduler (virtual time). Outside a managed thread they fall back to real blocking (sync.Cond), so the same
// harness bodies can run free under -race.
package simnet

import (
	"io"
	"net"
	"net/netip"
	"os"
	"sync"
	"time"
	"unsafe"

	"github.com/daeuniverse/dae/verifx/vsched"
	"github.com/daeuniverse/dae/verifx/vtime"
)

type timeoutError struct{}

func (timeoutError) Error() string   { return "i/o timeout" }
func (timeoutError) Timeout() bool   { return true }
func (timeoutError) Temporary() bool { return true }
func (timeoutError) Is(err error) bool {
	return err == os.ErrDeadlineExceeded
}

var ErrTimeout error = &net.OpError{Op: "read", Net: "sim", Err: timeoutError{}}

// deadline is one read or write deadline on the virtual clock.
type deadline struct {
	mu      *sync.Mutex
	cond    *sync.Cond
	t       time.Time
	expired bool
	h       vsched.TimerHandle
	real    *time.Timer
	Armed   int // how many times a non-zero deadline was set (observation)
}

func (d *deadline) set(t time.Time) {
	d.mu.Lock()
	defer d.mu.Unlock()
	d.h.Stop()
	if d.real != nil {
		d.real.Stop()
		d.real = nil
	}
	d.t = t
	d.expired = false
	if t.IsZero() {
		return
	}
	d.Armed++
	dur := t.Sub(vtime.Now())
	if dur <= 0 {
		d.expired = true
		d.cond.Broadcast()
		return
	}
	if h, ok := vsched.AddTimer(int64(dur), "conn-deadline", func() { d.expired = true }); ok {
		d.h = h
		return
	}
	d.real = time.AfterFunc(dur, func() {
		d.mu.Lock()
		d.expired = true
		d.mu.Unlock()
		d.cond.Broadcast()
	})
}

// pipe is one direction of a stream: a queue of written segments.
type pipe struct {
	mu       sync.Mutex
	cond     *sync.Cond
	segs     [][]byte
	wclosed  bool // writer side shut down: EOF after drain
	rclosed  bool // reader side closed: writes fail
	Written  []byte
	capBytes int // 0 = unlimited
	queued   int
}

func newPipe() *pipe {
	p := &pipe{}
	p.cond = sync.NewCond(&p.mu)
	return p
}

// Conn is one end of an in-memory duplex stream (net.Conn + CloseWrite/CloseRead).
type Conn struct {
	Name        string
	rd, wr      *pipe
	rdl, wdl    *deadline
	la, ra      net.Addr
	closed      bool
	CloseCount  int
	CloseWrites int
	CloseReads  int
	CloseWriteAt time.Time // virtual time of the first CloseWrite (zero = never)
	// fault hooks, consulted before the operation proceeds (may call vsched.Choose)
	ReadFault  func() error
	WriteFault func(n int) (short int, err error)
	MaxRead    int // if >0, a Read returns at most MaxRead bytes
	eofReads   int
}

// Pair returns the two ends (a: "client/left side as seen by the code under test", b: the peer driven by the harness).
func Pair(la, ra net.Addr) (a, b *Conn) {
	ab, ba := newPipe(), newPipe()
	mk := func(name string, rd, wr *pipe, l, r net.Addr) *Conn {
		c := &Conn{Name: name, rd: rd, wr: wr, la: l, ra: r}
		c.rdl = &deadline{mu: &rd.mu, cond: rd.cond}
		c.wdl = &deadline{mu: &wr.mu, cond: wr.cond}
		return c
	}
	return mk("a", ba, ab, la, ra), mk("b", ab, ba, ra, la)
}

func (c *Conn) LocalAddr() net.Addr  { return c.la }
func (c *Conn) RemoteAddr() net.Addr { return c.ra }

func (c *Conn) wait(p *pipe, d *deadline, ready func() bool) {
	pred := func() bool { return ready() || d.expired }
	if vsched.Block(vsched.OpIO, unsafe.Pointer(p), func() bool {
		p.mu.Lock()
		defer p.mu.Unlock()
		return pred()
	}) {
		return
	}
	p.mu.Lock()
	for !pred() {
		p.cond.Wait()
	}
	p.mu.Unlock()
}

func (c *Conn) Read(b []byte) (int, error) {
	if c.ReadFault != nil {
		if err := c.ReadFault(); err != nil {
			return 0, err
		}
	}
	p := c.rd
	c.wait(p, c.rdl, func() bool { return len(p.segs) > 0 || p.wclosed || p.rclosed })
	p.mu.Lock()
	if p.rclosed {
		p.mu.Unlock()
		return 0, net.ErrClosed
	}
	if c.rdl.expired {
		// like the runtime poller: an expired deadline fails the read before any data is looked at
		p.mu.Unlock()
		return 0, ErrTimeout
	}
	if len(p.segs) > 0 {
		if len(b) == 0 {
			p.mu.Unlock()
			return 0, nil
		}
		seg := p.segs[0]
		lim := len(b)
		if c.MaxRead > 0 && c.MaxRead < lim {
			lim = c.MaxRead
		}
		n := copy(b[:lim], seg)
		if n == len(seg) {
			p.segs = p.segs[1:]
		} else {
			p.segs[0] = seg[n:]
		}
		p.queued -= n
		p.cond.Broadcast()
		p.mu.Unlock()
		return n, nil
	}
	if p.wclosed {
		// A reader that keeps polling an exhausted stream spins on the CPU; real time passes while it does.
		// Model: from the second consecutive EOF on, each EOF read costs 1ms of virtual time (so spin loops that
		// are bounded by a deadline terminate instead of freezing the virtual clock).
		c.eofReads++
		spin := c.eofReads >= 2
		p.mu.Unlock()
		if spin {
			vtime.Sleep(time.Millisecond)
		}
		return 0, io.EOF
	}
	p.mu.Unlock()
	return 0, ErrTimeout
}

func (c *Conn) Write(b []byte) (int, error) {
	n := len(b)
	var ferr error
	if c.WriteFault != nil {
		short, err := c.WriteFault(len(b))
		if err != nil {
			n, ferr = short, err
		}
	}
	p := c.wr
	if p.capBytes > 0 {
		c.wait(p, c.wdl, func() bool { return p.queued < p.capBytes || p.rclosed || p.wclosed })
	} else {
		vsched.Point(vsched.OpIO, unsafe.Pointer(p))
	}
	p.mu.Lock()
	defer p.mu.Unlock()
	if p.wclosed || p.rclosed {
		return 0, io.ErrClosedPipe
	}
	if c.wdl.expired {
		return 0, ErrTimeout
	}
	if n > 0 {
		seg := append([]byte(nil), b[:n]...)
		p.segs = append(p.segs, seg)
		p.Written = append(p.Written, seg...)
		p.queued += n
		p.cond.Broadcast()
	}
	return n, ferr
}

// CloseWrite is the write-shutdown (FIN): the peer reads EOF after draining.
func (c *Conn) CloseWrite() error {
	vsched.Point(vsched.OpIO, unsafe.Pointer(c.wr))
	c.wr.mu.Lock()
	c.CloseWrites++
	if c.CloseWriteAt.IsZero() {
		c.CloseWriteAt = vtime.Now()
	}
	c.wr.wclosed = true
	c.wr.cond.Broadcast()
	c.wr.mu.Unlock()
	return nil
}

func (c *Conn) CloseRead() error {
	vsched.Point(vsched.OpIO, unsafe.Pointer(c.rd))
	c.rd.mu.Lock()
	c.CloseReads++
	c.rd.rclosed = true
	c.rd.cond.Broadcast()
	c.rd.mu.Unlock()
	return nil
}

func (c *Conn) Close() error {
	vsched.Point(vsched.OpIO, unsafe.Pointer(c))
	c.CloseCount++
	c.closed = true
	c.rdl.set(time.Time{})
	c.wdl.set(time.Time{})
	c.wr.mu.Lock()
	c.wr.wclosed = true
	c.wr.cond.Broadcast()
	c.wr.mu.Unlock()
	c.rd.mu.Lock()
	c.rd.rclosed = true
	c.rd.cond.Broadcast()
	c.rd.mu.Unlock()
	return nil
}

func (c *Conn) SetDeadline(t time.Time) error {
	c.rdl.set(t)
	c.wdl.set(t)
	return nil
}
func (c *Conn) SetReadDeadline(t time.Time) error  { c.rdl.set(t); return nil }
func (c *Conn) SetWriteDeadline(t time.Time) error { c.wdl.set(t); return nil }

// ReadDeadline reports the currently armed read deadline (zero = none) — observation for "no deadline left armed".
func (c *Conn) ReadDeadline() time.Time  { return c.rdl.t }
func (c *Conn) WriteDeadline() time.Time { return c.wdl.t }
func (c *Conn) ReadDeadlinesArmed() int  { return c.rdl.Armed }
func (c *Conn) Closed() bool             { return c.closed }

// Received returns every byte ever written by the peer towards this end (whether read yet or not).
func (c *Conn) Received() []byte { c.rd.mu.Lock(); defer c.rd.mu.Unlock(); return append([]byte(nil), c.rd.Written...) }

// Sent returns every byte this end wrote.
func (c *Conn) Sent() []byte { c.wr.mu.Lock(); defer c.wr.mu.Unlock(); return append([]byte(nil), c.wr.Written...) }

// PeerWriteClosed: the peer shut down its write side (we will read EOF).
func (c *Conn) PeerWriteClosed() bool { c.rd.mu.Lock(); defer c.rd.mu.Unlock(); return c.rd.wclosed }

// ---- datagram conn ------------------------------------------------------------------------------

type Datagram struct {
	Data []byte
	From netip.AddrPort
	To   string
}

// PacketConn is an in-memory datagram socket: the code under test reads what the harness injects and its
// writes are handed to OnWrite (scripted peer).
type PacketConn struct {
	Name       string
	mu         sync.Mutex
	cond       *sync.Cond
	in         []Datagram
	closed     bool
	CloseCount int
	rdl        *deadline
	Out        []Datagram
	OnWrite    func(pc *PacketConn, d Datagram) error // runs in the writer's thread
	ReadFault  func() error
	la         net.Addr
	done       chan struct{}
}

func NewPacketConn(name string, la net.Addr) *PacketConn {
	pc := &PacketConn{Name: name, la: la, done: make(chan struct{})}
	pc.cond = sync.NewCond(&pc.mu)
	pc.rdl = &deadline{mu: &pc.mu, cond: pc.cond}
	return pc
}

// Inject queues a datagram for the reader (harness / scripted peer side).
func (pc *PacketConn) Inject(data []byte, from netip.AddrPort) {
	vsched.Point(vsched.OpIO, unsafe.Pointer(pc))
	pc.mu.Lock()
	pc.in = append(pc.in, Datagram{Data: append([]byte(nil), data...), From: from})
	pc.cond.Broadcast()
	pc.mu.Unlock()
}

func (pc *PacketConn) ReadFrom(p []byte) (int, netip.AddrPort, error) {
	if pc.ReadFault != nil {
		if err := pc.ReadFault(); err != nil {
			return 0, netip.AddrPort{}, err
		}
	}
	pred := func() bool { return len(pc.in) > 0 || pc.closed || pc.rdl.expired }
	if !vsched.Block(vsched.OpIO, unsafe.Pointer(pc), func() bool {
		pc.mu.Lock()
		defer pc.mu.Unlock()
		return pred()
	}) {
		pc.mu.Lock()
		for !pred() {
			pc.cond.Wait()
		}
		pc.mu.Unlock()
	}
	pc.mu.Lock()
	defer pc.mu.Unlock()
	if pc.closed {
		return 0, netip.AddrPort{}, net.ErrClosed
	}
	if len(pc.in) > 0 {
		d := pc.in[0]
		pc.in = pc.in[1:]
		n := copy(p, d.Data)
		return n, d.From, nil
	}
	return 0, netip.AddrPort{}, ErrTimeout
}

func (pc *PacketConn) Read(p []byte) (int, error) {
	n, _, err := pc.ReadFrom(p)
	return n, err
}

func (pc *PacketConn) WriteTo(p []byte, addr string) (int, error) {
	vsched.Point(vsched.OpIO, unsafe.Pointer(pc))
	pc.mu.Lock()
	if pc.closed {
		pc.mu.Unlock()
		return 0, net.ErrClosed
	}
	d := Datagram{Data: append([]byte(nil), p...), To: addr}
	pc.Out = append(pc.Out, d)
	h := pc.OnWrite
	pc.mu.Unlock()
	if h != nil {
		if err := h(pc, d); err != nil {
			return 0, err
		}
	}
	return len(p), nil
}

func (pc *PacketConn) Write(p []byte) (int, error) { return pc.WriteTo(p, "") }

func (pc *PacketConn) Close() error {
	vsched.Point(vsched.OpIO, unsafe.Pointer(pc))
	pc.mu.Lock()
	pc.CloseCount++
	if !pc.closed {
		pc.closed = true
		close(pc.done)
	}
	pc.cond.Broadcast()
	pc.mu.Unlock()
	pc.rdl.set(time.Time{})
	return nil
}

func (pc *PacketConn) SetDeadline(t time.Time) error      { pc.rdl.set(t); return nil }
func (pc *PacketConn) SetReadDeadline(t time.Time) error  { pc.rdl.set(t); return nil }
func (pc *PacketConn) SetWriteDeadline(t time.Time) error { return nil }
func (pc *PacketConn) LocalAddr() net.Addr                { return pc.la }
func (pc *PacketConn) Closed() bool                       { pc.mu.Lock(); defer pc.mu.Unlock(); return pc.closed }
func (pc *PacketConn) Pending() int                       { pc.mu.Lock(); defer pc.mu.Unlock(); return len(pc.in) }
