// C05 — TCP relay delivers both byte streams intact and honours half-close (engine S + simnet).
// Every parameter point (port x dial mode x payload x segmentation x arrival timing x close order x read chunking)
// is a closed 4-thread system around the REAL ControlPlane.handleConn; every point is explored over schedules and
// timer deviations with iterative bounding.
package main

import (
	"fmt"
	"os"
	"time"

	"github.com/daeuniverse/dae/control"
	"github.com/daeuniverse/dae/verifx/vdrive"
	"github.com/daeuniverse/dae/verifx/vlib"
	"github.com/daeuniverse/dae/verifx/vsched"
)

func tlsClientHello(sni string) []byte {
	// minimal TLS 1.2 ClientHello with one cipher suite and an SNI extension
	ext := []byte{0x00, 0x00}
	name := []byte(sni)
	sn := append([]byte{0x00, byte(len(name) >> 8), byte(len(name))}, name...)
	list := append([]byte{byte(len(sn) >> 8), byte(len(sn))}, sn...)
	ext = append(ext, byte(len(list)>>8), byte(len(list)))
	ext = append(ext, list...)
	body := []byte{0x03, 0x03}
	body = append(body, make([]byte, 32)...) // random
	body = append(body, 0x00)                // session id len
	body = append(body, 0x00, 0x02, 0x13, 0x01)
	body = append(body, 0x01, 0x00)
	body = append(body, byte(len(ext)>>8), byte(len(ext)))
	body = append(body, ext...)
	hs := append([]byte{0x01, byte(len(body) >> 16), byte(len(body) >> 8), byte(len(body))}, body...)
	rec := append([]byte{0x16, 0x03, 0x01, byte(len(hs) >> 8), byte(len(hs))}, hs...)
	return rec
}

type payload struct {
	name string
	data []byte
}

func cuts(data []byte, maxParts int) [][][]byte {
	// every segmentation into <= maxParts writes with cut points from a boundary set
	cand := []int{1, 2, 5, 16, 17, len(data) - 1}
	var pts []int
	seen := map[int]bool{}
	for _, c := range cand {
		if c > 0 && c < len(data) && !seen[c] {
			seen[c] = true
			pts = append(pts, c)
		}
	}
	out := [][][]byte{{data}}
	if maxParts >= 2 {
		for _, a := range pts {
			out = append(out, [][]byte{data[:a], data[a:]})
		}
	}
	if maxParts >= 3 {
		for i, a := range pts {
			for _, b := range pts[i+1:] {
				if a < b {
					out = append(out, [][]byte{data[:a], data[a:b], data[b:]})
				}
			}
		}
	}
	return out
}

func main() {
	thorough := false
	for i, a := range os.Args {
		if (a == "-tier" || a == "--tier") && i+1 < len(os.Args) && os.Args[i+1] == "thorough" {
			thorough = true
		}
		if a == "-vsbounds" && i+1 < len(os.Args) && os.Args[i+1] == "thorough" {
			thorough = true // workers of the many-scenario mode receive the tier here
		}
	}
	resp := [][]byte{[]byte("HTTP/1.1 200 OK\r\n\r\n"), []byte("body-bytes")}
	http := []byte("GET /index.html HTTP/1.1\r\nHost: example.com\r\nUser-Agent: t\r\n\r\n")
	pls := []payload{
		{"1B", []byte("x")},
		{"tls5", []byte{0x16, 0x03, 0x01, 0x00, 0x20}},
		{"17B", []byte("0123456789abcdefg")},
		{"http", http},
		{"tlshello", tlsClientHello("example.com")},
		{"junk", []byte("HELLO-not-dns\n")},
	}
	var scs []*vsched.Scenario
	add := func(p *control.C05Params) { scs = append(scs, control.C05Scenario(p)) }
	maxParts := 2
	if thorough {
		maxParts = 3
	}
	// Set A: integrity x segmentation
	for _, port := range []uint16{80, 443, 53} {
		for _, mode := range []string{"ip", "domain"} {
			for _, pl := range pls {
				if pl.name == "tlshello" && port != 443 {
					continue
				}
				for ci, segs := range cuts(pl.data, maxParts) {
					for _, fin := range []bool{true, false} {
						add(&control.C05Params{Name: fmt.Sprintf("A/p%d/%s/%s/cut%d/fin%v", port, mode, pl.name, ci, fin), Port: port, DialMode: mode,
							ClientSegs: segs, ServerSegs: resp, ClientFin: fin})
					}
				}
			}
		}
	}
	// Set B: arrival timing relative to the detection windows, server-first protocols, idle periods
	ms := time.Millisecond
	for _, port := range []uint16{80, 443, 53, 2222} {
		for _, mode := range []string{"ip", "domain"} {
			for _, first := range []time.Duration{50 * ms, 150 * ms, 6 * time.Second} {
				for _, gap := range []time.Duration{0, 150 * ms} {
					for _, pre := range []time.Duration{0, 6 * time.Second} {
						for _, sf := range []bool{false, true} {
							for _, fin := range []bool{true, false} {
								add(&control.C05Params{Name: fmt.Sprintf("B/p%d/%s/first%v/gap%v/idle%v/sf%v/fin%v", port, mode, first, gap, pre, sf, fin), Port: port, DialMode: mode,
									ClientSegs: [][]byte{http[:20], http[20:]}, ClientDelay: []time.Duration{first, gap, pre}, ServerSegs: resp, ServerFirst: sf, ClientFin: fin})
							}
						}
					}
				}
			}
			// server-first with a silent client (client only half-closes after reading everything)
			add(&control.C05Params{Name: fmt.Sprintf("B/p%d/%s/silent-client", port, mode), Port: port, DialMode: mode, ServerSegs: resp, ServerFirst: true, ClientFin: false})
		}
	}
	// Set C: small reads on the client conn (prefix / sniffer buffers drained in pieces)
	for _, port := range []uint16{80, 443, 53} {
		for _, pl := range pls[2:] {
			if pl.name == "tlshello" && port != 443 {
				continue
			}
			add(&control.C05Params{Name: fmt.Sprintf("C/p%d/%s/chunk3", port, pl.name), Port: port, DialMode: "domain", ClientSegs: [][]byte{pl.data}, ServerSegs: resp, ClientFin: true, ReadChunk: 3})
		}
	}
	p := &vdrive.Plan{
		Scenarios:      scs,
		ManyScenarios:  true,
		QuickBounds:    []vsched.Bound{{0, 0}, {1, 0}},
		ThoroughBounds: []vsched.Bound{{0, 0}, {1, 0}, {1, 1}, {2, 1}},
		BudgetQuick:    150 * time.Second,
		BudgetThorough: 25 * time.Minute,
		Finish: func(r *vlib.Run) {
			loopbackLeg(r, thorough)
			r.Assume("client and upstream are simulated in-memory stream conns (never *net.TCPConn): the splice(2) and writev(2) fast paths and TIOCINQ probing are not executed; gather write goes through net.Buffers.WriteTo and the buffered copy loops")
			r.Assume("the valid DNS-over-TCP query path on port 53 is left to C07/C09; port 53 carries non-DNS bytes here")
			r.Assume("sniffing timeout 100ms; dial target / routing decision are not checked here (C18, C01)")
		},
	}
	vdrive.Main("C05", p)
}


func pattern(tag byte, n int) []byte {
	b := make([]byte, n)
	for i := range b {
		b[i] = tag + byte(i%23)
	}
	return b
}

// loopbackLeg: real loopback sockets (kernel copy paths); enumeration of payload shapes, byte-equality oracle only.
func loopbackLeg(r *vlib.Run, thorough bool) {
	sizes1 := []int{1, 14, 600, 5000}
	sizes2 := []int{0, 3, 2000, 40000}
	if thorough {
		sizes1 = append(sizes1, 4095, 4097, 33000, 70000)
		sizes2 = append(sizes2, 4096, 70000)
	}
	resp := []byte("HTTP/1.1 200 OK\r\n\r\nbody-bytes")
	var cases []*control.C05LoopCase
	for _, port := range []uint16{53, 80, 443, 2222} {
		for _, mode := range []string{"ip", "domain"} {
			for _, n1 := range sizes1 {
				for _, n2 := range sizes2 {
					for _, hold := range []bool{false, true} {
						if hold && n2 == 0 {
							continue
						}
						c1 := pattern('A', n1)
						if port == 53 && n1 >= 2 {
							c1[0], c1[1] = 0x00, 0x05 // a DNS-over-TCP "length" below the minimum: rejected at once, no 5s wait
						} else if port == 53 {
							continue // a single byte would sit in the 5s DNS detection window (covered by the scheduler leg)
						}
						cases = append(cases, &control.C05LoopCase{Port: port, Mode: mode, Chunk1: c1, Chunk2: pattern('a', n2), HoldDial: hold, ServerResp: resp})
					}
				}
			}
		}
	}
	n := r.Counter("loopback_cases")
	r.ParallelFor(len(cases), func(i int) {
		sig, detail := control.C05Loopback(cases[i])
		n.Add(1)
		if sig != "" {
			r.Violation(sig, detail)
		}
	})
	// connection histories: every sequence of length <= L over the behaviour alphabet, run one after another in this
	// process (state kept by the copy paths between connections — pooled splice pipes and buffers — is carried over).
	alpha := []string{"n", "N", "S", "D", "R"}
	maxLen := 2
	if thorough {
		maxLen = 3
	}
	var hists [][]string
	var gen func(prefix []string)
	gen = func(prefix []string) {
		if len(prefix) > 0 {
			hists = append(hists, append([]string(nil), prefix...))
		}
		if len(prefix) == maxLen {
			return
		}
		for _, a := range alpha {
			gen(append(prefix, a))
		}
	}
	gen(nil)
	hn, hinc := r.Counter("connection_histories"), r.Counter("connection_histories_inconclusive_timeout")
	for i, h := range hists {
		// every history is followed by two healthy connections: whatever the history left behind must not reach them
		sig, inc, detail := control.C05History(append(append([]string(nil), h...), "N", "n"), i)
		hn.Add(1)
		if inc {
			hinc.Add(1)
		}
		if sig != "" {
			r.Violation(sig, detail)
		}
	}
	r.Assume("loopback leg: real kernel sockets, timing not controlled; payload shapes and connection histories enumerated, oracle = byte equality (healthy) / prefix (aborted) in both directions; wall-clock timeouts are counted as inconclusive, never as violations")
}
