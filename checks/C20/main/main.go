// C20 — reload requests are serialised, answered, and never leave dae wedged (engine S on the real reload
// primitives; worker / main-loop model generated from cmd/run.go by checks/C20/tool on every run).
package main

import (
	"os"
	"strings"
	"time"

	"github.com/daeuniverse/dae/cmd"
	"github.com/daeuniverse/dae/verifx/vdrive"
	"github.com/daeuniverse/dae/verifx/vlib"
	"github.com/daeuniverse/dae/verifx/vsched"
)

func thoroughRequested() bool {
	for i, a := range os.Args {
		if a == "-tier=thorough" || a == "--tier=thorough" || ((a == "-tier" || a == "--tier") && i+1 < len(os.Args) && os.Args[i+1] == "thorough") {
			return true
		}
		if strings.HasPrefix(a, "-vsworker") || strings.HasPrefix(a, "--vsworker") {
			// worker processes look scenarios up by name: offer the full list
			return true
		}
	}
	return false
}

func main() {
	thorough := thoroughRequested()
	if len(os.Args) > 1 {
		for _, a := range os.Args {
			if a == "-replay" || a == "--replay" || strings.HasPrefix(a, "-replay=") || strings.HasPrefix(a, "--replay=") {
				thorough = true // replay files may name a thorough-only scenario
			}
		}
	}
	shards := 8
	if thorough {
		shards = 16
	}
	p := &vdrive.Plan{
		Scenarios:      cmd.VerifC20Scenarios(thorough),
		QuickBounds:    []vsched.Bound{{0, 0}, {1, 0}},
		ThoroughBounds: []vsched.Bound{{0, 0}, {1, 0}},
		PerScenario: map[string]map[string][]vsched.Bound{
			"R,S: fail* then staged":              {"quick": {{0, 0}, {1, 0}, {1, 1}}, "thorough": {{0, 0}, {1, 0}, {2, 1}, {3, 0}}},
			"R,S: fail* then fail*":               {"thorough": {{0, 0}, {1, 0}, {2, 1}, {3, 0}}},
			"S,R: staged* then nonstaged":         {"thorough": {{0, 0}, {1, 0}, {1, 1}}},
			"R,S: staged* then staged* +relisten": {"thorough": {{0, 0}, {1, 0}, {1, 1}}},
			"R,S: staged then any* +relisten":     {"quick": {{0, 0}}},
			"S,R: nonstaged then any* +relisten":  {"quick": {{0, 0}}},
		},
		Shards:         shards, // each worker process pays ~1 s of package initialisation (the whole dae binary)
		BudgetQuick:    75 * time.Second,
		BudgetThorough: 16 * time.Minute,
		Finish: func(r *vlib.Run) {
			r.Set("model_paths", cmd.VerifC20ModelPaths())
			r.Assume("worker closure and main-loop body of (*Runner).Run are executed as paths extracted from the CFG of cmd/run.go of the current tree (tool checks/C20/tool): every path calls the real reloadManager / run.go primitives in source order; conditions the model cannot evaluate (control-plane construction, listeners, config parsing) are explored both ways (over-approximation), conditions on the real manager / request / wait result are evaluated for real")
			r.Assume("process-exit paths (termination signals, Fatalln after a failed rollback, `Listener failed; exiting`) are listed but not executed: the statement speaks about a dae that keeps running")
			r.Assume("the previous generation is a zero control.ControlPlane; the real startControlPlaneRetirement goroutine runs on it including the real Close(); 'retired' is observed inside Close() (the function planted in the plane's cancel field, called first by Close) where the scheduler decides how long the teardown lasts; the part of Close after that point and RunReloadRetirementCleanup (successor is nil) are not separately observable")
			r.Assume("the progress file is an in-memory cell behind the setRunSignalProgress/getRunSignalProgress seams (each access is one scheduling point); resetReloadProxyRuntimeState is replaced by a counter")
			r.Assume("environment of a retirement (free choice per fully explored request): stale connections aborted at once | graceful drain with one session of the old generation that never ends and retirement budget left | the same with the virtual clock advanced past reloadTotalSwitchBudget before the retirement is registered (budget exhausted); at rest means: virtual time advanced past the ready timeout, the retirement budget and the muting window")
			r.Assume("exploration is partitioned: in every scenario one request is explored through ALL alternatives of its class (fail / staged / nonstaged), the other requests through one canonical representative; every class takes both roles across the scenario list; the statically possible `listener == nil while reloading` branch of the main loop is offered only in the scenarios marked +relisten")
			r.Assume("signals are delivered like os/signal does (non-blocking send into the 1-slot channel); a signal raised while the previous one is still in the channel is not modelled (the runtime drops it)")
		},
	}
	vdrive.Main("C20", p)
}
