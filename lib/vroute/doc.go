// Package vroute is the shared routing-program library of the /verif checks C01 (first-match routing),
// C02 (kernel route() == userspace matcher) and C04 (optimizers preserve meaning).
//
// It does NOT import package control (nor component/routing, config): harnesses on either side of a
// differential can use it freely. It imports only pkg/config_parser (the grammar/AST) and the standard library.
//
// Three parts, all deterministic and completely enumerable (no sampling anywhere):
//
// 1. Program generator — finite indexable spaces of routing sections
//
//	s := vroute.Tier1()                                    // every single rule, 1-2 '&&'-joined conditions, boundary alphabets
//	s := vroute.Tier2(n, perRule, vroute.Tier2Outbounds)   // all programs of exactly n rules over three atoms A,B,C (4 rotations)
//	s := vroute.Tier2Over(vroute.AllRotations(), n, perRule, outs)   // the same plus RotationMacIP (mac x sip x dip)
//	s := vroute.Tier3(n, nValues)                          // all programs of n single-condition rules [!]f(v): merge/sort/dedup triggers
//	s := vroute.Concat("name", s1, s2)
//	for i := 0; i < s.Len(); i++ { p := s.At(i) ... }     // At is pure: safe from r.ParallelFor
//	p.ConfigText()    // complete config document (global{} group{g1,g2} routing{...}); values quoted where the grammar needs it
//	p.RoutingBody()   // only the routing section body;  vroute.WrapRouting(body) wraps any body the same way
//	p.Rules / p.Fallback / p.OneLine()                     // structured description (Rule{Conds []Cond{Func,Not,Params}, Out})
//	vroute.Groups                                          // {"g1","g2"}: the groups the programs reference, in id order
//
//	Tier 1 alphabets (gen.go): dip/ip/sip {0.0.0.0/0, 128.0.0.0/1, 10.0.0.0/8, 10.1.2.2/31, 10.1.2.3, ::/0, fe00::/7,
//	2001:db8::/127, 2001:db8::1/128, ::ffff:10.1.2.3}; dport/port/sport {0, 1, 79-81, 65535, 0-65535}; l4proto, ipversion
//	all non-empty subsets; mac {zero, 02:42:ac:11:00:02, ff:…}; pname of 15/16/17 bytes and "curl"; dscp {0, 63, 0x4};
//	domain {suffix:, suffix: with leading dot, bare, domain:, full: x2, keyword:, contains:, regex: x2}; every 1- and
//	2-value set ('domain' pairs mix keys in one call); '!' on/off; 7 outbounds x 3 fallbacks (+ g2(mark:0x9) for one-condition rules). Two-condition rules use a
//	reduced alphabet (per function one 1-value and one 2-value set) in every ordered pair.
//
// 2. Packet generator — for ONE program the full product of the boundary values of its own constants
//
//	pkts := vroute.PacketsFor(p, vroute.PacketOpts{MappedForms: true})   // see PacketsFor for the exact per-dimension sets
//	PacketOpts.Compact     one inside + one outside neighbour per constant (for the big 3-rule spaces)
//	PacketOpts.ExtraDports e.g. {53} for C02
//	vroute.FromAST(rules, fallback) turns a parsed/optimised rule AST back into a *Program (so PacketsFor works on it)
//
// 3. Reference interpreter — the statement of C01 over the parsed AST, independent of the implementation
//
//	sections, _ := config_parser.Parse(text)
//	ref, err := vroute.NewReferenceFromSections(sections)   // BEFORE config.New: that patches the AST in place
//	ref, err := vroute.NewReferenceFromText(text)           // parses itself
//	ref, err := vroute.NewReference(rules, fallbackFn)      // from []*config_parser.RoutingRule + fallback Function
//	d, hit := ref.Decide(&pkt)    // d = Decision{Outbound name, Mark, Must}; hit.Rule = deciding rule (-1 fallback),
//	                              // hit.MustRules = number of must_rules rules that held on the way
//
//	Semantics: top to bottom; a rule holds iff all conditions hold; a condition holds iff (any value matches) XOR '!';
//	must_rules sets a sticky must and continues; result = first holding rule's (outbound, mark, must OR sticky), else the
//	fallback's. Values: CIDR containment with IPv4 as IPv4-mapped (bare address = /32 or /128); inclusive port ranges;
//	tcp/udp, 4/6 sets (a packet is IPv4 iff its destination is IPv4, plain or mapped); exact MAC, a negated mac
//	condition never holds for the zero MAC; exact DSCP (Go integer syntax); pname on the first 16 bytes, never matching
//	when the packet has none; domain on the lower-cased name without one trailing dot: full = identical, suffix = equal or
//	ends with "."+p (leading-dot pattern: proper sub-names only), keyword = contains, regex = Go regexp; no known domain
//	matches nothing. Aliases: dip=ip, dport=port, domain keys ""/"domain" = suffix, "contains" = keyword. Outbounds:
//	must_X = X(must) (must_rules is the built-in), X(mark: N), X(must).
//	vroute.SelfTest() runs the reference on a table of hand-derived cases; call it first and treat an error as exit 2.
//	Not supported (error from NewReference): geoip:/geosite:/ext: values, unknown functions or keys.
package vroute
