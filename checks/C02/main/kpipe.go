package main

// A pipelined client of kdrv (engine K), speaking the wire protocol documented in /verif/kshim/README.md.
// lib/vkern performs one blocking round trip per operation; loading one routing program takes 10-40 operations, and
// on a heavily loaded host every round trip between two processes costs a scheduler time slice. Here all requests
// of one program (reset, rule array, tries, domain tables, route batches) are written back to back by a writer
// goroutine while the caller reads the responses in order: one hand-over per program instead of one per operation.
// kdrv itself is unchanged (it reads one framed request at a time from stdin with exact-length reads).

import (
	"bufio"
	"bytes"
	"encoding/binary"
	"fmt"
	"io"
	"os"
	"os/exec"
	"strings"

	"github.com/daeuniverse/dae/verifx/vkern"
)

const (
	opHello          = 0x01
	opReset          = 0x02
	opMapUpdate      = 0x03
	opMapClear       = 0x07
	opMapCreateInner = 0x08
	opRoute          = 0x20
)

type mapInfo struct {
	name                                                 string
	id, typ, keySize, valueSize, maxEntries, flags       uint32
	innerType, innerKey, innerValue, innerMax, innerFlag uint32
}

type kproc struct {
	cmd       *exec.Cmd
	in        io.WriteCloser
	out       *bufio.Reader
	stderr    bytes.Buffer
	maps      map[string]mapInfo
	innerBase uint32 // id the first MAP_CREATE_INNER after a RESET returns
}

type rd struct {
	b   []byte
	err error
}

func (r *rd) take(n int) []byte {
	if r.err != nil || n > len(r.b) {
		r.err = io.ErrUnexpectedEOF
		return make([]byte, n)
	}
	x := r.b[:n]
	r.b = r.b[n:]
	return x
}
func (r *rd) u32() uint32 { return binary.LittleEndian.Uint32(r.take(4)) }
func (r *rd) i32() int32  { return int32(r.u32()) }
func (r *rd) u64() uint64 { return binary.LittleEndian.Uint64(r.take(8)) }
func (r *rd) str() string { n := binary.LittleEndian.Uint16(r.take(2)); return string(r.take(int(n))) }

// session accumulates the framed requests of one program; kinds remembers what each response means.
type session struct {
	buf   []byte
	kinds []byte
	sizes []int // number of per-entry results expected (updates: rc count, route: result count)
}

func (s *session) frame(op byte, body []byte, n int) {
	s.buf = binary.LittleEndian.AppendUint32(s.buf, uint32(1+len(body)))
	s.buf = append(s.buf, op)
	s.buf = append(s.buf, body...)
	s.kinds = append(s.kinds, op)
	s.sizes = append(s.sizes, n)
}

func putStr(b []byte, s string) []byte {
	b = binary.LittleEndian.AppendUint16(b, uint16(len(s)))
	return append(b, s...)
}

func (s *session) reset()          { s.frame(opReset, nil, 0) }
func (s *session) clear(m string)  { s.frame(opMapClear, putStr(nil, m), 0) }
func (s *session) create(m string) { s.frame(opMapCreateInner, putStr(nil, m), 0) }

func (s *session) update(m string, keys, values [][]byte) {
	b := putStr(nil, m)
	b = binary.LittleEndian.AppendUint64(b, vkern.BPF_ANY)
	b = binary.LittleEndian.AppendUint32(b, uint32(len(keys)))
	for i := range keys {
		b = append(b, keys[i]...)
		b = append(b, values[i]...)
	}
	s.frame(opMapUpdate, b, len(keys))
}

func (s *session) route(args []vkern.RouteArg) {
	b := make([]byte, 0, 4+100*len(args))
	b = binary.LittleEndian.AppendUint32(b, uint32(len(args)))
	for i := range args {
		a := &args[i]
		for _, f := range a.Flag {
			b = binary.LittleEndian.AppendUint32(b, f)
		}
		b = append(b, a.L4Hdr[:]...)
		b = append(b, a.Saddr[:]...)
		b = append(b, a.Daddr[:]...)
		b = append(b, a.Mac[:]...)
	}
	s.frame(opRoute, b, len(args))
}

// response of one request
type resp struct {
	status int32
	msg    string
	rc     []int32 // MAP_UPDATE
	id     uint32  // MAP_CREATE_INNER
	res    []int64 // ROUTE
}

func startKproc() (*kproc, error) {
	path := vkern.KdrvPath()
	cmd := exec.Command(path)
	k := &kproc{cmd: cmd, maps: map[string]mapInfo{}}
	cmd.Stderr = &k.stderr
	cmd.Env = os.Environ()
	in, err := cmd.StdinPipe()
	if err != nil {
		return nil, err
	}
	out, err := cmd.StdoutPipe()
	if err != nil {
		return nil, err
	}
	k.in, k.out = in, bufio.NewReaderSize(out, 1<<16)
	if err := cmd.Start(); err != nil {
		return nil, fmt.Errorf("cannot start %s: %w", path, err)
	}
	var s session
	s.frame(opHello, nil, 0)
	body, st, err := k.one(&s)
	if err != nil || st != 0 {
		return nil, fmt.Errorf("kdrv HELLO failed: %v status=%d", err, st)
	}
	r := &rd{b: body}
	if v := r.u32(); v != 1 {
		return nil, fmt.Errorf("kdrv protocol version %d, want 1", v)
	}
	n := r.u32()
	for i := uint32(0); i < n; i++ {
		var m mapInfo
		m.name = r.str()
		m.id, m.typ, m.keySize, m.valueSize, m.maxEntries, m.flags = r.u32(), r.u32(), r.u32(), r.u32(), r.u32(), r.u32()
		_ = r.u32() // count
		m.innerType, m.innerKey, m.innerValue, m.innerMax, m.innerFlag = r.u32(), r.u32(), r.u32(), r.u32(), r.u32()
		k.maps[m.name] = m
	}
	if r.err != nil {
		return nil, fmt.Errorf("kdrv HELLO: short response")
	}
	// learn the id sequence of inner maps after a reset (it is part of the boot snapshot, hence fixed)
	var q session
	q.reset()
	q.create("lpm_array_map")
	q.reset()
	rs, err := k.exec(&q)
	if err != nil {
		return nil, err
	}
	if rs[1].status != 0 {
		return nil, fmt.Errorf("kdrv cannot create an inner LPM trie: %s", rs[1].msg)
	}
	k.innerBase = rs[1].id
	return k, nil
}

// one sends a single-request session and returns the raw body.
func (k *kproc) one(s *session) (body []byte, status int32, err error) {
	if _, err = k.in.Write(s.buf); err != nil {
		return nil, 0, k.died(err)
	}
	return k.readResp()
}

func (k *kproc) readResp() (body []byte, status int32, err error) {
	var lb [4]byte
	if _, err = io.ReadFull(k.out, lb[:]); err != nil {
		return nil, 0, k.died(err)
	}
	n := binary.LittleEndian.Uint32(lb[:])
	buf := make([]byte, n)
	if _, err = io.ReadFull(k.out, buf); err != nil {
		return nil, 0, k.died(err)
	}
	if n < 4 {
		return nil, 0, fmt.Errorf("kdrv: short response")
	}
	return buf[4:], int32(binary.LittleEndian.Uint32(buf)), nil
}

func (k *kproc) died(err error) error {
	werr := k.cmd.Wait()
	se := strings.TrimSpace(k.stderr.String())
	if len(se) > 4000 {
		se = se[:4000]
	}
	return fmt.Errorf("kdrv died (%v; wait: %v); stderr:\n%s", err, werr, se)
}

// exec runs all requests of the session and returns one resp per request, in order.
func (k *kproc) exec(s *session) ([]resp, error) {
	werr := make(chan error, 1)
	go func() {
		_, err := k.in.Write(s.buf)
		werr <- err
	}()
	out := make([]resp, len(s.kinds))
	for i, kind := range s.kinds {
		body, st, err := k.readResp()
		if err != nil {
			return nil, err
		}
		r := &rd{b: body}
		out[i].status = st
		if st != 0 {
			out[i].msg = r.str()
			continue
		}
		switch kind {
		case opMapUpdate:
			out[i].rc = make([]int32, s.sizes[i])
			for j := range out[i].rc {
				out[i].rc[j] = r.i32()
			}
		case opMapCreateInner:
			out[i].id = r.u32()
		case opRoute:
			out[i].res = make([]int64, s.sizes[i])
			for j := range out[i].res {
				out[i].res[j] = int64(r.u64())
			}
		}
		if r.err != nil {
			return nil, fmt.Errorf("kdrv: short response to op %#x", kind)
		}
	}
	if err := <-werr; err != nil {
		return nil, k.died(err)
	}
	return out, nil
}

func (k *kproc) close() error {
	k.in.Close()
	return k.cmd.Wait()
}
