module c19gen

go 1.26
