//go:build verif

package control

import (
	"fmt"
	"net/netip"
	"sort"
	"strings"
	"time"

	"github.com/daeuniverse/dae/verifx/vsched"
	"github.com/daeuniverse/dae/verifx/vtime"
)

// ---- C13 harness 1: UdpTaskPool ---------------------------------------------------------------------

type tpEmit struct {
	key   int
	sleep time.Duration // virtual sleep before this emit
}

type tpObs struct {
	accepted  map[string]int   // task id -> times accepted
	executed  map[string]int   // task id -> times executed
	order     map[int][]string // key -> execution order of task ids
	running   map[int]int      // key -> tasks of that key currently inside their body
	overlap   []string
	threadKey map[int]map[int]bool // convoy thread -> keys it executed
	pool      *UdpTaskPool
	prodDone  int
	events    []string
}

var tpCur *tpObs

func tpKey(i int) UdpFlowKey {
	return UdpFlowKey{Src: netip.AddrPortFrom(netip.AddrFrom4([4]byte{10, 0, 0, byte(i)}), 1000), Dst: netip.MustParseAddrPort("1.1.1.1:53")}
}

func tpScenario(name string, producers [][]tpEmit, taskYields bool) *vsched.Scenario {
	body := func() {
		o := &tpObs{accepted: map[string]int{}, executed: map[string]int{}, order: map[int][]string{}, running: map[int]int{}, threadKey: map[int]map[int]bool{}}
		tpCur = o
		o.pool = NewUdpTaskPool()
		for pi, emits := range producers {
			pi, emits := pi, emits
			vsched.GoNamed(fmt.Sprintf("producer%d", pi), func() {
				for ei, em := range emits {
					if em.sleep > 0 {
						vtime.Sleep(em.sleep)
					}
					id := fmt.Sprintf("p%d.%d/k%d", pi, ei, em.key)
					key := em.key
					o.pool.EmitTask(tpKey(key), func() {
						o.executed[id]++
						o.order[key] = append(o.order[key], id)
						o.running[key]++
						if o.running[key] > 1 {
							o.overlap = append(o.overlap, id)
						}
						tid := vsched.ThreadID()
						if o.threadKey[tid] == nil {
							o.threadKey[tid] = map[int]bool{}
						}
						o.threadKey[tid][key] = true
						if taskYields {
							vsched.Yield()
						}
						o.running[key]--
					})
					o.accepted[id]++ // EmitTask returned on an open pool: the task was accepted
				}
				o.prodDone++
			})
		}
		vsched.WaitUntil(func() bool { return o.prodDone == len(producers) })
	}
	check := func(r *vsched.Result) (string, any) {
		o := tpCur
		if r.Status == vsched.StPanic {
			return "panic in managed thread: " + firstLine(r.PanicMsg), r.PanicMsg
		}
		if r.Status == vsched.StHorizon {
			return "", nil // counted by the explorer as a horizon hit (cap), never a verdict
		}
		if o.prodDone != len(producers) {
			return "deadlock: producers blocked: " + strings.Join(r.Blocked, "; "), nil
		}
		// exactly once
		var ids []string
		for id := range o.accepted {
			ids = append(ids, id)
		}
		sort.Strings(ids)
		for _, id := range ids {
			if o.executed[id] == 0 {
				return "accepted task never executed (lost): " + id, map[string]any{"order": o.order}
			}
			if o.executed[id] > 1 {
				return "task executed more than once: " + id, map[string]any{"order": o.order}
			}
		}
		if len(o.overlap) > 0 {
			return "two tasks of one flow ran concurrently: " + o.overlap[0], nil
		}
		// per-producer program order within a key
		for key, seq := range o.order {
			last := map[string]int{}
			for _, id := range seq {
				var p, e, k int
				fmt.Sscanf(id, "p%d.%d/k%d", &p, &e, &k)
				pk := fmt.Sprintf("p%d", p)
				if prev, ok := last[pk]; ok && e < prev {
					return fmt.Sprintf("tasks of flow k%d ran out of acceptance order: %v", key, seq), nil
				}
				last[pk] = e
			}
		}
		for tid, keys := range o.threadKey {
			if len(keys) > 1 {
				return fmt.Sprintf("worker thread T%d executed tasks of %d different flows", tid, len(keys)), nil
			}
		}
		// leak-freedom: after quiescence (idle timers fired) no worker is left and the table is empty
		if len(r.Blocked) > 0 {
			return "worker threads left after quiescence: " + strings.Join(r.Blocked, "; "), nil
		}
		n := 0
		o.pool.queues.Range(func(k, v any) bool { n++; return true })
		if n != 0 {
			return fmt.Sprintf("%d queue(s) left in the table after quiescence", n), nil
		}
		return "", nil
	}
	outcome := func(r *vsched.Result) string {
		o := tpCur
		var ks []int
		for k := range o.order {
			ks = append(ks, k)
		}
		sort.Ints(ks)
		var sb strings.Builder
		for _, k := range ks {
			fmt.Fprintf(&sb, "k%d:%v;", k, o.order[k])
		}
		fmt.Fprintf(&sb, "threads=%d now=%d", r.Threads, (r.Now-1_700_000_000_000_000_000)/1e6)
		return sb.String()
	}
	return &vsched.Scenario{Name: name, Body: body, Check: check, Outcome: outcome, MaxSteps: 4000, HorizonNs: int64(5 * time.Second)}
}

func tpRepeat(key, n int) []tpEmit {
	out := make([]tpEmit, n)
	for i := range out {
		out[i].key = key
	}
	return out
}

func firstLine(s string) string {
	if i := strings.IndexByte(s, '\n'); i >= 0 {
		return s[:i]
	}
	return s
}

func VerifTaskPoolScenarios() []*vsched.Scenario {
	age := UdpTaskPoolAgingTime
	return []*vsched.Scenario{
		tpScenario("tp-2prod-samekey", [][]tpEmit{{{key: 1}}, {{key: 1}}}, true),
		tpScenario("tp-idle-vs-emit", [][]tpEmit{{{key: 1}, {key: 1, sleep: age}}}, false),
		tpScenario("tp-idle-vs-2emit", [][]tpEmit{{{key: 1}}, {{key: 1, sleep: age}}}, false),
		tpScenario("tp-overflow", [][]tpEmit{{{key: 1}, {key: 1}, {key: 1}, {key: 1}}}, false),
		tpScenario("tp-2keys-3prod", [][]tpEmit{{{key: 1}, {key: 2}}, {{key: 2}}}, false),
		// 12 tasks of one flow against a channel of 2: the overflow list grows to 10 (capacity 16) and is drained from the
		// front (each pop also takes one off the capacity) until 0 < len < cap/4 holds and the shrink branch copies the
		// remainder into a fresh list — which must keep every queued task.
		tpScenario("tp-deep-overflow", [][]tpEmit{tpRepeat(1, 12)}, false),
	}
}
