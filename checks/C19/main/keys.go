package main

// Leg 3: key constructors. Every key the control plane computes is compared, byte for byte (padding included), with
// the key the kernel program computes for the same logical entity — the C side being EXECUTED in kdrv:
//   tuples   : bpfTuplesKeyFromAddrPorts  vs get_tuples() (OP_PARSE) and vs the keys the TC programs actually store in
//              conn_state_map / routing_handoff_map for a frame carrying the tuple; the stored values are then read
//              back the way RetrieveRoutingResult does (lookup with the Go key, decode with the Go structs)
//   slots    : outboundConnectivityMapKey vs the key wan_outbound_is_alive() looks up (map-operation trace), and the
//              behaviour when exactly the Go-computed slot is cleared
//   prefixes : cidrToBpfLpmKey bytes stored in an inner LPM trie vs the key route() looks up, decided by the verdict of
//              the real lan-ingress path; the looked-up key equals the Go key of the full-length prefix
//   domains  : the domain_routing_map key of buildDomainRoutingOwnerSnapshot vs the key route() looks up
//   listeners: listen_socket_map slots vs assign_listener()

import (
	"bytes"
	"encoding/binary"
	"encoding/hex"
	"fmt"
	"net/netip"
	"reflect"
	"unsafe"

	"github.com/daeuniverse/dae/common/consts"
	"github.com/daeuniverse/dae/control"
	"github.com/daeuniverse/dae/verifx/vkern"
)

const (
	ethIP4 = 0x0800
	ethIP6 = 0x86dd
	tcp    = 6
	udp    = 17
)

var (
	srcMAC = [6]byte{0x02, 0xaa, 0xbb, 0xcc, 0xdd, 0x01}
	dstMAC = [6]byte{0x02, 0x11, 0x22, 0x33, 0x44, 0x55}
	peerMAC = [6]byte{0x06, 0x5e, 0x00, 0x77, 0x88, 0x99}
)

const daeIfindex = 77

// frame builds eth? + ip + l4 (TCP SYN, or UDP with 4 payload bytes). tos is the IPv4 TOS / IPv6 traffic class.
func frame(l2 bool, src, dst netip.AddrPort, proto uint8, tos uint8) (b []byte, ethertype uint16) {
	return frameFlags(l2, src, dst, proto, tos, 0x02) // TCP: SYN
}

func frameFlags(l2 bool, src, dst netip.AddrPort, proto uint8, tos uint8, tcpFlags uint8) (b []byte, ethertype uint16) {
	v6 := src.Addr().Is6() && !src.Addr().Is4In6()
	if l2 {
		b = append(b, dstMAC[:]...)
		b = append(b, srcMAC[:]...)
		if v6 {
			b = append(b, 0x86, 0xdd)
		} else {
			b = append(b, 0x08, 0x00)
		}
	}
	var l4 []byte
	if proto == tcp {
		l4 = make([]byte, 20)
		binary.BigEndian.PutUint16(l4[0:], src.Port())
		binary.BigEndian.PutUint16(l4[2:], dst.Port())
		binary.BigEndian.PutUint32(l4[4:], 1000)
		l4[12] = 5 << 4
		l4[13] = tcpFlags
		binary.BigEndian.PutUint16(l4[14:], 65535)
	} else {
		l4 = make([]byte, 12)
		binary.BigEndian.PutUint16(l4[0:], src.Port())
		binary.BigEndian.PutUint16(l4[2:], dst.Port())
		binary.BigEndian.PutUint16(l4[4:], 12)
		copy(l4[8:], "abcd")
	}
	if v6 {
		h := make([]byte, 40)
		h[0] = 0x60 | tos>>4
		h[1] = tos << 4
		binary.BigEndian.PutUint16(h[4:], uint16(len(l4)))
		h[6] = proto
		h[7] = 64
		s, d := src.Addr().As16(), dst.Addr().As16()
		copy(h[8:], s[:])
		copy(h[24:], d[:])
		b = append(append(b, h...), l4...)
		return b, ethIP6
	}
	h := make([]byte, 20)
	h[0] = 0x45
	h[1] = tos
	binary.BigEndian.PutUint16(h[2:], uint16(20+len(l4)))
	h[6] = 0x40
	h[8] = 64
	h[9] = proto
	s, d := src.Addr().Unmap().As4(), dst.Addr().Unmap().As4()
	copy(h[12:], s[:])
	copy(h[16:], d[:])
	b = append(append(b, h...), l4...)
	return b, ethIP4
}

func le32(v uint32) []byte { return binary.LittleEndian.AppendUint32(nil, v) }

func (c *checker) must(err error) {
	if err != nil {
		c.broken("engine K: %v", err)
	}
}

// setParam writes PARAM through the Go literal type's own layout (reflect over the generated alias).
func (c *checker) goParamBytes(vals map[string]any) []byte {
	t := control.VerifC19Param.Type
	v := reflect.New(t).Elem()
	for i := 0; i < t.NumField(); i++ {
		f := t.Field(i)
		val, ok := vals[norm(f.Name)]
		if !ok {
			continue
		}
		p := unsafe.Pointer(v.Field(i).UnsafeAddr())
		switch x := val.(type) {
		case uint32:
			*(*uint32)(p) = x
		case uint8:
			*(*uint8)(p) = x
		case [6]byte:
			*(*[6]byte)(p) = x
		}
	}
	return append([]byte(nil), unsafe.Slice((*byte)(unsafe.Pointer(v.UnsafeAddr())), t.Size())...)
}

func rule(value uint32, typ consts.MatchType, outbound uint8, mark uint32) []byte {
	var v [16]byte
	binary.LittleEndian.PutUint32(v[:], value)
	return control.VerifC19MatchSet(v, false, typ, outbound, false, mark)
}

func (c *checker) loadRules(k *vkern.K, rules ...[]byte) {
	keys := make([][]byte, len(rules))
	for i := range rules {
		keys[i] = le32(uint32(i))
	}
	rc, err := k.MapUpdate("routing_map", vkern.BPF_ANY, keys, rules)
	c.must(err)
	for i, x := range rc {
		if x != 0 {
			c.broken("routing_map rejects rule %d: rc=%d", i, x)
		}
	}
	c.must(k.MapUpdate1("routing_meta_map", le32(0), le32(uint32(len(rules))), vkern.BPF_ANY))
}

func (c *checker) allAlive(k *vkern.K) {
	for ob := 0; ob < 256; ob++ {
		for _, udpf := range []bool{false, true} {
			for _, v6 := range []bool{false, true} {
				for _, dns := range []bool{false, true} {
					if dns && !udpf {
						continue
					}
					_, kb := control.VerifC19ConnectivityKey(uint8(ob), udpf, v6, dns)
					rc, err := k.MapUpdate("outbound_connectivity_map", vkern.BPF_ANY, [][]byte{kb}, [][]byte{le32(1)})
					c.must(err)
					if rc[0] != 0 {
						c.viol("slots", fmt.Sprintf("connectivity: the Go key for outbound=%d udp=%v v6=%v dns=%v is rejected by outbound_connectivity_map (rc=%d, key=%s)", ob, udpf, v6, dns, rc[0], hex.EncodeToString(kb)), nil)
					}
				}
			}
		}
	}
}

func ap(a string, p uint16) netip.AddrPort { return netip.AddrPortFrom(netip.MustParseAddr(a), p) }

func mapped(a netip.AddrPort) netip.AddrPort {
	return netip.AddrPortFrom(netip.AddrFrom16(a.Addr().As16()), a.Port())
}

func (c *checker) legTuples(k *vkern.K) {
	c.must(k.Reset())
	pb := c.goParamBytes(map[string]any{"dae0ifindex": uint32(daeIfindex), "dae0peermac": peerMAC, "controlplanepid": uint32(4242), "daenetnsid": uint32(9)})
	if err := k.SetParam(pb); err != nil {
		c.viol("tuples", "PARAM: the bytes of the Go constant literal are not accepted as the C struct: "+err.Error(), nil)
		return
	}
	const proxyOutbound, ruleMark = 2, 0x1234
	c.loadRules(k, rule(0, consts.MatchType_Fallback, proxyOutbound, ruleMark))
	c.allAlive(k)
	base, err := k.Snapshot()
	c.must(err)

	type pair struct{ s, d string }
	pairs4 := []pair{{"192.168.1.2", "10.1.2.3"}, {"10.0.0.1", "255.255.255.255"}, {"1.2.3.4", "0.0.0.1"}, {"172.16.255.254", "8.8.8.8"}}
	pairs6 := []pair{{"2001:db8::1", "2001:db8:ffff::2"}, {"fe80::2aa:bbff:fecc:dd01", "ff02::1:3"}, {"fd00::1", "ffff:ffff:ffff:ffff:ffff:ffff:ffff:ffff"}, {"::1:0:0:1", "2400:cb00::6810:1"}}
	ports := []uint16{0, 1, 0xff00, 65535}
	pulls := []uint32{vkern.PullKernel, vkern.PullLenient}
	if c.r.Thorough() {
		ports = append(ports, 2, 0x00ff, 0x8000, 0x1234)
		pulls = append(pulls, vkern.PullAlwaysFail)
	}
	hooks := []struct {
		name string
		l2   bool
		wan  bool
	}{{"tproxy_lan_ingress_l2", true, false}, {"tproxy_lan_ingress_l3", false, false}, {"tproxy_wan_egress_l2", true, true}, {"tproxy_wan_egress_l3", false, true}}
	nviol := 0
	report := func(sig string, detail any) {
		if nviol < 8 {
			c.viol("tuples", sig, detail)
		}
		nviol++
	}
	run := func(fam string, s, d netip.AddrPort, goForms [][2]netip.AddrPort, proto uint8) {
		const tos = 0xb8 // DSCP 46
		for _, h := range hooks {
			fr, et := frame(h.l2, s, d, proto, tos)
			for _, pull := range pulls {
				c.must(k.Restore(base))
				c.must(k.SetKnobs(vkern.Knobs{PullMode: pull, CurNetns: 9}))
				skb := &vkern.Skb{Ifindex: 3, IngressIfindex: 3, Protocol: et, Linear: ^uint32(0), Frame: fr}
				if h.wan {
					skb.IngressIfindex = 0
				}
				lh := uint32(0)
				if h.l2 {
					lh = 14
				}
				p, err := k.Parse(lh, skb)
				c.must(err)
				v, err := k.Inject(h.name, skb)
				c.must(err)
				cs, err := k.MapDump("conn_state_map", false)
				c.must(err)
				ho, err := k.MapDump("routing_handoff_map", false)
				c.must(err)
				for fi, gf := range goForms {
					gk := control.VerifC19TuplesKey(gf[0], gf[1], proto)
					id := fmt.Sprintf("%s %s proto=%d %v->%v goform=%d pull=%d", fam, h.name, proto, s, d, fi, pull)
					c.item("tuples:"+id, hex.EncodeToString(gk))
					if p.Ret != 0 {
						report(fmt.Sprintf("tuples: parse_packet rejects a plain %s frame (%v -> %v proto %d, %s): ret=%d", fam, s, d, proto, h.name, p.Ret), nil)
						continue
					}
					if !bytes.Equal(gk, p.TuplesKey()) {
						report(fmt.Sprintf("tuples: bpfTuplesKeyFromAddrPorts(%v,%v,%d) = %s but get_tuples() on the frame gives %s", gf[0], gf[1], proto, hex.EncodeToString(gk), hex.EncodeToString(p.TuplesKey())),
							map[string]any{"hook": h.name, "pull_mode": pull, "frame": hex.EncodeToString(fr)})
						continue
					}
					if v.Ret != vkern.TC_ACT_REDIRECT || v.RedirectIfindex != daeIfindex {
						report(fmt.Sprintf("tuples: %s did not hand a proxied %s flow (%v -> %v proto %d) to dae0 (ifindex %d from the Go PARAM bytes): verdict=%d redirect ifindex=%d", h.name, fam, s, d, proto, daeIfindex, v.Ret, v.RedirectIfindex), nil)
						continue
					}
					if len(cs) != 1 || !bytes.Equal(cs[0].Key, gk) {
						report(fmt.Sprintf("tuples: %s stored conn_state_map keys %s for %v -> %v proto %d; the control plane looks up %s", h.name, dumpKeys(cs), s, d, proto, hex.EncodeToString(gk)), nil)
						continue
					}
					if len(ho) != 1 || !bytes.Equal(ho[0].Key, gk) {
						report(fmt.Sprintf("tuples: %s stored routing_handoff_map keys %s for %v -> %v proto %d; the control plane looks up %s", h.name, dumpKeys(ho), s, d, proto, hex.EncodeToString(gk)), nil)
						continue
					}
					// read back like RetrieveRoutingResult: lookup by the Go key, decode with the Go structs
					vals, err := k.MapLookup("conn_state_map", [][]byte{gk})
					c.must(err)
					dec, ok := control.VerifC19DecodeConnState(vals[0])
					wantMac := [6]byte{}
					if h.l2 {
						wantMac = srcMAC
					}
					if !ok || dec.HasRouting != 1 || dec.Outbound != proxyOutbound || dec.Mark != ruleMark || dec.Must != 0 || dec.Dscp != tos>>2 || dec.Mac != wantMac {
						report(fmt.Sprintf("tuples: conn_state_map value written by %s decodes through bpfConnState to %+v (ok=%v); kernel decided outbound=%d mark=%#x must=0 dscp=%d mac=%x", h.name, dec, ok, proxyOutbound, ruleMark, tos>>2, wantMac), map[string]any{"value": hex.EncodeToString(vals[0])})
						continue
					}
					hv, err := k.MapLookup("routing_handoff_map", [][]byte{gk})
					c.must(err)
					hd, ok := control.VerifC19DecodeHandoff(hv[0])
					if !ok || hd.Outbound != proxyOutbound || hd.Mark != ruleMark || hd.Must != 0 || hd.Dscp != tos>>2 || hd.Mac != wantMac || hd.LastSeenNs == 0 {
						report(fmt.Sprintf("tuples: routing_handoff_map value written by %s decodes through bpfRoutingHandoffEntry to %+v (ok=%v); kernel decided outbound=%d mark=%#x dscp=%d mac=%x", h.name, hd, ok, proxyOutbound, ruleMark, tos>>2, wantMac), map[string]any{"value": hex.EncodeToString(hv[0])})
						continue
					}
					if !v4or6SlowFast(pull, v) {
						report(fmt.Sprintf("tuples: harness expectation on parse path failed (pull=%d, load_bytes=%d)", pull, v.LoadBytesCalls), nil)
					}
					if len(v.Frame) < 6 || !bytes.Equal(v.Frame[:6], peerMAC[:]) {
						report(fmt.Sprintf("tuples: PARAM.dae0peer_mac written through the Go literal is not the MAC the kernel stamps on the redirected frame: %x", v.Frame[:6]), nil)
					}
				}
			}
		}
	}
	for _, proto := range []uint8{tcp, udp} {
		for _, sp := range ports {
			for _, dp := range ports {
				for _, pr := range pairs4 {
					s, d := ap(pr.s, sp), ap(pr.d, dp)
					// the same flow as the control plane may see it: plain IPv4, or v4-mapped from a dual-stack socket
					run("v4", s, d, [][2]netip.AddrPort{{s, d}, {mapped(s), mapped(d)}, {mapped(s), d}}, proto)
				}
				for _, pr := range pairs6 {
					s, d := ap(pr.s, sp), ap(pr.d, dp)
					run("v6", s, d, [][2]netip.AddrPort{{s, d}}, proto)
				}
			}
		}
	}
	c.r.Set("tuple_violations_total", nviol)
	c.r.Sample(map[string]any{"leg": "tuples", "example": "192.168.1.2:1 -> 10.1.2.3:65280 tcp", "go_key": hex.EncodeToString(control.VerifC19TuplesKey(ap("192.168.1.2", 1), ap("10.1.2.3", 0xff00), tcp))})
}

// in kernel pull mode every test frame is shorter than 128 bytes, so the byte-load path must have run; in lenient
// mode the direct-access path must have run (no bpf_skb_load_bytes from the parser).
func v4or6SlowFast(pull uint32, v *vkern.Verdict) bool {
	if pull == vkern.PullKernel || pull == vkern.PullAlwaysFail {
		return v.PullFails > 0 && v.LoadBytesCalls > 0
	}
	return v.PullFails == 0 && v.LoadBytesCalls == 0
}

func dumpKeys(es []vkern.Entry) string {
	s := "["
	for i, e := range es {
		if i > 0 {
			s += " "
		}
		s += hex.EncodeToString(e.Key)
	}
	return s + "]"
}

func (c *checker) legSlots(k *vkern.K) {
	c.must(k.Reset())
	nviol := 0
	report := func(sig string) {
		if nviol < 8 {
			c.viol("slots", sig, nil)
		}
		nviol++
	}
	type combo struct {
		ob       int
		udpf, v6 bool
		dns      bool
	}
	var combos []combo
	for ob := 0; ob < 256; ob++ {
		for _, dom := range []int{0, 1, 2} {
			for _, v6 := range []bool{false, true} {
				combos = append(combos, combo{ob, dom != 0, v6, dom == 1})
			}
		}
	}
	probe := func(cb combo) (alive bool, keys [][]byte) {
		et := uint16(ethIP4)
		if cb.v6 {
			et = ethIP6
		}
		l4, dport := uint8(tcp), uint16(443)
		if cb.udpf {
			l4, dport = udp, 4000
			if cb.dns {
				dport = 53
			}
		}
		c.must(k.TraceStart())
		a, err := k.OutboundAlive(et, uint8(cb.ob), l4, dport)
		c.must(err)
		tr, err := k.TraceStop()
		c.must(err)
		for _, t := range tr {
			if t.Map == "outbound_connectivity_map" && t.Op == 1 {
				keys = append(keys, t.Key)
			}
		}
		return a, keys
	}
	dnsNoLookup := 0
	c.allAlive(k)
	allOne, err := k.Snapshot()
	c.must(err)
	seen := map[uint32]combo{}
	for _, cb := range combos {
		gk, gkb := control.VerifC19ConnectivityKey(uint8(cb.ob), cb.udpf, cb.v6, cb.dns)
		id := fmt.Sprintf("outbound=%d udp=%v dns=%v v6=%v", cb.ob, cb.udpf, cb.dns, cb.v6)
		c.item("slots:"+id, fmt.Sprint(gk))
		if prev, dup := seen[gk]; dup {
			report(fmt.Sprintf("slots: outboundConnectivityMapKey gives slot %d both to (%s) and to (%+v)", gk, id, prev))
			continue
		}
		seen[gk] = cb
		// (a) which key does the kernel look up?
		c.must(k.Restore(allOne))
		alive, keys := probe(cb)
		if cb.dns {
			// statement of the C code: DNS (port 53) always reaches the control plane; no slot is consulted
			if len(keys) == 0 && alive {
				dnsNoLookup++
			} else if len(keys) != 1 || !bytes.Equal(keys[0], gkb) {
				report(fmt.Sprintf("slots: for %s the kernel looks up %s, the control plane writes slot %d (%s)", id, hexKeys(keys), gk, hex.EncodeToString(gkb)))
			}
			continue
		}
		if len(keys) != 1 || !bytes.Equal(keys[0], gkb) || !alive {
			report(fmt.Sprintf("slots: for %s the kernel looks up %s (alive=%v), the control plane writes slot %d (%s)", id, hexKeys(keys), alive, gk, hex.EncodeToString(gkb)))
			continue
		}
		// (b) clearing exactly the Go slot must take exactly this (outbound, domain, family) down
		c.must(k.MapUpdate1("outbound_connectivity_map", gkb, le32(0), vkern.BPF_ANY))
		if a, _ := probe(cb); a {
			report(fmt.Sprintf("slots: clearing the slot the control plane computes for %s (%d) does not mark it dead in the kernel", id, gk))
		}
		other := cb
		other.v6 = !cb.v6
		if a, _ := probe(other); !a {
			report(fmt.Sprintf("slots: clearing the slot of %s (%d) also takes the other address family down", id, gk))
		}
	}
	c.r.Set("slots_dns_udp_never_consulted_by_kernel", dnsNoLookup)
	c.r.Set("slot_violations_total", nviol)
}

func hexKeys(ks [][]byte) string {
	s := "["
	for i, k := range ks {
		if i > 0 {
			s += " "
		}
		s += hex.EncodeToString(k)
	}
	return s + "]"
}

var lpmPool = []string{
	"0.0.0.0/0", "0.0.0.0/1", "128.0.0.0/1", "10.0.0.0/8", "10.1.2.0/24", "10.1.2.77/24", "10.1.2.2/31", "10.1.2.3/32", "255.255.255.255/32",
	"::/0", "::/1", "8000::/1", "2001:db8::/64", "2001:db8::/127", "2001:db8::1/128", "::ffff:10.1.2.0/120", "::ffff:0:0/96",
	"ffff:ffff:ffff:ffff:ffff:ffff:ffff:ffff/128", "::/128", "fe80::/10", "2001:db8:0:1::/65",
}

func to16(p netip.Prefix) (a [16]byte, bits int) {
	bits = p.Bits()
	if p.Addr().Is4() {
		bits += 96
	}
	return p.Addr().As16(), bits
}

func leadingEqual(a, b [16]byte, bits int) bool {
	for i := 0; i < bits; i++ {
		if (a[i/8]>>(7-uint(i%8)))&1 != (b[i/8]>>(7-uint(i%8)))&1 {
			return false
		}
	}
	return true
}

func addDelta(a [16]byte, d int) ([16]byte, bool) {
	if d > 0 {
		for i := 15; i >= 0; i-- {
			a[i]++
			if a[i] != 0 {
				return a, true
			}
		}
		return a, false
	}
	for i := 15; i >= 0; i-- {
		a[i]--
		if a[i] != 0xff {
			return a, true
		}
	}
	return a, false
}

func probesFor(p netip.Prefix) [][16]byte {
	a, bits := to16(p)
	first, last := a, a
	for i := bits; i < 128; i++ {
		first[i/8] &^= 1 << (7 - uint(i%8))
		last[i/8] |= 1 << (7 - uint(i%8))
	}
	seen := map[[16]byte]bool{}
	var out [][16]byte
	add := func(x [16]byte) {
		if !seen[x] {
			seen[x] = true
			out = append(out, x)
		}
	}
	add(first)
	add(last)
	add(a)
	if b, ok := addDelta(first, -1); ok {
		add(b)
	}
	if b, ok := addDelta(last, +1); ok {
		add(b)
	}
	for _, s := range []string{"2001:db8::1", "::ffff:1.1.1.1", "fe80::1", "::ffff:10.1.2.3", "::1:0:0"} {
		add(netip.MustParseAddr(s).As16())
	}
	return out
}

// addrForFrame: an address the test can put on the wire. v4-mapped goes out as IPv4; the unspecified address and
// other forms go out as IPv6.
func wire(a [16]byte) netip.Addr {
	x := netip.AddrFrom16(a)
	if x.Is4In6() {
		return x.Unmap()
	}
	return x
}

func (c *checker) legPrefixes(k *vkern.K) {
	nviol := 0
	report := func(sig string, d any) {
		if nviol < 8 {
			c.viol("prefixes", sig, d)
		}
		nviol++
	}
	const lpmSlotDst, lpmSlotSrc = 5, 1023
	for _, ps := range lpmPool {
		p := netip.MustParsePrefix(ps)
		pa, pbits := to16(p)
		gk := control.VerifC19LpmKey(p)
		c.must(k.Reset())
		// rule 0: dip(set) -> block ; rule 1: sip(set) -> block ; fallback direct
		idD, err := k.MapCreateInner("lpm_array_map")
		c.must(err)
		idS, err := k.MapCreateInner("lpm_array_map")
		c.must(err)
		c.must(k.MapSetInner("lpm_array_map", lpmSlotDst, idD))
		c.must(k.MapSetInner("lpm_array_map", lpmSlotSrc, idS))
		for _, id := range []uint32{idD, idS} {
			rc, err := k.MapUpdate(vkern.InnerName(id), vkern.BPF_ANY, [][]byte{gk}, [][]byte{le32(1)})
			if err != nil || rc[0] != 0 {
				report(fmt.Sprintf("prefixes: the LPM trie rejects the key cidrToBpfLpmKey(%s) = %s (rc=%v err=%v)", ps, hex.EncodeToString(gk), rc, err), nil)
			}
		}
		c.loadRules(k, rule(lpmSlotDst, consts.MatchType_IpSet, uint8(consts.OutboundBlock), 0), rule(lpmSlotSrc, consts.MatchType_SourceIpSet, uint8(consts.OutboundBlock), 0),
			rule(0, consts.MatchType_Fallback, uint8(consts.OutboundDirect), 0))
		for _, pr := range probesFor(p) {
			want := leadingEqual(pa, pr, pbits)
			paddr := wire(pr)
			// a neutral peer of the same family that is outside every pool prefix except the /0 and /1 ones
			peer := netip.MustParseAddr("100.64.0.9")
			if !paddr.Is4() {
				peer = netip.MustParseAddr("4000::9")
			}
			peer16 := peer.As16()
			peerIn := leadingEqual(pa, peer16, pbits)
			for _, asDst := range []bool{true, false} {
				s, d := netip.AddrPortFrom(peer, 40000), netip.AddrPortFrom(paddr, 443)
				if !asDst {
					s, d = netip.AddrPortFrom(paddr, 40000), netip.AddrPortFrom(peer, 443)
				}
				fr, et := frame(true, s, d, tcp, 0)
				c.must(k.TraceStart())
				v, err := k.Inject("tproxy_lan_ingress_l2", &vkern.Skb{Ifindex: 3, IngressIfindex: 3, Protocol: et, Linear: ^uint32(0), Frame: fr})
				c.must(err)
				tr, err := k.TraceStop()
				c.must(err)
				c.must(k.MapClear("conn_state_map"))
				id := fmt.Sprintf("%s probe=%s dst=%v", ps, paddr, asDst)
				c.item("prefixes:"+id, fmt.Sprint(want))
				blocked := v.Ret == vkern.TC_ACT_SHOT
				// dst rule is evaluated first; when the probe is the source, the peer is the destination
				exp := want || peerIn // blocked iff the destination (rule 0) or the source (rule 1) is inside the prefix
				if blocked != exp {
					report(fmt.Sprintf("prefixes: trie holding cidrToBpfLpmKey(%s)=%s; frame %v -> %v: kernel verdict=%d, containment says blocked=%v", ps, hex.EncodeToString(gk), s, d, v.Ret, exp), map[string]any{"frame": hex.EncodeToString(fr)})
					continue
				}
				// the key route() looks up for the probe address must be the Go key of the full-length prefix
				full := control.VerifC19LpmKey(netip.PrefixFrom(paddr, paddr.BitLen()))
				inner := vkern.InnerName(idD)
				if !asDst {
					inner = vkern.InnerName(idS)
				}
				found := false
				var looked [][]byte
				for _, t := range tr {
					if t.Map == inner && t.Op == 1 {
						looked = append(looked, t.Key)
						if bytes.Equal(t.Key, full) {
							found = true
						}
					}
				}
				// rule 1 is skipped when rule 0 already hit (first match wins), so only demand the lookup when it must have happened
				mustLook := asDst || !peerIn
				if mustLook && !found {
					report(fmt.Sprintf("prefixes: for address %s route() looks up %s in the trie; cidrToBpfLpmKey(%s/%d) = %s", paddr, hexKeys(looked), paddr, paddr.BitLen(), hex.EncodeToString(full)), nil)
				}
			}
		}
	}
	c.r.Set("prefix_violations_total", nviol)
	c.r.Sample(map[string]any{"leg": "prefixes", "prefix": "10.1.2.77/24", "go_key": hex.EncodeToString(control.VerifC19LpmKey(netip.MustParsePrefix("10.1.2.77/24")))})
}

func (c *checker) legDomains(k *vkern.K) {
	nviol := 0
	report := func(sig string, d any) {
		if nviol < 8 {
			c.viol("domains", sig, d)
		}
		nviol++
	}
	addrs := []string{"1.2.3.4", "255.255.255.255", "10.1.2.3", "0.0.0.1", "2001:db8::1", "ffff:ffff:ffff:ffff:ffff:ffff:ffff:ffff", "::1", "fe80::1:2:3:4", "2400:cb00::6810:1"}
	words := consts.MaxMatchSetLen / 32
	for _, bit := range []int{0, 1, 31, 32, consts.MaxMatchSetLen - 1} {
		bitmap := make([]uint32, words)
		bitmap[bit/32] |= 1 << (uint(bit) % 32)
		for _, as := range addrs {
			a := netip.MustParseAddr(as)
			keys, val, err := control.VerifC19DomainRouting([]netip.Addr{a}, bitmap)
			id := fmt.Sprintf("addr=%s rule-bit=%d", as, bit)
			c.item("domains:"+id, "")
			if err != nil || len(keys) != 1 || keys[0] == nil {
				report(fmt.Sprintf("domains: buildDomainRoutingOwnerSnapshot fails for %s: %v", id, err), nil)
				continue
			}
			c.must(k.Reset())
			rc, err := k.MapUpdate("domain_routing_map", vkern.BPF_ANY, [][]byte{keys[0]}, [][]byte{val})
			if err != nil || rc[0] != 0 {
				report(fmt.Sprintf("domains: domain_routing_map rejects the control plane's key/value for %s: rc=%v err=%v", id, rc, err), nil)
				continue
			}
			// rules 0..bit-1: never-matching port rules; rule `bit`: domain set -> block; then fallback direct.
			// The index of a domain rule in routing_map IS its bit number.
			var rules [][]byte
			for i := 0; i < bit; i++ {
				var v [16]byte
				copy(v[:], control.VerifC19PortRange(1, 1))
				rules = append(rules, control.VerifC19MatchSet(v, false, consts.MatchType_Port, uint8(consts.OutboundDirect), false, 0))
			}
			rules = append(rules, rule(0, consts.MatchType_DomainSet, uint8(consts.OutboundBlock), 0))
			if bit < consts.MaxMatchSetLen-1 {
				rules = append(rules, rule(0, consts.MatchType_Fallback, uint8(consts.OutboundDirect), 0))
			}
			c.loadRules(k, rules...)
			a16 := a.As16()
			nb, _ := addDelta(a16, -1)
			for _, probe := range [][16]byte{a16, nb} {
				pa := wire(probe)
				peer := netip.MustParseAddr("100.64.0.9")
				if !pa.Is4() {
					peer = netip.MustParseAddr("4000::9")
				}
				fr, et := frame(true, netip.AddrPortFrom(peer, 40000), netip.AddrPortFrom(pa, 443), tcp, 0)
				c.must(k.TraceStart())
				v, err := k.Inject("tproxy_lan_ingress_l2", &vkern.Skb{Ifindex: 3, IngressIfindex: 3, Protocol: et, Linear: ^uint32(0), Frame: fr})
				c.must(err)
				tr, err := k.TraceStop()
				c.must(err)
				c.must(k.MapClear("conn_state_map"))
				want := probe == a16
				var looked [][]byte
				for _, t := range tr {
					if t.Map == "domain_routing_map" && t.Op == 1 {
						looked = append(looked, t.Key)
					}
				}
				c.item("domains:probe:"+id+":"+pa.String(), fmt.Sprint(want))
				if want && (len(looked) == 0 || !bytes.Equal(looked[0], keys[0])) {
					report(fmt.Sprintf("domains: for destination %s the kernel looks up %s in domain_routing_map; the control plane stores %s", pa, hexKeys(looked), hex.EncodeToString(keys[0])), nil)
					continue
				}
				lastRuleNoFallback := bit == consts.MaxMatchSetLen-1
				if blocked := v.Ret == vkern.TC_ACT_SHOT; blocked != want && !(lastRuleNoFallback && !want) {
					report(fmt.Sprintf("domains: %s, destination %s: kernel verdict=%d, expected blocked=%v (key %s, bitmap word %d)", id, pa, v.Ret, want, hex.EncodeToString(keys[0]), bit/32), nil)
				}
			}
		}
	}
	c.r.Set("domain_violations_total", nviol)
}

func (c *checker) legListeners(k *vkern.K) {
	c.must(k.Reset())
	t4, u, t6 := control.VerifC19ListenKeys()
	tm := uint32(c.lay.Defines["TPROXY_MARK"].Value)
	for _, tc := range []struct {
		l4   uint8
		et   uint16
		slot uint32
		name string
	}{{tcp, ethIP4, t4, "tcp4"}, {tcp, ethIP6, t6, "tcp6"}, {udp, ethIP4, u, "udp(v4 frame)"}, {udp, ethIP6, u, "udp(v6 frame)"}} {
		c.must(k.SetSocks([]vkern.Sock{{ID: 7, Family: 10, Proto: tc.l4, State: vkern.TCPListen, Flags: vkern.SockLocalWildcard | vkern.SockUnconnected | vkern.SockDualStack, LPort: 12345}}))
		c.must(k.MapClear("listen_socket_map"))
		v8 := binary.LittleEndian.AppendUint64(nil, 7)
		c.must(k.MapUpdate1("listen_socket_map", le32(tc.slot), v8, vkern.BPF_ANY))
		s, d := ap("192.168.1.2", 1000), ap("10.1.2.3", 443)
		if tc.et == ethIP6 {
			s, d = ap("2001:db8::1", 1000), ap("2001:db8::2", 443)
		}
		fr, _ := frame(true, s, d, tc.l4, 0)
		c.must(k.TraceStart())
		v, err := k.Inject("tproxy_dae0peer_ingress", &vkern.Skb{Ifindex: 9, IngressIfindex: 9, Protocol: tc.et, Cb: [5]uint32{tm, uint32(tc.l4)}, Linear: ^uint32(0), Frame: fr})
		c.must(err)
		tr, err := k.TraceStop()
		c.must(err)
		var looked [][]byte
		for _, t := range tr {
			if t.Map == "listen_socket_map" {
				looked = append(looked, t.Key)
			}
		}
		c.item("listeners:"+tc.name, fmt.Sprint(tc.slot))
		if len(looked) != 1 || !bytes.Equal(looked[0], le32(tc.slot)) || v.AssignedSock != 7 || v.Ret != vkern.TC_ACT_OK || v.Mark != tm {
			c.viol("listeners", fmt.Sprintf("listeners: %s listener is stored by the control plane at listen_socket_map[%d]; the kernel looks up %s (assigned socket %d, verdict %d, mark %#x; TproxyMark=%#x)", tc.name, tc.slot, hexKeys(looked), v.AssignedSock, v.Ret, v.Mark, consts.TproxyMark), nil)
		}
	}
}
