// Timing clause of C06 under engine S: component/sniffing/{sniffer.go,conn_sniffer.go} are rewritten onto the virtual
// clock and the deterministic scheduler; every scenario is one vsched.Run with the default schedule. The fake connection
// blocks in Read until data, end of stream or its read deadline — on the virtual clock.
package main

import (
	"bytes"
	"errors"
	"fmt"
	"io"
	"net"
	"os"
	"time"

	"github.com/daeuniverse/dae/component/sniffing"
	"github.com/daeuniverse/dae/verifx/vsched"
	"github.com/daeuniverse/dae/verifx/vtime"
)

const sniffTimeout = 30 * time.Millisecond // dae's default sniffing_timeout

type vconn struct {
	q          []byte
	eof        bool
	closed     bool
	noDeadline bool // SetReadDeadline fails: forces the sniffer onto its async (context) path
	rdl        time.Time
	gen        int
	expired    bool
	readers    int
	maxReaders int
	eofReads   int
	sent       []byte
	nextTicket int
	serving    int
}

func (c *vconn) push(b []byte) { c.q = append(c.q, b...); c.sent = append(c.sent, b...) }

// Read: concurrent Reads of one connection are served strictly in arrival order (a socket's read lock is held by the
// first reader until its Read returns), each blocking until data, end of stream or the read deadline.
func (c *vconn) Read(p []byte) (int, error) {
	c.readers++
	if c.readers > c.maxReaders {
		c.maxReaders = c.readers
	}
	my := c.nextTicket
	c.nextTicket++
	vsched.WaitUntil(func() bool { return c.serving == my })
	defer func() { c.serving++ }()
	vsched.WaitUntil(func() bool { return len(c.q) > 0 || c.eof || c.expired || c.closed })
	c.readers--
	switch {
	case c.closed:
		return 0, net.ErrClosed
	case c.expired:
		return 0, os.ErrDeadlineExceeded
	case len(c.q) > 0:
		n := copy(p, c.q)
		c.q = c.q[n:]
		return n, nil
	default:
		// end of stream: a re-reading caller burns CPU, not virtual time; charge 1ms per read so that the run terminates
		c.eofReads++
		vtime.Sleep(time.Millisecond)
		if c.expired {
			return 0, os.ErrDeadlineExceeded
		}
		return 0, io.EOF
	}
}
func (c *vconn) Write(p []byte) (int, error) { return len(p), nil }
func (c *vconn) Close() error                { c.closed = true; return nil }
func (c *vconn) LocalAddr() net.Addr         { return &net.TCPAddr{IP: net.IPv4(127, 0, 0, 1), Port: 1} }
func (c *vconn) RemoteAddr() net.Addr        { return &net.TCPAddr{IP: net.IPv4(127, 0, 0, 1), Port: 2} }
func (c *vconn) SetDeadline(t time.Time) error {
	return c.SetReadDeadline(t)
}
func (c *vconn) SetWriteDeadline(t time.Time) error { return nil }
func (c *vconn) SetReadDeadline(t time.Time) error {
	if c.noDeadline {
		return errors.New("deadline not supported")
	}
	c.gen++
	g := c.gen
	c.rdl = t
	c.expired = false
	if t.IsZero() {
		return nil
	}
	d := t.Sub(vtime.Now())
	if d <= 0 {
		c.expired = true
		return nil
	}
	vsched.AddTimer(int64(d), "read-deadline", func() {
		if c.gen == g {
			c.expired = true
		}
	})
	return nil
}

// readerOnly hides everything but Read: NewStreamSniffer then has no net.Conn at all.
type readerOnly struct{ c *vconn }

func (r readerOnly) Read(p []byte) (int, error) { return r.c.Read(p) }

type arrival struct {
	at   time.Duration // virtual time after connection start
	data []byte
}

type timingScenario struct {
	name   string
	script []arrival
	fin    time.Duration // when the client closes its side (after the last arrival)
}

type timingObs struct {
	name      string
	err       error
	elapsed   time.Duration
	returned  bool
	got       []byte
	relayErr  error
	relayDone bool
	sent      []byte
	readers   int
	eofReads  int
	c         *vconn
}

func legTiming(thorough bool) {
	hello := tlsRecord(13, buildHello(helloSpec{ver: 13, sidLen: 32, nCS: 2, exts: []int{extSNI, extALPN, extSV}, sni: []sniEntry{{0, "slow.example.com"}}}).hs)
	ms := time.Millisecond
	cut := 16 // dae prefetches 16 bytes before sniffing: the classic first read
	scenarios := []timingScenario{
		{"all-in-time", []arrival{{0, hello[:cut]}, {10 * ms, hello[cut:]}, {50 * ms, later1}}, 60 * ms},
		{"nothing-ever", nil, 200 * ms},
		{"nothing-then-all-late", []arrival{{50 * ms, hello}, {60 * ms, later1}}, 70 * ms},
		{"header-in-time-rest-late", []arrival{{0, hello[:cut]}, {45 * ms, hello[cut:]}, {60 * ms, later1}}, 70 * ms},
		{"header-in-time-rest-never", []arrival{{0, hello[:cut]}, {60 * ms, later1}}, 70 * ms},
		{"three-parts-last-late", []arrival{{0, hello[:cut]}, {10 * ms, hello[cut:60]}, {31 * ms, hello[60:]}, {60 * ms, later1}}, 70 * ms},
		{"rest-exactly-at-deadline", []arrival{{0, hello[:cut]}, {30 * ms, hello[cut:]}, {60 * ms, later1}}, 70 * ms},
		{"partial-then-fin", []arrival{{0, hello[:cut]}}, 5 * ms},
		{"http-late-body", []arrival{{0, []byte("GET / HTTP/1.1\r\nHost: slow.example.com\r\n\r\n")}, {50 * ms, later1}}, 60 * ms},
	}
	paths := []string{"read-deadline", "async-conn-without-deadline", "async-plain-reader"}
	runs := R.Counter("timing_executions")
	returnedAtDeadline := R.Counter("timing_returned_exactly_at_deadline")
	for _, sc := range scenarios {
		for _, path := range paths {
			routes := allRoutes
			if path == "async-plain-reader" {
				routes = []int{0}
			}
			for _, route := range routes {
				sc, path, route := sc, path, route
				var o timingObs
				res := vsched.Run(func() { timingBody(sc, path, route, &o) }, vsched.Options{MaxSteps: 200000, HorizonNs: int64(10 * time.Second)})
				runs.Add(1)
				if o.c != nil {
					o.sent, o.readers, o.eofReads = o.c.sent, o.c.maxReaders, o.c.eofReads
				}
				evals.Add(1)
				distinctExtra.Add(1)
				leg := "timing " + path
				rn := routeNames[route]
				key := fmt.Sprintf("%s|%d", sc.name, route)
				desc := fmt.Sprintf("scenario=%s path=%s route=%s", sc.name, path, rn)
				detail := map[string]any{"scenario": sc.name, "path": path, "route": rn, "status": fmt.Sprint(res.Status), "blocked": res.Blocked, "virtual_ms_at_end": (res.Now - 1_700_000_000_000_000_000) / 1e6,
					"sniff_error": fmt.Sprint(o.err), "sniff_elapsed_ms": float64(o.elapsed) / 1e6, "client_sent": hx(o.sent), "relay_got": hx(o.got), "relay_error": fmt.Sprint(o.relayErr), "concurrent_readers_max": o.readers, "reads_at_end_of_stream": o.eofReads}
				if os.Getenv("C06_DEBUG_TIMING") != "" {
					fmt.Printf("TIMING %s: status=%v sniff=(%s,%v) relay got=%d sent=%d relayErr=%v done=%v readers=%d eofReads=%d blocked=%v\n", desc, res.Status, errClass(o.err), o.elapsed, len(o.got), len(o.sent), o.relayErr, o.relayDone, o.readers, o.eofReads, res.Blocked)
				}
				if res.Status == vsched.StPanic {
					report(leg, "panic", key, "panic "+desc, map[string]any{"panic": res.PanicMsg})
					continue
				}
				if res.Status == vsched.StDiverged || res.Leaked > 0 {
					fmt.Fprintln(os.Stderr, "C06 timing: scheduler trouble:", res.Status, res.PanicMsg, "leaked", res.Leaked, desc)
					os.Exit(2)
				}
				if !o.returned {
					report(leg, "sniff-never-returns", key, fmt.Sprintf("SniffTcp has not returned when nothing can happen any more (status %v, virtual time +%dms) %s", res.Status, (res.Now-1_700_000_000_000_000_000)/1e6, desc), detail)
					continue
				}
				if o.elapsed > sniffTimeout {
					report(leg, "past-deadline", key, fmt.Sprintf("SniffTcp returned after %v > timeout %v %s", o.elapsed, sniffTimeout, desc), detail)
				}
				if o.elapsed == sniffTimeout {
					returnedAtDeadline.Add(1)
				}
				if !bytes.Equal(o.got, o.sent) || !o.relayDone {
					class := "relay-bytes-differ"
					if o.relayErr != nil {
						class = "relay-aborted"
					} else if !o.relayDone {
						class = "relay-stuck"
					}
					report(leg, class+" "+rn, key, fmt.Sprintf("after sniff=(%s, %v elapsed) the relay got %d of the %d bytes the client sent (first difference at %d), relay error=%v, relay finished=%v %s",
						errClass(o.err), o.elapsed, len(o.got), len(o.sent), firstDiff(o.got, o.sent), o.relayErr, o.relayDone, desc), detail)
				} else if o.relayErr != nil {
					tstat.errAfterAll.Add(1)
				}
			}
		}
	}
	R.Sample(map[string]any{"leg": "timing", "scenario": "header-in-time-rest-late", "script": "t=0: first 16 bytes of the record; t=45ms: rest; t=60ms: later data; FIN at 70ms; sniff timeout 30ms", "paths": paths, "routes": routeNames})
}

func timingBody(sc timingScenario, path string, route int, o *timingObs) {
	c := &vconn{noDeadline: path != "read-deadline"}
	o.c = c
	t0 := vtime.Now()
	vsched.GoNamed("client", func() {
		for _, a := range sc.script {
			if d := a.at - vtime.Since(t0); d > 0 {
				vtime.Sleep(d)
			}
			c.push(a.data)
		}
		if d := sc.fin - vtime.Since(t0); d > 0 {
			vtime.Sleep(d)
		}
		c.eof = true
	})
	var cs *sniffing.ConnSniffer
	var st *sniffing.Sniffer
	if path == "async-plain-reader" {
		st = sniffing.NewStreamSniffer(readerOnly{c}, sniffTimeout)
		_, o.err = st.SniffTcp()
	} else {
		cs = sniffing.NewConnSniffer(c, sniffTimeout)
		_, o.err = cs.SniffTcp()
	}
	o.elapsed = vtime.Since(t0)
	o.returned = true
	// the relay starts right away (as control/tcp.go does after routing) and runs until the client's end of stream
	if cs != nil {
		o.relayErr = drainRoute(cs, route, 1<<16, &o.got)
	} else {
		buf := make([]byte, 7)
		for it := 0; it < 1<<16; it++ {
			n, er := st.Read(buf)
			o.got = append(o.got, buf[:n]...)
			if er == io.EOF {
				break
			}
			if er != nil {
				o.relayErr = er
				break
			}
		}
	}
	o.relayDone = true
}
