// C08 — The DNS cache serves only live, correctly scoped answers with truthful TTLs.
//
// Explicit-state breadth-first search over operation histories of the REAL DnsController (built from the
// production option closure, see shared_inject/dnsctl_api) on the virtual clock of engine S: a state is a
// history; a successor is a fresh controller + replay + one more operation; states are merged by an exact
// canonical dump of the private cache state (all times relative to "now") together with the reference's own
// state. Every client reply of every state is judged by a reference cache written from the statement.
package main

import (
	"bytes"
	"crypto/sha256"
	"encoding/json"
	"flag"
	"fmt"
	"net/netip"
	"os"
	"os/exec"
	"sort"
	"strings"
	"sync"
	"time"

	"github.com/daeuniverse/dae/control"
	"github.com/daeuniverse/dae/verifx/vlib"
	"github.com/daeuniverse/dae/verifx/vsched"
	"github.com/daeuniverse/dae/verifx/vtime"
)

// ---- configurations ------------------------------------------------------------------------------------------

const (
	fixedName = "a" // fixed_domain_ttl { a: 5 }
	fixedTtl  = 5
	latency   = 5 * time.Millisecond // virtual duration of one upstream exchange
	epoch     = int64(1_700_000_000_000_000_000)
)

type Cfg struct {
	Opt   bool `json:"optimistic_cache"`
	Ttl   int  `json:"optimistic_cache_ttl"`
	Max   int  `json:"max_cache_size"`
	Fixed bool `json:"fixed_domain_ttl_a_5"`
}

func (c Cfg) String() string {
	f := "none"
	if c.Fixed {
		f = "a:5"
	}
	return fmt.Sprintf("optimistic_cache=%v optimistic_cache_ttl=%d max_cache_size=%d fixed_domain_ttl=%s", c.Opt, c.Ttl, c.Max, f)
}

func allCfgs() []Cfg {
	var out []Cfg
	for _, o := range []bool{false, true} {
		for _, t := range []int{0, 60} {
			for _, m := range []int{0, 2} {
				for _, f := range []bool{false, true} {
					out = append(out, Cfg{o, t, m, f})
				}
			}
		}
	}
	return out
}

// ---- operations ------------------------------------------------------------------------------------------------

type Op struct {
	Kind  string `json:"op"` // ask | rej | ttl | adv | jan | clone | fail
	Name  string `json:"name,omitempty"`
	Qtype uint16 `json:"qtype,omitempty"`
	Scope string `json:"scope,omitempty"`
	Ttl   uint32 `json:"ttl,omitempty"`
	At    int64  `json:"at_ns,omitempty"` // adv: absolute virtual time (ns since start) to advance to
	Why   string `json:"why,omitempty"`
}

func (o Op) String() string {
	switch o.Kind {
	case "ask":
		return fmt.Sprintf("ask(%s,%s,%s)", o.Name, qtName(o.Qtype), o.Scope)
	case "rej":
		return fmt.Sprintf("reject(%s,%s)", o.Name, qtName(o.Qtype))
	case "ttl":
		return fmt.Sprintf("upstream_ttl=%d", o.Ttl)
	case "adv":
		return fmt.Sprintf("advance_to(%s: %s)", fmtDur(o.At), o.Why)
	case "jan":
		return "janitor()"
	case "clone":
		return "reload_clone()"
	case "fail":
		return "routing_sync_callback_fails_for_next_insert"
	}
	return "?"
}

func histString(h []Op) string {
	s := make([]string, len(h))
	for i, o := range h {
		s[i] = o.String()
	}
	return "[" + strings.Join(s, "; ") + "]"
}

type qkey struct {
	Name  string
	Qtype uint16
	Scope string
}

// Layer = one alphabet explored to a depth.
type Layer struct {
	Name     string
	Keys     []qkey   // questions
	Rej      []qkey   // (name,type) asked under a reject rule (scope ignored)
	Ttls     []uint32 // values of the upstream TTL switch
	AllTgts  bool     // clock targets derived from every reference entry (else: from the most recently obtained one)
	Slack    bool     // include the TTL-approximation instants (obtained+15s, +15s+1ns, +17s)
	Jan      bool
	Clone    bool
	Symmetry bool // canonical first-use order of types (A before AAAA) and upstreams (u1 before u2)
	DepthQ   int
	DepthT   int
	InitTtl  uint32
	Fault    bool // include the environment fault "the routing-sync callback (CacheAccessCallback) fails for the next insert"
	Prefix   []Op // every history of the layer starts with these operations (depth counts the operations after them)
	OnlyMax  bool // layer applies only to configurations with a size limit
}

func product() []qkey {
	var out []qkey
	for _, n := range []string{"a.", "A.", "b."} {
		for _, t := range []uint16{1, 28} {
			for _, s := range []string{"u1", "u2", "asis"} {
				out = append(out, qkey{n, t, s})
			}
		}
	}
	return out
}

func layers() []Layer {
	return []Layer{
		// types: one name asked with seven record types (A, AAAA, SOA, TXT, SVCB, HTTPS, and CAA=257 whose low byte is A: every kind of
		// cache-key construction, table fast path and numeric slow path, one- and two-byte type numbers) through one upstream, plus HTTPS as-is
		{Name: "types", Keys: []qkey{{"a.", 1, "u1"}, {"a.", 28, "u1"}, {"a.", 6, "u1"}, {"a.", 16, "u1"}, {"a.", 64, "u1"}, {"a.", 65, "u1"}, {"a.", 257, "u1"}, {"a.", 65, "asis"}}, AllTgts: true, Jan: true, Clone: true, DepthQ: 2, DepthT: 4, InitTtl: 20},
		// reload: an answer obtained with a long upstream TTL (120 s, longer than the fixed TTL of a.) is in the cache; then every
		// continuation over two questions, all clock targets of every entry, janitor and reload clone
		{Name: "reload", Keys: []qkey{{"a.", 1, "u1"}, {"b.", 1, "u1"}}, AllTgts: true, Slack: true, Jan: true, Clone: true, DepthQ: 3, DepthT: 5, InitTtl: 120,
			Prefix: []Op{{Kind: "ask", Name: "a.", Qtype: 1, Scope: "u1"}}},
		// lru: size-limit configurations only; the cache is pre-filled with three answers (one more than max_cache_size=2) by a
		// fixed prefix, then every continuation over the narrow alphabet (no TTL switch, no clone)
		{Name: "lru", Keys: []qkey{{"a.", 1, "u1"}, {"b.", 1, "u1"}, {"A.", 1, "u2"}}, AllTgts: false, Jan: true, Clone: true, Fault: true, DepthQ: 4, DepthT: 5, InitTtl: 1, OnlyMax: true,
			Prefix: []Op{{Kind: "ask", Name: "a.", Qtype: 1, Scope: "u1"}, {Kind: "ask", Name: "b.", Qtype: 1, Scope: "u1"}, {Kind: "ask", Name: "A.", Qtype: 1, Scope: "u2"}}},
		// lrufault: size-limit configurations; three answers are cached (one over the limit) and the clock stands 1 ns before the
		// end of life of the last one (the earlier ones have expired); then every continuation with the environment fault
		// "the routing-sync callback fails for the next insert" (stale serve -> background refresh whose sync fails -> janitor)
		{Name: "lrufault", Keys: []qkey{{"a.", 1, "u1"}, {"b.", 1, "u1"}, {"A.", 1, "u2"}}, AllTgts: false, Jan: true, Fault: true, DepthQ: 4, DepthT: 5, InitTtl: 1, OnlyMax: true,
			Prefix: []Op{{Kind: "ask", Name: "a.", Qtype: 1, Scope: "u1"}, {Kind: "ask", Name: "b.", Qtype: 1, Scope: "u1"}, {Kind: "ask", Name: "A.", Qtype: 1, Scope: "u2"},
				{Kind: "adv", At: 1_014_999_999, Why: "1ns before the end of life of the third answer (lifetime 1 s)"}}},
		// narrow: three questions (two names, a case variant on another upstream), short/long upstream TTL, clock targets of the
		// most recently obtained answer + pending refreshes, janitor, reload clone — the deepest layer (time semantics, LRU with max_cache_size=2)
		{Name: "narrow", Keys: []qkey{{"a.", 1, "u1"}, {"b.", 1, "u1"}, {"A.", 1, "u2"}}, Ttls: []uint32{1, 120}, AllTgts: false, Slack: true, Jan: true, Clone: true, DepthQ: 4, DepthT: 6, InitTtl: 1},
		// star: a base question and every single-coordinate variant of it (case, other name, other type, other upstream, as-is), reject
		{Name: "star", Keys: []qkey{{"a.", 1, "u1"}, {"A.", 1, "u1"}, {"b.", 1, "u1"}, {"a.", 28, "u1"}, {"a.", 1, "u2"}, {"a.", 1, "asis"}}, Rej: []qkey{{"a.", 1, ""}}, Ttls: []uint32{1, 20, 120}, AllTgts: true, Slack: true, Jan: true, Clone: true, DepthQ: 3, DepthT: 4, InitTtl: 20},
		// full: the whole product {a., A., b.} x {A, AAAA} x {u1, u2, asis} (up to symmetry), reject of every family
		{Name: "full", Keys: product(), Rej: []qkey{{"a.", 1, ""}, {"a.", 28, ""}, {"b.", 1, ""}, {"b.", 28, ""}}, Ttls: []uint32{1, 20, 120}, AllTgts: true, Slack: true, Jan: true, Clone: true, Symmetry: true, DepthQ: 2, DepthT: 4, InitTtl: 20},
	}
}

func (l *Layer) staticOps() []Op {
	var ops []Op
	for _, k := range l.Keys {
		ops = append(ops, Op{Kind: "ask", Name: k.Name, Qtype: k.Qtype, Scope: k.Scope})
	}
	for _, k := range l.Rej {
		ops = append(ops, Op{Kind: "rej", Name: k.Name, Qtype: k.Qtype})
	}
	for _, t := range l.Ttls {
		ops = append(ops, Op{Kind: "ttl", Ttl: t})
	}
	if l.Jan {
		ops = append(ops, Op{Kind: "jan"})
	}
	if l.Clone {
		ops = append(ops, Op{Kind: "clone"})
	}
	if l.Fault {
		ops = append(ops, Op{Kind: "fail"})
	}
	return ops
}

// canonical: symmetry breaking — a history may use AAAA only after A, and u2 only after u1 (type and upstream
// names are interchangeable in the code under test and in the reference).
func canonical(h []Op) bool {
	seenA, seenU1 := false, false
	for _, o := range h {
		if o.Kind != "ask" && o.Kind != "rej" {
			continue
		}
		if o.Qtype == 28 && !seenA {
			return false
		}
		if o.Qtype == 1 {
			seenA = true
		}
		if o.Kind == "ask" {
			if o.Scope == "u2" && !seenU1 {
				return false
			}
			if o.Scope == "u1" {
				seenU1 = true
			}
		}
	}
	return true
}

// ---- one execution -------------------------------------------------------------------------------------------

type execOut struct {
	Viols    []viol
	Key      string // dedup key
	Class    string // observation class of the last operation
	Targets  []Op   // clock targets enabled in the reached state
	CanClone bool
	Stats    map[string]int64
	Status   string
	Samples  string
}

var matcher *control.VerifRouting

func prepare() {
	if err := control.VerifPrepareDnsRoutings(); err != nil {
		fmt.Fprintln(os.Stderr, "C08: cannot build dns routing programs:", err)
		os.Exit(2)
	}
	m, err := control.VerifCompileRouting("global{}\nrouting{\n domain(full: a) -> direct\n domain(full: b) -> block\n fallback: direct\n}\n", nil, nil)
	if err != nil {
		fmt.Fprintln(os.Stderr, "C08: cannot compile routing:", err)
		os.Exit(2)
	}
	matcher = m
}

func ctlOpts(cfg Cfg, lat time.Duration) control.VerifDnsOpts {
	o := control.VerifDnsOpts{Optimistic: cfg.Opt, OptimisticTtl: cfg.Ttl, MaxCacheSize: cfg.Max, Matcher: matcher, Latency: lat}
	if cfg.Fixed {
		o.FixedDomainTtl = []string{fmt.Sprintf("%s: %d", fixedName, fixedTtl)}
	}
	return o
}

// run executes a history on a fresh controller; only the LAST operation is judged (the prefix was judged when it
// was the last operation of a shorter history, and violating states are not extended).
func run(cfg Cfg, l *Layer, hist []Op, trace bool) (out execOut) {
	out.Stats = map[string]int64{}
	var traceBuf strings.Builder
	res := vsched.Run(func() {
		ref := newRef(cfg)
		ttlMode := l.InitTtl
		gens := map[rkey]int{}
		script := func(up, name string, qt uint16) ([]netip.Addr, uint32, bool) {
			sc, ok := scopeOfUpstream(up)
			k := rkey{strings.ToLower(name), qt, sc}
			if !ok || keyIndex(k) < 0 {
				return nil, 0, false
			}
			g := gens[k]
			gens[k] = g + 1
			return []netip.Addr{encodeAddr(k, g)}, ttlMode, true
		}
		ctl, err := control.VerifNewDnsCtl(ctlOpts(cfg, latency), script)
		if err != nil {
			panic("harness: " + err.Error())
		}
		dst := netip.MustParseAddrPort(asisServer)
		now := func() int64 { return vtime.Now().UnixNano() }
		for i, op := range hist {
			last := i == len(hist)-1
			var vs []viol
			class := op.Kind
			t0 := now()
			janitorRan := false
			switch op.Kind {
			case "ask":
				rep := ctl.Ask(op.Scope, op.Name, op.Qtype, dst, uint16(0x100+i))
				vsched.Quiesce()
				o := askObs{Key: rkey{strings.ToLower(op.Name), op.Qtype, op.Scope}, T0: t0, T1: now(), Rep: rep, Thread: vsched.ThreadID()}
				vs, class = ref.judgeAsk(o, ctl.Exchanges(), ctl.RefreshesInFlight())
				if trace {
					fmt.Fprintf(&traceBuf, "  %-34s at %-14s -> reply %v ttl %v after %s, upstream exchanges of the asker: %d  [%s]\n", op, fmtDur(t0-epoch), rep.Addrs, rep.Ttls, fmtDur(rep.ReplyAtNs-t0), len(rep.Sync), class)
				}
			case "rej":
				rep := ctl.Ask("reject", op.Name, op.Qtype, dst, uint16(0x100+i))
				vsched.Quiesce()
				ref.applyExchanges(ctl.Exchanges(), now())
				ref.reject(op.Name, op.Qtype)
				if rep.Err != "" || rep.Replies != 1 || len(rep.Addrs) != 0 || len(rep.Sync) != 0 {
					vs = append(vs, viol{"reject", fmt.Sprintf("rejected question answered with err=%q replies=%d addrs=%v exchanges=%d", rep.Err, rep.Replies, rep.Addrs, len(rep.Sync))})
				}
				if trace {
					fmt.Fprintf(&traceBuf, "  %-34s at %-14s -> empty reply\n", op, fmtDur(t0-epoch))
				}
			case "ttl":
				ttlMode = op.Ttl
			case "adv":
				if d := epoch + op.At - t0; d > 0 {
					vtime.Sleep(time.Duration(d))
				}
				vsched.Quiesce()
				ref.applyExchanges(ctl.Exchanges(), now())
				if trace {
					fmt.Fprintf(&traceBuf, "  %-34s now %s\n", op, fmtDur(now()-epoch))
				}
			case "fail":
				ctl.FailNextAccessCallbacks(1)
			case "jan":
				ctl.Janitor()
				vsched.Quiesce()
				janitorRan = true
				ref.applyExchanges(ctl.Exchanges(), now())
			case "clone":
				before := ctl.CacheKeys()
				n, err := ctl.ReloadClone()
				if err != nil {
					panic("harness: reload clone: " + err.Error())
				}
				ctl = n
				vsched.Quiesce()
				after := ctl.CacheKeys()
				if strings.Join(before, ",") != strings.Join(after, ",") {
					vs = append(vs, viol{"clone-keys", fmt.Sprintf("reload clone holds keys %v, the original held %v", after, before)})
				}
			}
			keys := ctl.CacheKeys()
			rv, rclass := ref.reconcile(now(), keys, janitorRan)
			vs = append(vs, rv...)
			if rclass != "" {
				class += "+" + rclass
			}
			for fk, n := range ctl.MaxConcurrentRefreshes() {
				if n > 1 {
					vs = append(vs, viol{"refresh-concurrency", fmt.Sprintf("%d background refreshes of %s were in flight at the same time", n, fk)})
				}
			}
			if trace {
				fmt.Fprintf(&traceBuf, "      cache keys: %v\n", keys)
			}
			if last {
				out.Viols = vs
				out.Class = class
			}
		}
		t := now()
		h := sha256.Sum256([]byte(ctl.DumpString() + "#" + ref.dump(t) + "#" + fmt.Sprint(ttlMode, ctl.ArmedAccessFailures())))
		out.Key = string(h[:16])
		out.Targets = targets(ref, l, ctl.Exchanges(), t)
		out.CanClone = ctl.InFlight() == 0
		if trace {
			fmt.Fprintf(&traceBuf, "  final private state: %s\n  reference: %s\n", ctl.DumpString(), ref.dump(t))
		}
		for k, v := range ref.stats {
			out.Stats[k] = v
		}
		ctl.Close()
	}, vsched.Options{MaxSteps: 1 << 22, HorizonNs: int64(2 * time.Hour)})
	switch res.Status {
	case vsched.StPanic:
		msg := res.PanicMsg
		if strings.Contains(msg, "harness: ") {
			fmt.Fprintln(os.Stderr, "C08: harness failure:", msg)
			os.Exit(2)
		}
		out.Viols = append(out.Viols, viol{"panic", "panic in the code under test at " + vlib.PanicSite(msg) + ": " + firstLine(msg)})
		out.Status = "panic"
	case vsched.StHorizon, vsched.StDiverged:
		fmt.Fprintf(os.Stderr, "C08: execution did not finish (status %d) for %s\n", res.Status, histString(hist))
		os.Exit(2)
	}
	out.Samples = traceBuf.String()
	return out
}

func firstLine(s string) string {
	if i := strings.IndexByte(s, '\n'); i >= 0 {
		return s[:i]
	}
	return s
}

// targets: instants the clock can be advanced to, derived from the REFERENCE's entries (just before / at / just
// after the end of life, the end of the stale window, the TTL-approximation instants) and from pending refreshes.
func targets(ref *Ref, l *Layer, all []control.VerifExchange, now int64) []Op {
	type tg struct {
		at  int64
		why string
	}
	var ts []tg
	var keys []rkey
	for k := range ref.ent {
		keys = append(keys, k)
	}
	sort.Slice(keys, func(i, j int) bool { return keys[i].String() < keys[j].String() })
	if !l.AllTgts && len(keys) > 0 {
		best := keys[0]
		for _, k := range keys {
			if ref.ent[k].InsertedAt > ref.ent[best].InsertedAt {
				best = k
			}
		}
		keys = []rkey{best}
	}
	for _, k := range keys {
		e := ref.ent[k]
		ts = append(ts, tg{e.D - 1, "1ns before the end of life of " + k.String()}, tg{e.D, "end of life of " + k.String()}, tg{e.D + 1, "1ns after the end of life of " + k.String()})
		if ref.cfg.Opt && ref.wMust >= 0 {
			w := e.D + ref.wMust
			ts = append(ts, tg{w - 1, "1ns before the end of the stale window of " + k.String()}, tg{w, "end of the stale window of " + k.String()}, tg{w + 1, "1ns after the stale window of " + k.String()})
		}
		if l.Slack {
			for _, d := range []struct {
				d   int64
				why string
			}{{15 * sec, "15s"}, {15*sec + 1, "15s+1ns"}, {17 * sec, "17s"}} {
				if e.InsertedAt+d.d < e.D {
					ts = append(ts, tg{e.InsertedAt + d.d, d.why + " after " + k.String() + " was obtained"})
				}
			}
		}
	}
	for _, x := range all {
		if x.DoneNs == 0 {
			ts = append(ts, tg{x.StartNs + int64(latency), "pending refresh completes"})
		}
	}
	sort.SliceStable(ts, func(i, j int) bool { return ts[i].at < ts[j].at })
	var out []Op
	var lastAt int64 = -1
	for _, t := range ts {
		if t.at <= now || t.at == lastAt {
			continue
		}
		lastAt = t.at
		out = append(out, Op{Kind: "adv", At: t.at - epoch, Why: t.why})
	}
	return out
}

func curTtl(l *Layer, h []Op) uint32 {
	t := l.InitTtl
	for _, o := range h {
		if o.Kind == "ttl" {
			t = o.Ttl
		}
	}
	return t
}

// ---- BFS (one worker process = one configuration) ------------------------------------------------------------

type node struct {
	hist     []Op
	targets  []Op
	canClone bool
}

type levelStat struct {
	Layer      string `json:"layer"`
	Depth      int    `json:"depth"`
	Executions int64  `json:"executions"`
	NewStates  int64  `json:"new_states"`
	Complete   bool   `json:"complete"`
}

type violOut struct {
	Sig    string `json:"sig"`
	Class  string `json:"class"`
	Detail any    `json:"detail"`
}

type workerOut struct {
	Cfg         Cfg              `json:"cfg"`
	Levels      []levelStat      `json:"levels"`
	States      int64            `json:"states"`
	Execs       int64            `json:"executions"`
	Classes     map[string]int64 `json:"classes"`
	Stats       map[string]int64 `json:"stats"`
	Viols       []violOut        `json:"violations"`
	Samples     []string         `json:"samples"`
	StateHashes []string         `json:"-"`
	CapHit      []string         `json:"caps"`
	Conc        []concResult     `json:"concurrency,omitempty"`
}

const maxViolPerClass = 2

func bfs(cfg Cfg, thorough bool, deadline time.Time) *workerOut {
	wo := &workerOut{Cfg: cfg, Classes: map[string]int64{}, Stats: map[string]int64{}}
	perClass := map[string]int{}
	for li := range layers() {
		l := layers()[li]
		depth := l.DepthQ
		if thorough {
			depth = l.DepthT
		}
		if l.OnlyMax && cfg.Max == 0 {
			continue
		}
		seen := map[string]bool{}
		root := run(cfg, &l, l.Prefix, false)
		seen[root.Key] = true
		frontier := []node{{hist: l.Prefix, targets: root.Targets, canClone: root.CanClone}}
		static := l.staticOps()
		for d := 1; d <= depth; d++ {
			ls := levelStat{Layer: l.Name, Depth: d, Complete: true}
			var next []node
		level:
			for _, n := range frontier {
				ops := append(append([]Op(nil), static...), n.targets...)
				for _, op := range ops {
					if op.Kind == "clone" && !n.canClone {
						continue
					}
					if op.Kind == "fail" && len(n.hist) > 0 && n.hist[len(n.hist)-1].Kind == "fail" {
						continue // harness-only no-op: the fault is already armed
					}
					if op.Kind == "ttl" && (op.Ttl == curTtl(&l, n.hist) || (len(n.hist) > 0 && n.hist[len(n.hist)-1].Kind == "ttl")) {
						continue // harness-only no-ops: switch to the value already set / two switches in a row
					}
					h := append(append([]Op(nil), n.hist...), op)
					if l.Symmetry && !canonical(h) {
						continue
					}
					if time.Now().After(deadline) {
						ls.Complete = false
						wo.CapHit = append(wo.CapHit, fmt.Sprintf("time budget reached in layer %s at depth %d (%s)", l.Name, d, cfg))
						break level
					}
					out := run(cfg, &l, h, false)
					ls.Executions++
					wo.Execs++
					wo.Classes[out.Class]++
					for k, v := range out.Stats {
						if v > wo.Stats[k] {
							wo.Stats[k] = v // per-history maxima (a history's own counters)
						}
					}
					if len(out.Viols) > 0 {
						for _, v := range out.Viols {
							perClass[v.Class]++
							if perClass[v.Class] > maxViolPerClass {
								continue
							}
							tr := run(cfg, &l, h, true)
							wo.Viols = append(wo.Viols, violOut{Class: v.Class,
								Sig:    fmt.Sprintf("config{%s} history=%s: %s", cfg, histString(h), v.Msg),
								Detail: map[string]any{"config": cfg, "layer": l.Name, "history": h, "trace": strings.Split(tr.Samples, "\n"), "class": v.Class}})
						}
						continue // violating states are not extended: counterexamples stay minimal
					}
					if seen[out.Key] {
						continue
					}
					seen[out.Key] = true
					ls.NewStates++
					if d == depth && (len(wo.Samples) == 0 || (len(wo.Samples) < 3 && (strings.Contains(out.Class, "stale-served") || strings.Contains(out.Class, "evict-lru")))) {
						wo.Samples = append(wo.Samples, "["+l.Name+"] "+histString(h)+" => "+out.Class)
					}
					if d < depth {
						next = append(next, node{hist: h, targets: out.Targets, canClone: out.CanClone})
					}
				}
			}
			wo.Levels = append(wo.Levels, ls)
			wo.States += ls.NewStates
			frontier = next
			if !ls.Complete {
				break
			}
		}
	}
	return wo
}

// ---- coordinator ---------------------------------------------------------------------------------------------

var (
	fWorker   = flag.Int("c08worker", -1, "internal: configuration index")
	fDeadline = flag.Int64("c08deadline", 0, "internal: unix deadline of the worker")
	fOnlyCfg  = flag.Int("cfg", -1, "run only this configuration index")
)

func main() {
	flag.Parse()
	if *fWorker >= 0 {
		prepare()
		tier := flag.Lookup("tier").Value.String()
		cfg := allCfgs()[*fWorker]
		wo := bfs(cfg, tier == "thorough", time.Unix(*fDeadline, 0))
		extra := 20 * time.Second
		if tier == "thorough" {
			extra = 150 * time.Second
		}
		wo.Conc = concurrency(*fWorker, len(allCfgs()), tier == "thorough", time.Unix(*fDeadline, 0).Add(extra), wo)
		b, _ := json.Marshal(wo)
		os.Stdout.Write(b)
		os.Exit(0)
	}
	r := vlib.Start("C08", "model_checking")
	if r.ReplayArg != "" {
		replay(r)
		return
	}
	budget := r.Budget(80*time.Second, 16*time.Minute)
	deadline := time.Now().Add(budget)
	cfgs := allCfgs()
	outs := make([]*workerOut, len(cfgs))
	errs := make([]string, len(cfgs))
	var wg sync.WaitGroup
	for i := range cfgs {
		if *fOnlyCfg >= 0 && i != *fOnlyCfg {
			continue
		}
		wg.Add(1)
		go func(i int) {
			defer wg.Done()
			cmd := exec.Command(os.Args[0], "-tier", r.Tier(), "-c08worker", fmt.Sprint(i), "-c08deadline", fmt.Sprint(deadline.Unix()))
			cmd.Env = append(os.Environ(), "GOMAXPROCS=1")
			var so, se bytes.Buffer
			cmd.Stdout, cmd.Stderr = &so, &se
			if err := cmd.Run(); err != nil {
				errs[i] = fmt.Sprintf("worker %d (%s): %v: %s", i, cfgs[i], err, tailStr(se.String(), 1500))
				return
			}
			var wo workerOut
			if err := json.Unmarshal(so.Bytes(), &wo); err != nil {
				errs[i] = fmt.Sprintf("worker %d: bad output: %v: %s", i, err, tailStr(so.String()+se.String(), 600))
				return
			}
			outs[i] = &wo
		}(i)
	}
	wg.Wait()
	broken := false
	var states, execs int64
	classes := map[string]int64{}
	stats := map[string]int64{}
	var perCfg []map[string]any
	var concExec, concOutcomes int64
	concMerged := map[string]*concResult{}
	var concOrder []string
	concOutcomeSet := map[string]bool{}
	for i, wo := range outs {
		if *fOnlyCfg >= 0 && i != *fOnlyCfg {
			continue
		}
		if wo == nil {
			fmt.Fprintln(os.Stderr, errs[i])
			broken = true
			continue
		}
		states += wo.States
		execs += wo.Execs
		for k, v := range wo.Classes {
			classes[k] += v
		}
		for k, v := range wo.Stats {
			if v > stats[k] {
				stats[k] = v
			}
		}
		for _, c := range wo.CapHit {
			r.CapHit(c)
		}
		for _, v := range wo.Viols {
			r.Violation(v.Sig, v.Detail)
		}
		for _, s := range wo.Samples {
			r.Sample(map[string]any{"config": wo.Cfg.String(), "history": s})
		}
		pc := map[string]any{"config": wo.Cfg.String(), "levels": wo.Levels, "states": wo.States, "executions": wo.Execs}
		for _, cr := range wo.Conc {
			k := cr.Cfg + " / " + cr.Scenario
			m := concMerged[k]
			if m == nil {
				m = &concResult{Cfg: cr.Cfg, Scenario: cr.Scenario, Bounds: cr.Bounds, Exhaustive: true, Skipped: cr.Skipped}
				concMerged[k] = m
				concOrder = append(concOrder, k)
			}
			m.Executions += cr.Executions
			m.Decisions += cr.Decisions
			m.Exhaustive = m.Exhaustive && cr.Exhaustive
			if cr.MaxDepth > m.MaxDepth {
				m.MaxDepth = cr.MaxDepth
			}
			for _, h := range cr.Outcomes {
				concOutcomeSet[k+"#"+h] = true
			}
		}
		perCfg = append(perCfg, pc)
	}
	if broken {
		fmt.Fprintln(os.Stderr, "C08: check broken (worker failure): no verdict")
		os.Exit(2)
	}
	for k := range classes {
		r.Distinct("class:" + k)
	}
	var concList []map[string]any
	for _, k := range concOrder {
		m := concMerged[k]
		n := 0
		for h := range concOutcomeSet {
			if strings.HasPrefix(h, k+"#") {
				n++
			}
		}
		concExec += m.Executions
		concOutcomes += int64(n)
		concList = append(concList, map[string]any{"config": m.Cfg, "scenario": m.Scenario, "bounds": m.Bounds, "executions": m.Executions, "decisions": m.Decisions, "distinct_outcomes": n, "exhaustive_within_bounds": m.Exhaustive, "max_depth": m.MaxDepth, "skipped": m.Skipped})
	}
	r.Set("single_refresh_schedule_exploration", concList)
	r.Set("states", states)
	r.Set("transitions", execs)
	r.Set("traces_validated_against_impl", execs+concExec)
	r.Set("evaluations", execs+concExec)
	r.Set("distinct_nontrivial", states)
	r.Set("observation_classes", classes)
	r.Set("distinct_observation_classes", len(classes))
	r.Set("per_history_maxima", stats)
	r.Set("configurations", perCfg)
	r.Set("schedule_executions_single_refresh", concExec)
	r.Set("schedule_distinct_outcomes_single_refresh", concOutcomes)
	r.Set("stale_served", classes["stale-served"])
	r.Set("fresh_hits", classes["hit-fresh"])
	r.Set("lru_evictions", sumPrefix(classes, "evict-lru"))
	r.Rule("state = operation history replayed on a fresh real DnsController under the virtual clock; states merged by an exact canonical dump (per entry: deadline-now, original deadline-now, cached deadline nanos-now, packed TTL, packed-at-now, refreshing, last access-now, answers; knowledge table; janitor phase; pending refreshes) plus the reference's state; states = distinct merged states (all non-trivial: each differs in cache content or clock), transitions = histories executed (every one judged in its last operation by the reference cache); six alphabets (narrow, lru, reload, types, star, full product up to symmetry) to the depths listed under configurations; observation_classes = what the last operation showed (fresh hit, stale served, miss, time eviction, LRU eviction, ...)")
	r.Assume("record types A/AAAA and the two configured upstreams are interchangeable (symmetry reduction in the 'full' alphabet: AAAA only after A, u2 only after u1)")
	r.Assume("one upstream exchange takes 5 ms of virtual time; every answer section holds one address that names its (question, generation)")
	r.Assume("optimistic_cache_ttl=0 is documented as 'never expire'; with max_cache_size=0 the code falls back to 60 s: stale service is required only inside 60 s and never forbidden for that configuration")
	r.Assume("the scope of a question is switched by publishing another dns routing program through TryUpdateRuntime, as a reload does; question names with a configured fixed TTL are matched case-insensitively")
	r.Assume("documented TTL slack = 15 s (control/dns_cache.go:17-22 ttlRefreshThresholdSeconds, control/dns_control.go:1453-1454) + 1 s whole-second rounding (ttlFromDeadline / GetPackedResponseWithApproximateTTL round a sub-second remainder up to 1)")
	r.Finish()
}

func sumPrefix(m map[string]int64, sub string) int64 {
	var n int64
	for k, v := range m {
		if strings.Contains(k, sub) {
			n += v
		}
	}
	return n
}

func tailStr(s string, n int) string {
	if len(s) <= n {
		return s
	}
	return s[len(s)-n:]
}

func replay(r *vlib.Run) {
	b, err := os.ReadFile(r.ReplayArg)
	if err != nil {
		fmt.Fprintln(os.Stderr, err)
		os.Exit(2)
	}
	var f struct {
		Detail struct {
			Config  Cfg    `json:"config"`
			Layer   string `json:"layer"`
			History []Op   `json:"history"`
		} `json:"detail"`
	}
	if err := json.Unmarshal(b, &f); err != nil {
		fmt.Fprintln(os.Stderr, err)
		os.Exit(2)
	}
	prepare()
	var l *Layer
	for _, x := range layers() {
		if x.Name == f.Detail.Layer {
			x := x
			l = &x
		}
	}
	if l == nil {
		fmt.Fprintln(os.Stderr, "replay: unknown layer")
		os.Exit(2)
	}
	out := run(f.Detail.Config, l, f.Detail.History, true)
	fmt.Printf("config: %s\nhistory: %s\n%s", f.Detail.Config, histString(f.Detail.History), out.Samples)
	for _, v := range out.Viols {
		fmt.Printf("verdict: [%s] %s\n", v.Class, v.Msg)
	}
	if len(out.Viols) > 0 {
		fmt.Printf("VIOLATION property=C08 replay=%s\n", r.ReplayArg)
		os.Exit(1)
	}
	fmt.Println("no violation")
	os.Exit(0)
}
