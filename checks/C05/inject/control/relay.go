//go:build verif

// C05 harness inside package control: the REAL ControlPlane.handleConn (DNS-over-TCP detection, sniff policy,
// prefetch, ConnSniffer, routeDial, relayCore with its copy engine) runs under the vsched scheduler between a
// simulated client connection and a simulated upstream connection handed out by a fake node dialer.
package control

import (
	"bytes"
	"context"
	"fmt"
	"io"
	"net"
	"net/netip"
	"strings"
	"time"

	"github.com/bits-and-blooms/bloom/v3"
	"github.com/daeuniverse/dae/common/consts"
	ob "github.com/daeuniverse/dae/component/outbound"
	"github.com/daeuniverse/dae/component/outbound/dialer"
	"github.com/daeuniverse/dae/component/routing"
	"github.com/daeuniverse/dae/verifx/simnet"
	"github.com/daeuniverse/dae/verifx/vsched"
	D "github.com/daeuniverse/outbound/dialer"
	"github.com/daeuniverse/outbound/netproxy"
	dnsmessage "github.com/miekg/dns"
)

type C05Params struct {
	Name        string
	Port        uint16
	DialMode    string // "ip" | "domain"
	ClientSegs  [][]byte
	ClientDelay []time.Duration // virtual pause before each client segment; one extra entry = pause before the client's write-shutdown
	ServerSegs  [][]byte
	ServerFirst bool // server sends its payload right after accept, before reading anything
	ClientFin   bool // true: the client half-closes first (after its data); false: the server half-closes first
	ReadChunk   int  // MaxRead on the dae-side client conn (0 = whole segments)
	ClientTail  []byte // with ClientFin=false: bytes the client still sends AFTER it has observed the upstream's end-of-stream
	// (the opposite direction must keep flowing after a half-close), followed by the client's own half-close
	NoDnsController bool // the control plane has no DNS controller (port-53 detection cannot hand the query to it)
}

type c05Obs struct {
	p          *C05Params
	start      int64
	dialAt     int64
	dialTarget string
	dials      int
	serverGot  []byte
	clientGot  []byte
	serverEOF  bool
	clientEOF  bool
	serverErr  string
	clientErr  string
	handleErr  error
	handleDone bool
	clientDone bool
	serverDone bool
	lc, lb     *simnet.Conn
	ua, ub     *simnet.Conn
	dlAtDial   time.Time
	serverEndAt, clientEndAt int64
	now        func() int64
}

// C05DemandFirstWriteShutdownAtClient switches on the oracle component "the upstream's end-of-stream, when it is the first of the
// two, reaches the client socket as a CloseWrite" (a genuine finding on /repo 0745d7c, see /verif/.work/C05-finding.md).
var C05DemandFirstWriteShutdownAtClient bool

var c05Cur *c05Obs
var c05Routing *VerifRouting

type c05NodeDialer struct{ o *c05Obs }

func (d *c05NodeDialer) DialContext(_ context.Context, network, addr string) (netproxy.Conn, error) {
	o := d.o
	o.dials++
	o.dialTarget = addr
	o.dialAt = o.now()
	o.dlAtDial = o.lc.ReadDeadline()
	ua, ub := simnet.Pair(&net.TCPAddr{IP: net.IPv4(10, 9, 9, 9), Port: 40001}, &net.TCPAddr{IP: net.IPv4(203, 0, 113, 5), Port: 443})
	o.ua, o.ub = ua, ub
	return ua, nil
}

func c05ControlPlane(o *c05Obs, mode string) (*ControlPlane, error) {
	dm, err := consts.ParseDialMode(mode)
	if err != nil {
		return nil, err
	}
	if c05Routing == nil {
		conf := "global{}\ngroup{ g1{policy:fixed(0)} }\nrouting{\nfallback: g1\n}\n"
		v, err := VerifCompileRouting(conf, []string{"g1"}, []routing.RulesOptimizer{&routing.AliasOptimizer{}})
		if err != nil {
			return nil, err
		}
		c05Routing = v // the compiled matcher is immutable: shared by all executions
	}
	v := c05Routing
	log := VerifQuietLogger()
	gopt := &dialer.GlobalOption{Log: log, CheckInterval: time.Second}
	names := []string{consts.OutboundDirect.String(), consts.OutboundBlock.String(), "g1"}
	var outbounds []*ob.DialerGroup
	for _, name := range names {
		d := dialer.NewDialer(&c05NodeDialer{o: o}, gopt, dialer.InstanceOption{DisableCheck: true},
			&dialer.Property{Property: D.Property{Name: "node-" + name, Address: "node-" + name + ".invalid:443", Protocol: "verif"}})
		g := ob.NewDialerGroup(gopt, name, []*dialer.Dialer{d}, []*dialer.Annotation{{}},
			ob.DialerSelectionPolicy{Policy: consts.DialerSelectionPolicy_Fixed, FixedIndex: 0},
			func(bool, *dialer.NetworkType, bool) {})
		outbounds = append(outbounds, g)
	}
	ctx, cancel := context.WithCancel(context.Background())
	cp := &ControlPlane{
		log:             log,
		ctx:             ctx,
		cancel:          cancel,
		realDomainSet:   bloom.NewWithEstimates(2048, 0.001),
		sniffingTimeout: 100 * time.Millisecond,
	}
	cp.outbounds = outbounds
	cp.dialMode = dm
	cp.routingMatcher = v.Matcher
	cp.bootstrapResolvers = []netip.AddrPort{netip.MustParseAddrPort("192.0.2.53:53")}
	if o.p.NoDnsController {
		return cp, nil
	}
	dc, err := NewDnsController(nil, &DnsControllerOption{
		Log:              log,
		LifecycleContext: ctx,
		NewCache: func(fqdn string, answers, ns, extra []dnsmessage.RR, deadline time.Time, originalDeadline time.Time) (*DnsCache, error) {
			return &DnsCache{DomainBitmap: cp.routingMatcher.domainMatcher.MatchDomainBitmap(fqdn), NS: ns, Extra: extra, Answer: answers, Deadline: deadline, OriginalDeadline: originalDeadline}, nil
		},
	})
	if err != nil {
		cancel()
		return nil, err
	}
	cp.dnsController = dc
	return cp, nil
}

func c05ReadAll(c *simnet.Conn, sink *[]byte, eof *bool, errs *string, endAt *int64) {
	buf := make([]byte, 4096)
	for {
		n, err := c.Read(buf)
		*sink = append(*sink, buf[:n]...)
		if err != nil {
			*endAt = time.Now().UnixNano()
			if err == io.EOF {
				*eof = true
			} else {
				*errs = err.Error()
			}
			return
		}
	}
}

// C05Scenario builds the closed system for one parameter point.
func C05Scenario(p *C05Params) *vsched.Scenario {
	body := func() {
		o := &c05Obs{p: p}
		c05Cur = o
		o.now = func() int64 { return time.Now().UnixNano() }
		o.start = o.now()
		cp, err := c05ControlPlane(o, p.DialMode)
		if err != nil {
			panic(err)
		}
		// dae-side conn lc: LocalAddr = original destination, RemoteAddr = client source (as the tproxy listener sees it)
		dst := &net.TCPAddr{IP: net.IPv4(198, 51, 100, 7), Port: int(p.Port)}
		src := &net.TCPAddr{IP: net.IPv4(192, 168, 1, 10), Port: 51000}
		lc, lb := simnet.Pair(dst, src)
		lc.MaxRead = p.ReadChunk
		o.lc, o.lb = lc, lb
		go func() {
			o.handleErr = cp.handleConn(context.Background(), lc)
			o.handleDone = true
		}()
		// client
		go func() {
			defer func() { o.clientDone = true }()
			for i, seg := range p.ClientSegs {
				if i < len(p.ClientDelay) && p.ClientDelay[i] > 0 {
					time.Sleep(p.ClientDelay[i])
				}
				if _, err := lb.Write(seg); err != nil {
					o.clientErr = "write: " + err.Error()
					return
				}
			}
			if len(p.ClientDelay) > len(p.ClientSegs) {
				time.Sleep(p.ClientDelay[len(p.ClientSegs)])
			}
			if p.ClientFin {
				lb.CloseWrite()
				c05ReadAll(lb, &o.clientGot, &o.clientEOF, &o.clientErr, &o.clientEndAt)
			} else {
				c05ReadAll(lb, &o.clientGot, &o.clientEOF, &o.clientErr, &o.clientEndAt)
				if len(p.ClientTail) > 0 {
					if _, err := lb.Write(p.ClientTail); err != nil && o.clientErr == "" {
						o.clientErr = "write after upstream end-of-stream: " + err.Error()
					}
				}
				lb.CloseWrite()
			}
		}()
		// server
		go func() {
			defer func() { o.serverDone = true }()
			vsched.WaitUntil(func() bool { return o.ub != nil || o.handleDone })
			if o.ub == nil {
				return
			}
			ub := o.ub
			sent := false
			send := func() {
				if sent {
					return
				}
				sent = true
				for _, seg := range p.ServerSegs {
					if _, err := ub.Write(seg); err != nil {
						o.serverErr = "write: " + err.Error()
						return
					}
				}
			}
			if p.ServerFirst {
				send()
			}
			if p.ClientFin {
				c05ReadAll(ub, &o.serverGot, &o.serverEOF, &o.serverErr, &o.serverEndAt)
				send()
				ub.CloseWrite()
			} else {
				send()
				ub.CloseWrite()
				c05ReadAll(ub, &o.serverGot, &o.serverEOF, &o.serverErr, &o.serverEndAt)
			}
		}()
		vsched.WaitUntil(func() bool { return o.handleDone && o.clientDone && o.serverDone })
		cp.cancel()
		if cp.dnsController != nil {
			_ = cp.dnsController.Close()
		}
	}
	check := func(r *vsched.Result) (string, any) {
		o := c05Cur
		if r.Status == vsched.StPanic {
			return "panic: " + firstLineC05(r.PanicMsg), r.PanicMsg
		}
		if r.Status == vsched.StHorizon {
			return "", nil
		}
		if !(o.handleDone && o.clientDone && o.serverDone) {
			return "deadlock/stall: " + strings.Join(r.Blocked, "; "), nil
		}
		want := append(bytes.Join(p.ClientSegs, nil), p.ClientTail...)
		wantBack := bytes.Join(p.ServerSegs, nil)
		detail := map[string]any{"client_sent": string(want), "server_got": string(o.serverGot), "server_sent": string(wantBack), "client_got": string(o.clientGot),
			"client_err": o.clientErr, "server_err": o.serverErr, "handle_err": fmt.Sprint(o.handleErr), "dial_after_ms": (o.dialAt - o.start) / 1e6, "read_deadline_at_dial": o.dlAtDial.String(),
			"client_closewrites_by_dae": o.lc.CloseWrites, "client_eof_after_ms": (o.clientEndAt - o.start) / 1e6, "server_eof_after_ms": (o.serverEndAt - o.start) / 1e6}
		if o.dials != 1 {
			return fmt.Sprintf("upstream dialled %d times", o.dials), detail
		}
		// The relay keeps the opposite direction open only for its bounded grace period after it has forwarded one
		// side's end-of-stream: a direction that ends (truncated, or without a clean EOF) at least that long after the
		// relay's write-shutdown of the OTHER direction is within the statement and is not a violation.
		grace := int64(relayHalfCloseTimeout)
		graceOver := func(forwardedEOF time.Time, endAt int64) bool {
			return !forwardedEOF.IsZero() && endAt > 0 && endAt-forwardedEOF.UnixNano() >= grace
		}
		l2rExcused := graceOver(o.lc.CloseWriteAt, o.serverEndAt) // upstream->client finished first; client->upstream ran out of grace
		r2lExcused := o.ua != nil && graceOver(o.ua.CloseWriteAt, o.clientEndAt)
		lost := func(want, got []byte) bool { return len(got) < len(want) && bytes.HasPrefix(want, got) }
		if !bytes.Equal(o.serverGot, want) && !(l2rExcused && lost(want, o.serverGot)) {
			return classify("client->upstream", want, o.serverGot), detail
		}
		if !bytes.Equal(o.clientGot, wantBack) && !(r2lExcused && lost(wantBack, o.clientGot)) {
			return classify("upstream->client", wantBack, o.clientGot), detail
		}
		if !o.serverEOF && !l2rExcused {
			return "client end-of-stream was not passed on to the upstream as a write-shutdown (server saw: " + o.serverErr + ")", detail
		}
		if !o.clientEOF && !r2lExcused {
			return "upstream end-of-stream was not passed on to the client as a write-shutdown (client saw: " + o.clientErr + ")", detail
		}
		// "End of stream on one side is passed on as a write-shutdown to the other while the opposite direction keeps
		// flowing": demanded where the peer can tell a write-shutdown from a full close, i.e. for the FIRST of the two
		// end-of-streams, observed on the outermost (simulated) sockets whatever wrapper stack dae put around them.
		if C05DemandFirstWriteShutdownAtClient && !p.ClientFin && !r2lExcused && o.lc.CloseWrites == 0 {
			return "upstream end-of-stream (first half-close) was not passed on to the client as a write-shutdown: no CloseWrite on the client socket, the client saw end-of-stream only when the relay closed the connection", detail
		}
		if p.ClientFin && !l2rExcused && o.ua != nil && o.ua.CloseWrites == 0 {
			return "client end-of-stream (first half-close) was not passed on to the upstream as a write-shutdown: no CloseWrite on the upstream socket", detail
		}
		// detection windows: DNS first-read window on port 53, prefetch + sniffer windows otherwise, plus routing lookup retries
		allowed := int64(50 * time.Millisecond)
		if p.Port == 53 {
			allowed += int64(TCPDNSFirstReadTimeout)
		}
		allowed += 2 * int64(100*time.Millisecond)
		firstData := int64(0)
		if len(p.ClientDelay) > 0 {
			firstData = int64(p.ClientDelay[0])
		}
		if d := o.dialAt - o.start; d > allowed+firstData {
			return fmt.Sprintf("upstream dial delayed by %dms, more than the detection windows allow (%dms)", d/1e6, (allowed+firstData)/1e6), detail
		}
		return "", nil
	}
	outcome := func(r *vsched.Result) string {
		o := c05Cur
		return fmt.Sprintf("s=%d c=%d eof=%v/%v dial=%dms herr=%v", len(o.serverGot), len(o.clientGot), o.serverEOF, o.clientEOF, (o.dialAt-o.start)/1e6, o.handleErr != nil)
	}
	return &vsched.Scenario{Name: p.Name, Body: body, Check: check, Outcome: outcome, MaxSteps: 6000, HorizonNs: int64(300 * time.Second), CostedSwitch: true}
}

func classify(dir string, want, got []byte) string {
	switch {
	case len(got) < len(want) && bytes.HasPrefix(want, got):
		return fmt.Sprintf("%s: bytes lost (got %d of %d; healthy connection cut short)", dir, len(got), len(want))
	case len(got) > len(want) && bytes.HasPrefix(got, want):
		return fmt.Sprintf("%s: bytes duplicated/added (got %d, sent %d)", dir, len(got), len(want))
	default:
		return fmt.Sprintf("%s: bytes altered or reordered (got %d, sent %d)", dir, len(got), len(want))
	}
}

func firstLineC05(s string) string {
	if i := strings.IndexByte(s, '\n'); i >= 0 {
		return s[:i]
	}
	return s
}
