// Package vsync mirrors package sync on top of the vsched scheduler. Outside a managed thread every
// type behaves like (and is backed by) the real primitive.
package vsync

import (
	"sync"
	"sync/atomic"
	"unsafe"

	"github.com/daeuniverse/dae/verifx/vsched"
)

type Locker = sync.Locker

// ---- Mutex ------------------------------------------------------------------------------------

type Mutex struct {
	real   sync.Mutex
	locked atomic.Bool
}

func (m *Mutex) Lock() {
	vsched.Block(vsched.OpLock, unsafe.Pointer(m), func() bool { return !m.locked.Load() })
	m.real.Lock()
	m.locked.Store(true)
}

func (m *Mutex) TryLock() bool {
	vsched.Point(vsched.OpLock, unsafe.Pointer(m))
	if m.real.TryLock() {
		m.locked.Store(true)
		return true
	}
	return false
}

func (m *Mutex) Unlock() {
	vsched.Point(vsched.OpUnlock, unsafe.Pointer(m))
	if !m.locked.Load() && vsched.TearingDown() {
		// a thread parked in Cond.Wait (lock released) is being unwound after the execution ended: the deferred
		// Unlock of the waiter's caller must not take the process down ("unlock of unlocked mutex" is fatal);
		// the execution's verdict (threads left blocked) has already been recorded
		return
	}
	m.locked.Store(false)
	m.real.Unlock()
}

// ---- RWMutex ----------------------------------------------------------------------------------

type RWMutex struct {
	real    sync.RWMutex
	writer  atomic.Bool
	readers atomic.Int32
}

func (m *RWMutex) Lock() {
	vsched.Block(vsched.OpLock, unsafe.Pointer(m), func() bool { return !m.writer.Load() && m.readers.Load() == 0 })
	m.real.Lock()
	m.writer.Store(true)
}

func (m *RWMutex) TryLock() bool {
	vsched.Point(vsched.OpLock, unsafe.Pointer(m))
	if m.real.TryLock() {
		m.writer.Store(true)
		return true
	}
	return false
}

func (m *RWMutex) Unlock() {
	vsched.Point(vsched.OpUnlock, unsafe.Pointer(m))
	m.writer.Store(false)
	m.real.Unlock()
}

func (m *RWMutex) RLock() {
	vsched.Block(vsched.OpRLock, unsafe.Pointer(m), func() bool { return !m.writer.Load() })
	m.real.RLock()
	m.readers.Add(1)
}

func (m *RWMutex) TryRLock() bool {
	vsched.Point(vsched.OpRLock, unsafe.Pointer(m))
	if m.real.TryRLock() {
		m.readers.Add(1)
		return true
	}
	return false
}

func (m *RWMutex) RUnlock() {
	vsched.Point(vsched.OpRUnlock, unsafe.Pointer(m))
	m.readers.Add(-1)
	m.real.RUnlock()
}

func (m *RWMutex) RLocker() Locker { return (*rlocker)(m) }

type rlocker RWMutex

func (r *rlocker) Lock()   { (*RWMutex)(r).RLock() }
func (r *rlocker) Unlock() { (*RWMutex)(r).RUnlock() }

// ---- WaitGroup --------------------------------------------------------------------------------

type WaitGroup struct {
	real sync.WaitGroup
	n    atomic.Int64
}

func (w *WaitGroup) Add(d int) {
	vsched.Point(vsched.OpWgAdd, unsafe.Pointer(w))
	w.n.Add(int64(d))
	w.real.Add(d)
}

func (w *WaitGroup) Done() { w.Add(-1) }

func (w *WaitGroup) Wait() {
	if vsched.Block(vsched.OpWait, unsafe.Pointer(w), func() bool { return w.n.Load() <= 0 }) {
		return
	}
	w.real.Wait()
}

func (w *WaitGroup) Go(f func()) {
	w.Add(1)
	vsched.Go(func() {
		defer w.Done()
		f()
	})
}

// ---- Once -------------------------------------------------------------------------------------

type Once struct {
	m    Mutex
	done atomic.Bool
}

func (o *Once) Do(f func()) {
	vsched.Point(vsched.OpOnce, unsafe.Pointer(o))
	if o.done.Load() {
		return
	}
	o.m.Lock()
	defer o.m.Unlock()
	if !o.done.Load() {
		defer o.done.Store(true)
		f()
	}
}

func OnceFunc(f func()) func() {
	var o Once
	return func() { o.Do(f) }
}

func OnceValue[T any](f func() T) func() T {
	var o Once
	var v T
	return func() T {
		o.Do(func() { v = f() })
		return v
	}
}

func OnceValues[T1, T2 any](f func() (T1, T2)) func() (T1, T2) {
	var o Once
	var v1 T1
	var v2 T2
	return func() (T1, T2) {
		o.Do(func() { v1, v2 = f() })
		return v1, v2
	}
}

// ---- Cond -------------------------------------------------------------------------------------

type Cond struct {
	L    Locker
	real *sync.Cond
	gen  atomic.Int64 // bumped by Signal/Broadcast
	wait atomic.Int64 // tickets handed to waiters; Signal releases one, Broadcast all
	rel  atomic.Int64
	once sync.Once
}

func NewCond(l Locker) *Cond { return &Cond{L: l} }

func (c *Cond) lazy() { c.once.Do(func() { c.real = sync.NewCond(c.L) }) }

func (c *Cond) Wait() {
	if !vsched.Active() {
		c.lazy()
		c.real.Wait()
		return
	}
	ticket := c.wait.Add(1)
	c.L.Unlock()
	vsched.Block(vsched.OpCond, unsafe.Pointer(c), func() bool { return c.rel.Load() >= ticket })
	c.L.Lock()
}

func (c *Cond) Signal() {
	vsched.Point(vsched.OpCond, unsafe.Pointer(c))
	if c.rel.Load() < c.wait.Load() {
		c.rel.Add(1)
	}
	if c.real != nil || !vsched.Active() {
		c.lazy()
		c.real.Signal()
	}
}

func (c *Cond) Broadcast() {
	vsched.Point(vsched.OpCond, unsafe.Pointer(c))
	c.rel.Store(c.wait.Load())
	if c.real != nil || !vsched.Active() {
		c.lazy()
		c.real.Broadcast()
	}
}

// ---- Pool: deterministic LIFO (recycling is exactly what must be exercised) ------------------------

type Pool struct {
	New   func() any
	mu    sync.Mutex
	items []any
}

func (p *Pool) Get() any {
	vsched.Point(vsched.OpPool, unsafe.Pointer(p))
	p.mu.Lock()
	if n := len(p.items); n > 0 {
		x := p.items[n-1]
		p.items[n-1] = nil
		p.items = p.items[:n-1]
		p.mu.Unlock()
		return x
	}
	p.mu.Unlock()
	if p.New != nil {
		return p.New()
	}
	return nil
}

func (p *Pool) Put(x any) {
	if x == nil {
		return
	}
	vsched.Point(vsched.OpPool, unsafe.Pointer(p))
	p.mu.Lock()
	if len(p.items) < 64 {
		p.items = append(p.items, x)
	}
	p.mu.Unlock()
}

// VerifReset empties the pool (harness use between executions).
func (p *Pool) VerifReset() {
	p.mu.Lock()
	p.items = nil
	p.mu.Unlock()
}

// ---- Map: insertion-ordered, every method one atomic step -------------------------------------------

type Map struct {
	mu   sync.Mutex
	m    map[any]any
	keys []any
}

func (m *Map) pt() { vsched.Point(vsched.OpMapOp, unsafe.Pointer(m)) }

func (m *Map) Load(key any) (value any, ok bool) {
	m.pt()
	m.mu.Lock()
	defer m.mu.Unlock()
	value, ok = m.m[key]
	return
}

func (m *Map) storeLocked(key, value any) {
	if m.m == nil {
		m.m = map[any]any{}
	}
	if _, ok := m.m[key]; !ok {
		m.keys = append(m.keys, key)
	}
	m.m[key] = value
}

func (m *Map) deleteLocked(key any) {
	if _, ok := m.m[key]; !ok {
		return
	}
	delete(m.m, key)
	for i, k := range m.keys {
		if k == key {
			m.keys = append(m.keys[:i:i], m.keys[i+1:]...)
			break
		}
	}
}

func (m *Map) Store(key, value any) {
	m.pt()
	m.mu.Lock()
	defer m.mu.Unlock()
	m.storeLocked(key, value)
}

func (m *Map) Clear() {
	m.pt()
	m.mu.Lock()
	defer m.mu.Unlock()
	m.m, m.keys = nil, nil
}

func (m *Map) LoadOrStore(key, value any) (actual any, loaded bool) {
	m.pt()
	m.mu.Lock()
	defer m.mu.Unlock()
	if v, ok := m.m[key]; ok {
		return v, true
	}
	m.storeLocked(key, value)
	return value, false
}

func (m *Map) LoadAndDelete(key any) (value any, loaded bool) {
	m.pt()
	m.mu.Lock()
	defer m.mu.Unlock()
	value, loaded = m.m[key]
	m.deleteLocked(key)
	return
}

func (m *Map) Delete(key any) { m.LoadAndDelete(key) }

func (m *Map) Swap(key, value any) (previous any, loaded bool) {
	m.pt()
	m.mu.Lock()
	defer m.mu.Unlock()
	previous, loaded = m.m[key]
	m.storeLocked(key, value)
	return
}

func (m *Map) CompareAndSwap(key, old, new any) (swapped bool) {
	m.pt()
	m.mu.Lock()
	defer m.mu.Unlock()
	if v, ok := m.m[key]; ok && v == old {
		m.m[key] = new
		return true
	}
	return false
}

func (m *Map) CompareAndDelete(key, old any) (deleted bool) {
	m.pt()
	m.mu.Lock()
	defer m.mu.Unlock()
	if v, ok := m.m[key]; ok && v == old {
		m.deleteLocked(key)
		return true
	}
	return false
}

// Range visits a snapshot of the keys in insertion order, re-checking presence before each callback and
// yielding to the scheduler between callbacks (sync.Map.Range is not a snapshot of a single instant).
func (m *Map) Range(f func(key, value any) bool) {
	m.pt()
	m.mu.Lock()
	keys := append([]any(nil), m.keys...)
	m.mu.Unlock()
	for i, k := range keys {
		if i > 0 {
			m.pt()
		}
		m.mu.Lock()
		v, ok := m.m[k]
		m.mu.Unlock()
		if !ok {
			continue
		}
		if !f(k, v) {
			return
		}
	}
}
