//go:build verif

package control

// VerifC20RetiringPlane returns a control plane that stands for "the previous generation" in the C20 harness: a zero
// ControlPlane on which the REAL reloadManager.startControlPlaneRetirement goroutine runs (MarkRetired,
// retireControlPlaneConnections, oldCancel, Close, RunReloadRetirementCleanup, close(done)) without kernel objects.
// onClose is planted in the unexported cancel field, which the real Close() calls first, synchronously, in the calling
// goroutine: it is the observation point "the old generation is being closed" and the place where the harness lets
// the scheduler decide how long the teardown of the old generation lasts. The rest of the real Close (janitor stops,
// close tail) runs for real on the zero plane.
func VerifC20RetiringPlane(onClose func()) *ControlPlane {
	return &ControlPlane{cancel: onClose}
}
