package main

import (
	"fmt"
	"io"
	"sort"
	"strings"
	"sync"

	"github.com/daeuniverse/dae/verifx/vlib"
	"github.com/sirupsen/logrus"
)

func quietLogger() *logrus.Logger {
	l := logrus.New()
	l.SetOutput(io.Discard)
	l.SetLevel(logrus.PanicLevel)
	return l
}

func ipow(b, e int) int {
	p := 1
	for ; e > 0; e-- {
		p *= b
	}
	return p
}

// seqSpace enumerates all sequences of length minLen..maxLen over an alphabet of n symbols, shorter first,
// in lexicographic order of the symbol indices (so the alphabet order "simplest first" carries over).
type seqSpace struct {
	name           string
	n              int
	minLen, maxLen int
}

func (s *seqSpace) count() int {
	c := 0
	for k := s.minLen; k <= s.maxLen; k++ {
		c += ipow(s.n, k)
	}
	return c
}

func (s *seqSpace) decode(i int) []int {
	for k := s.minLen; k <= s.maxLen; k++ {
		p := ipow(s.n, k)
		if i < p {
			idx := make([]int, k)
			for j := k - 1; j >= 0; j-- {
				idx[j] = i % s.n
				i /= s.n
			}
			return idx
		}
		i -= p
	}
	panic("seqSpace: index out of range")
}

// ---------------------------------------------------------------------------------------------------
// Findings: the run keeps, per (pipeline, leg, diagnosis class), only the SHORTEST rule list (ties: the
// earliest in enumeration order) that shows the mismatch, so that what is reported does not depend on
// worker scheduling, and one defect yields one violation per pipeline.

type finding struct {
	class  string // pipeline|leg|diag[|shape]
	length int    // number of rules in the list
	space  int    // ordinal of the space it was found in
	index  int    // index inside the space
	sig    string
	detail any
}

func (a *finding) less(b *finding) bool {
	if a.length != b.length {
		return a.length < b.length
	}
	if a.space != b.space {
		return a.space < b.space
	}
	return a.index < b.index
}

type findings struct {
	mu    sync.Mutex
	best  map[string]*finding
	count map[string]int64 // mismatching (list,input) cases per class
	lists map[string]int64 // mismatching lists per class
}

func newFindings() *findings {
	return &findings{best: map[string]*finding{}, count: map[string]int64{}, lists: map[string]int64{}}
}

func (f *findings) add(x *finding, cases int64) {
	f.mu.Lock()
	defer f.mu.Unlock()
	f.count[x.class] += cases
	f.lists[x.class]++
	if b := f.best[x.class]; b == nil || x.less(b) {
		f.best[x.class] = x
	}
}

const maxOtherPerPipeline = 4

// report turns the kept findings into violations: every named diagnosis class once; of the unnamed ("other")
// classes the maxOtherPerPipeline smallest per pipeline/leg.
func (f *findings) report(r *vlib.Run) {
	f.mu.Lock()
	defer f.mu.Unlock()
	var keys []string
	for k := range f.best {
		keys = append(keys, k)
	}
	sort.Slice(keys, func(i, j int) bool {
		a, b := f.best[keys[i]], f.best[keys[j]]
		if a.less(b) || b.less(a) {
			return a.less(b)
		}
		return keys[i] < keys[j]
	})
	others := map[string]int{}
	summary := map[string]any{}
	for _, k := range keys {
		x := f.best[k]
		summary[k] = map[string]any{"mismatching_lists": f.lists[k], "mismatching_cases": f.count[k], "shortest": x.sig}
		parts := strings.SplitN(k, "|", 4)
		if len(parts) >= 3 && strings.HasPrefix(parts[2], "other") {
			pl := parts[0] + "|" + parts[1]
			others[pl]++
			if others[pl] > maxOtherPerPipeline {
				continue
			}
		}
		r.Violation(x.sig, x.detail)
	}
	if len(summary) > 0 {
		r.Set("mismatch_classes", summary)
	}
	r.Set("mismatch_class_count", len(keys))
}

// hist is a merged histogram of expected decisions (coverage only).
type hist struct {
	mu sync.Mutex
	m  map[string]int64
}

func (h *hist) add(local map[string]int64) {
	h.mu.Lock()
	if h.m == nil {
		h.m = map[string]int64{}
	}
	for k, v := range local {
		h.m[k] += v
	}
	h.mu.Unlock()
}

func (h *hist) sorted() map[string]int64 {
	out := map[string]int64{}
	for k, v := range h.m {
		out[k] = v
	}
	return out
}

func checkDistinct(what string, texts []string) {
	seen := map[string]bool{}
	for _, t := range texts {
		if seen[t] {
			panic(fmt.Sprintf("harness: duplicate symbol in alphabet %s: %s", what, t))
		}
		seen[t] = true
	}
}
