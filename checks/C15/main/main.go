// C15 — A group picks only nodes it believes alive, by the set policy and tolerance.
//
// Explicit-state BFS over operation histories on the REAL dialer.Dialer / outbound.DialerGroup / AliveDialerSet
// objects. Every history runs inside one vsched.Run (virtual clock: a scripted probe "takes" its latency by
// sleeping virtual time inside the real d.check()). In EVERY reached state all selections
// SelectWithExclusionResult(type, strict, excluded) are evaluated (for the random policy under ALL fastrand
// outcomes) and judged by a reference written from the property statement; consecutive states are judged by the
// tolerance rule. See dialerh (shared_inject/dialer_api) for the BFS driver.
package main

import (
	"errors"
	"fmt"
	"sort"
	"strings"
	"time"

	"github.com/daeuniverse/dae/common/consts"
	"github.com/daeuniverse/dae/component/outbound"
	"github.com/daeuniverse/dae/component/outbound/dialer"
	"github.com/daeuniverse/dae/control"
	"github.com/daeuniverse/dae/verifx/dialerh"
	"github.com/daeuniverse/dae/verifx/fastrandx"
)

// indices into dialer.VerifStdTypes()
const (
	DNS4 = iota
	DNS6
	TCP4
	TCP6
	DAT4
	DAT6
)

var typeShort = [6]string{"dns4", "dns6", "tcp4", "tcp6", "dat4", "dat6"}

type pol struct {
	p     consts.DialerSelectionPolicy
	fixed int
}

func (p pol) String() string {
	if p.p == consts.DialerSelectionPolicy_Fixed {
		return fmt.Sprintf("fixed(%d)", p.fixed)
	}
	return string(p.p)
}

func (p pol) isMin() bool {
	return p.p == consts.DialerSelectionPolicy_MinLastLatency || p.p == consts.DialerSelectionPolicy_MinAverage10Latencies ||
		p.p == consts.DialerSelectionPolicy_MinMovingAverageLatencies
}
func (p pol) isFixed() bool { return p.p == consts.DialerSelectionPolicy_Fixed }

func allPolicies(n int) []pol {
	ps := []pol{{consts.DialerSelectionPolicy_MinLastLatency, 0}, {consts.DialerSelectionPolicy_MinAverage10Latencies, 0},
		{consts.DialerSelectionPolicy_MinMovingAverageLatencies, 0}, {consts.DialerSelectionPolicy_Random, 0},
		{consts.DialerSelectionPolicy_Fixed, 0}}
	if n > 1 {
		ps = append(ps, pol{consts.DialerSelectionPolicy_Fixed, n - 1})
	}
	return ps
}

type evKind int

const (
	evOK evKind = iota
	evPFail
	evTFail
	evFFail
	evTOK
	evPolicy
)

type event struct {
	kind evKind
	node int
	typ  int
	lat  time.Duration
	pol  pol
}

// dom: the events offered on one health domain (per node)
type dom struct {
	typ   int
	lats  []time.Duration // probe ok with these latencies
	kinds []evKind        // of evPFail, evTFail, evFFail, evTOK
}

type cfg struct {
	name     string
	n        int
	offNode  int // node carrying +30ms, -1: none
	tol      time.Duration
	initPol  pol
	domains  []dom
	switches []pol
	depth    int
	events   []event
	evNames  []string
}

var allFail = []evKind{evPFail, evTFail, evFFail, evTOK}

func (c *cfg) build() {
	for node := 0; node < c.n; node++ {
		for _, dm := range c.domains {
			t := dm.typ
			for _, l := range dm.lats {
				c.events = append(c.events, event{kind: evOK, node: node, typ: t, lat: l})
				c.evNames = append(c.evNames, fmt.Sprintf("%c.%s.ok%d", 'a'+node, typeShort[t], l/time.Millisecond))
			}
			for _, k := range dm.kinds {
				c.events = append(c.events, event{kind: k, node: node, typ: t})
				c.evNames = append(c.evNames, fmt.Sprintf("%c.%s.%s", 'a'+node, typeShort[t], [...]string{"", "probefail", "trafficfail", "forcedfail", "trafficok"}[k]))
			}
		}
	}
	for _, p := range c.switches {
		c.events = append(c.events, event{kind: evPolicy, pol: p})
		c.evNames = append(c.evNames, "policy="+p.String())
	}
}

type world struct {
	c     *cfg
	nodes []*dialer.Dialer
	g     *outbound.DialerGroup
	types [6]*dialer.NetworkType
	offs  []time.Duration
	pol   pol
	glue  *control.VerifGlue
	// foreign: a node that is NOT a member of the group (another group's node / a previous generation's node, as
	// control/udp.go's failover paths can pass it), used only as the `excluded` argument of selections.
	foreign *dialer.Dialer
}

// values of selObs.excl beyond the member indices 0..n-1
const (
	exclNone    = -1
	exclForeign = 100 // a node that is not a member of the group
)

func (w *world) exclList() []int {
	out := []int{exclNone}
	for i := 0; i < w.c.n; i++ {
		out = append(out, i)
	}
	return append(out, exclForeign)
}

func (w *world) exclDialer(excl int) *dialer.Dialer {
	switch {
	case excl == exclForeign:
		return w.foreign
	case excl >= 0:
		return w.nodes[excl]
	}
	return nil
}

var (
	errTraffic = errors.New("verif: traffic failure")
	errForced  = errors.New("verif: forced failure")
	quietLog   = dialerh.QuietLogger()
)

func newWorld(c *cfg) *world {
	w := &world{c: c, types: dialer.VerifStdTypes(), pol: c.initPol}
	opt := dialerh.NewOption(quietLog, 30*time.Second, c.tol)
	annos := make([]*dialer.Annotation, c.n)
	for i := 0; i < c.n; i++ {
		name := string(rune('a' + i))
		w.nodes = append(w.nodes, dialer.VerifNewDialer(opt, name, "addr-"+name))
		off := time.Duration(0)
		if i == c.offNode {
			off = 30 * time.Millisecond
		}
		w.offs = append(w.offs, off)
		annos[i] = &dialer.Annotation{AddLatency: off}
	}
	w.g = outbound.NewDialerGroup(opt, "g", w.nodes, annos, outbound.DialerSelectionPolicy{Policy: c.initPol.p, FixedIndex: c.initPol.fixed},
		func(alive bool, nt *dialer.NetworkType, isInit bool) {})
	w.glue = control.VerifNewGlue(w.g, quietLog)
	w.foreign = dialer.VerifNewDialer(opt, "foreign", "addr-foreign")
	return w
}

func (w *world) apply(e event) {
	dialerh.Sync()
	switch e.kind {
	case evOK:
		w.nodes[e.node].VerifProbe(w.types[e.typ], e.lat, true, nil)
	case evPFail:
		w.nodes[e.node].VerifProbe(w.types[e.typ], 0, false, dialer.VerifErrProbe)
	case evTFail:
		w.nodes[e.node].ReportUnavailable(w.types[e.typ], errTraffic)
	case evFFail:
		w.nodes[e.node].ReportUnavailableForced(w.types[e.typ], errForced)
	case evTOK:
		w.nodes[e.node].ReportAvailableTraffic(w.types[e.typ])
	case evPolicy:
		w.g.SetSelectionPolicy(outbound.DialerSelectionPolicy{Policy: e.pol.p, FixedIndex: e.pol.fixed})
		w.pol = e.pol
	}
	dialer.VerifSleep(0)
}

func (w *world) nodeIdx(d *dialer.Dialer) int {
	for i, x := range w.nodes {
		if x == d {
			return i
		}
	}
	if d == nil {
		return -1
	}
	return -2
}

func (w *world) dump(now int64) string {
	var sb strings.Builder
	fmt.Fprintf(&sb, "P=%s ", w.pol)
	for _, d := range w.nodes {
		d.VerifDump(&sb, now)
	}
	for _, t := range w.types {
		if a := w.g.MustGetAliveDialerSet(t); a != nil {
			a.VerifDump(&sb)
		} else {
			sb.WriteString("-")
		}
	}
	dialer.VerifGlobalsDump(&sb, now)
	return sb.String()
}

// ---- observations ----------------------------------------------------------------------------------------

type lat struct {
	measured bool
	v        time.Duration // measurement under the current policy + recovery penalty + per-node offset
}

type selRes struct {
	node int    // -1: no node
	err  string // "", "noalive", or other text
	adm  string // admission type reported
}

type selObs struct {
	ob     int // index into obsList (the spelling of the requested type); -1 for glue selections
	typ    int // the health domain the statement/documentation assigns to that spelling
	strict bool
	excl   int
	glue   string   // "" = DialerGroup.SelectWithExclusionResult; else the flow selected through control's chooseProxyDialer
	out    []selRes // every outcome (1 unless random)
}

type snap struct {
	pol   pol
	alive [6][]bool
	view  [6]*dialer.VerifSetView
	fresh [6][]lat
	sel   []selObs
}

// obsSpec: one way a caller can spell the requested network type. alias == nil: the canonical spelling of the health
// domain (dialer.VerifStdTypes). The aliases are the other legal NetworkType values; which health domain each of them
// denotes is taken from the documentation of NetworkType (connectivity_check.go: "UDP callers must set DNS explicitly via
// UdpHealthDomainDns. Unset falls back only to the ordinary data-UDP domain"; "TCP DNS and plain TCP share the same
// collection"), i.e. for UDP the UdpHealthDomain field decides (unset = data), IsDns is only meaningful for TCP and does
// not select a different health domain there. "For every group and network type": an alias must be served exactly like
// the canonical spelling of its domain (same set, same fallback chain).
type obsSpec struct {
	name  string
	typ   int
	alias *dialer.NetworkType
}

var obsList = []obsSpec{
	{"tcp4", TCP4, nil}, {"dat4", DAT4, nil}, {"dat6", DAT6, nil}, {"dns4", DNS4, nil},
	{"dat4~domain-unset", DAT4, &dialer.NetworkType{L4Proto: consts.L4ProtoStr_UDP, IpVersion: consts.IpVersionStr_4}},
	{"dat6~domain-unset", DAT6, &dialer.NetworkType{L4Proto: consts.L4ProtoStr_UDP, IpVersion: consts.IpVersionStr_6}},
	{"dat4~isdns-flag", DAT4, &dialer.NetworkType{L4Proto: consts.L4ProtoStr_UDP, IpVersion: consts.IpVersionStr_4, IsDns: true, UdpHealthDomain: dialer.UdpHealthDomainData}},
	{"dns4~no-isdns-flag", DNS4, &dialer.NetworkType{L4Proto: consts.L4ProtoStr_UDP, IpVersion: consts.IpVersionStr_4, UdpHealthDomain: dialer.UdpHealthDomainDns}},
	{"tcp4~isdns-flag", TCP4, &dialer.NetworkType{L4Proto: consts.L4ProtoStr_TCP, IpVersion: consts.IpVersionStr_4, IsDns: true}},
}

func (w *world) measure(node, t int, p pol) lat {
	win, mov, pen := w.nodes[node].VerifMeasure(w.types[t])
	var m time.Duration
	switch p.p {
	case consts.DialerSelectionPolicy_MinLastLatency:
		if len(win) == 0 {
			return lat{}
		}
		m = win[len(win)-1]
	case consts.DialerSelectionPolicy_MinAverage10Latencies:
		if len(win) == 0 {
			return lat{}
		}
		var s time.Duration
		for _, x := range win {
			s += x
		}
		m = s / time.Duration(len(win))
	case consts.DialerSelectionPolicy_MinMovingAverageLatencies:
		if mov <= 0 {
			return lat{}
		}
		m = mov
	default:
		return lat{}
	}
	return lat{true, m + pen + w.offs[node]}
}

func (w *world) selectOnce(ob int, strict bool, excl int) selRes {
	ex := w.exclDialer(excl)
	nt := *w.types[obsList[ob].typ]
	if a := obsList[ob].alias; a != nil {
		nt = *a
	}
	d, _, adm, err := w.g.SelectWithExclusionResult(&nt, strict, ex)
	r := selRes{node: w.nodeIdx(d), adm: dialer.VerifTypeName(adm)}
	if err != nil {
		r.node = -1
		if errors.Is(err, outbound.ErrNoAliveDialer) {
			r.err = "noalive"
		} else {
			r.err = err.Error()
		}
	}
	return r
}

// glueOnce: the same selection performed through the REAL control-plane glue ControlPlane.chooseProxyDialer (first
// selection for the flow's type, then its alternate-IP-family retry), as udp.go's failover paths call it with Excluded.
func (w *world) glueOnce(network string, v6, withDomain bool, excl int) selRes {
	ex := w.exclDialer(excl)
	d, adm, err := w.glue.Choose(network, v6, withDomain, ex)
	r := selRes{node: w.nodeIdx(d), adm: dialer.VerifTypeName(adm)}
	if err != nil {
		r.node = -1
		if errors.Is(err, outbound.ErrNoAliveDialer) {
			r.err = "noalive"
		} else {
			r.err = err.Error()
		}
	}
	return r
}

func (w *world) observe(o *selObs, once func() selRes) {
	if w.pol.p == consts.DialerSelectionPolicy_Random {
		seen := map[selRes]bool{}
		fastrandx.ForAll(func() {
			r := once()
			if !seen[r] {
				seen[r] = true
				o.out = append(o.out, r)
			}
		})
		sort.Slice(o.out, func(i, j int) bool { return o.out[i].node < o.out[j].node })
	} else {
		o.out = []selRes{once()}
	}
}

// snapshot observes the state; lite = only what the step rule needs from the PRE state (taken inside the run).
func (w *world) snapshot(lite bool) *snap {
	s := &snap{pol: w.pol}
	for t := 0; t < 6; t++ {
		s.alive[t] = make([]bool, w.c.n)
		s.fresh[t] = make([]lat, w.c.n)
		for i, d := range w.nodes {
			s.alive[t][i] = d.MustGetAlive(w.types[t])
			if w.pol.isMin() {
				s.fresh[t][i] = w.measure(i, t, w.pol)
			}
		}
		if a := w.g.MustGetAliveDialerSet(w.types[t]); a != nil {
			s.view[t] = a.VerifView()
		}
	}
	for ob := range obsList {
		for _, strict := range []bool{true, false} {
			for _, excl := range w.exclList() {
				if lite && (!w.pol.isMin() || !strict || excl != exclNone) {
					continue
				}
				o := selObs{ob: ob, typ: obsList[ob].typ, strict: strict, excl: excl}
				w.observe(&o, func() selRes { return w.selectOnce(ob, strict, excl) })
				s.sel = append(s.sel, o)
			}
		}
	}
	if lite {
		return s
	}
	// the same state seen through control's glue: tcp/udp flows of both IP families, dialled by IP (first selection
	// strict) or by sniffed domain (non-strict), with and without an excluded node. The glue itself retries the other
	// family, i.e. it is a caller that allows it: judged like a non-strict selection of the flow's type.
	for _, network := range []string{"tcp", "udp"} {
		for _, v6 := range []bool{false, true} {
			t := TCP4
			if network == "udp" {
				t = DAT4
			}
			fam := "v4"
			if v6 {
				t, fam = other(t), "v6"
			}
			for _, withDomain := range []bool{false, true} {
				how := "ip"
				if withDomain {
					how = "domain"
				}
				for _, excl := range w.exclList() {
					o := selObs{ob: -1, typ: t, strict: false, excl: excl, glue: network + "/" + fam + "/" + how}
					w.observe(&o, func() selRes { return w.glueOnce(network, v6, withDomain, excl) })
					s.sel = append(s.sel, o)
				}
			}
		}
	}
	return s
}

// ---- the reference (from the statement) ------------------------------------------------------------------

func chain(t int) []int {
	switch t {
	case DAT4:
		return []int{DAT4, DNS4, TCP4}
	case DAT6:
		return []int{DAT6, DNS6, TCP6}
	}
	return []int{t}
}

func other(t int) int { return t ^ 1 }

// triedOrders: the type orders the statement allows. "DNS-UDP then TCP for data UDP; the other IP family when the
// caller allows it": the requested type first; DNS-UDP before TCP within a family; the statement does not order
// the other family against the DNS/TCP fallbacks, so both interleavings are accepted.
func triedOrders(t int, strict bool) [][]int {
	a := append([]int{}, chain(t)...)
	if strict {
		return [][]int{a}
	}
	a = append(a, chain(other(t))...)
	var b []int
	ct, co := chain(t), chain(other(t))
	for i := range ct {
		b = append(b, ct[i], co[i])
	}
	return [][]int{a, b}
}

func (s *snap) candidates(t, excl, n int) []int {
	var out []int
	for i := 0; i < n; i++ {
		if s.alive[t][i] && i != excl {
			out = append(out, i)
		}
	}
	return out
}

func contains(xs []int, x int) bool {
	for _, y := range xs {
		if y == x {
			return true
		}
	}
	return false
}

// source: first tried type with a candidate, per allowed order (-1: none anywhere).
func (s *snap) sources(t int, strict bool, excl, n int) []int {
	var out []int
	for _, ord := range triedOrders(t, strict) {
		src := -1
		for _, x := range ord {
			if len(s.candidates(x, excl, n)) > 0 {
				src = x
				break
			}
		}
		if !contains(out, src) {
			out = append(out, src)
		}
	}
	return out
}

type judge struct {
	w    *world
	res  *dialerh.StepResult
	sc   *dialerh.Scenario
	hist []int
}

func (j *judge) viol(kind, what string, detail any) {
	j.res.Violate(kind, fmt.Sprintf("%s: %s | cfg=%s history=%s", kind, what, j.w.c.name, dialerh.HistString(j.sc, j.hist)), detail)
}

// judgeSelect: one selection outcome against the statement. Returns the source type used (-1 if not applicable).
func (j *judge) judgeSelect(s *snap, o *selObs, r selRes) int {
	n := j.w.c.n
	desc := func() string {
		if o.glue != "" {
			return fmt.Sprintf("chooseProxyDialer(flow %s -> %s,excluded=%s) under %s -> %s", o.glue, typeShort[o.typ], nodeName(o.excl), s.pol, r)
		}
		return fmt.Sprintf("select(%s,strict=%v,excluded=%s) under %s -> %s", obsList[o.ob].name, o.strict, nodeName(o.excl), s.pol, r)
	}
	if s.pol.isFixed() {
		if r.err != "" || r.node != s.pol.fixed {
			j.viol("fixed", desc()+": fixed(i) must return the i-th node", nil)
		}
		return -1
	}
	srcs := s.sources(o.typ, o.strict, o.excl, n)
	if r.err != "" {
		if r.err != "noalive" {
			j.viol("error", desc()+": unexpected error", nil)
			return -1
		}
		if srcs[0] != -1 {
			j.viol("noalive", fmt.Sprintf("%s: 'no alive node' although node %s is alive for tried type %s", desc(),
				nodeName(s.candidates(srcs[0], o.excl, n)[0]), typeShort[srcs[0]]), s.aliveTable())
		}
		return -1
	}
	if r.node < 0 {
		j.viol("error", desc()+": neither node nor error", nil)
		return -1
	}
	if r.node == o.excl && n != 1 {
		j.viol("excluded", desc()+": the excluded node was returned (policy not fixed, group has more than one node)", s.aliveTable())
		return -1
	}
	if srcs[0] == -1 {
		if n == 1 {
			j.res.Count("single_node_last_resort", 1)
			return -1
		}
		j.viol("notalive", desc()+": returned a node although no tried type has an alive candidate", s.aliveTable())
		return -1
	}
	for _, src := range srcs {
		if contains(s.candidates(src, o.excl, n), r.node) {
			return src
		}
	}
	j.viol("notalive", fmt.Sprintf("%s: node is not alive for the first tried type that has an alive node (%s)", desc(), typeShort[srcs[0]]), s.aliveTable())
	return -1
}

func nodeName(i int) string {
	if i < 0 {
		return "none"
	}
	if i == exclForeign {
		return "foreign(not a member of the group)"
	}
	return string(rune('a' + i))
}

func (r selRes) String() string {
	if r.err != "" {
		return "err:" + r.err
	}
	return nodeName(r.node) + "/" + r.adm
}

func (s *snap) aliveTable() string {
	var sb strings.Builder
	for t := 0; t < 6; t++ {
		fmt.Fprintf(&sb, "%s:", typeShort[t])
		for i, a := range s.alive[t] {
			if a {
				sb.WriteString(nodeName(i))
			} else {
				sb.WriteString("-")
			}
		}
		sb.WriteByte(' ')
	}
	return sb.String()
}

func (j *judge) recOf(s *snap, t, node int) (time.Duration, bool) {
	v := s.view[t]
	if v == nil {
		return 0, false
	}
	l, ok := v.Sorting[j.w.nodes[node]]
	return l, ok
}

func (s *snap) latTable(j *judge, t int) string {
	var sb strings.Builder
	for i := range j.w.nodes {
		l, ok := j.recOf(s, t, i)
		fmt.Fprintf(&sb, "%s{alive=%v measured=%v group=%v/%v fresh=%v} ", nodeName(i), s.alive[t][i], s.fresh[t][i].measured, l, ok, s.fresh[t][i].v)
	}
	return sb.String()
}

// judgeState: everything the statement says about ONE state.
func (j *judge) judgeState(s *snap) {
	w := j.w
	n := w.c.n
	// structural invariants of the internal index + agreement of the group's view with the nodes
	for t := 0; t < 6; t++ {
		a := w.g.MustGetAliveDialerSet(w.types[t])
		if a == nil {
			if !s.pol.isFixed() {
				j.viol("structural", fmt.Sprintf("policy %s has no alive set for %s", s.pol, typeShort[t]), nil)
			}
			continue
		}
		for _, b := range a.VerifStructural() {
			j.viol("structural", fmt.Sprintf("%s set: %s", typeShort[t], b), nil)
		}
		for i, d := range w.nodes {
			if in := s.view[t].Index[d] >= 0; in != s.alive[t][i] {
				j.viol("agreement", fmt.Sprintf("%s: node %s alive=%v but member of the group's alive array=%v", typeShort[t], nodeName(i), s.alive[t][i], in), nil)
			}
		}
	}
	for k := range s.sel {
		o := &s.sel[k]
		for _, r := range o.out {
			src := j.judgeSelect(s, o, r)
			if src < 0 || !s.pol.isMin() {
				continue
			}
			// min policies: no alive MEASURED node strictly better than the choice by >= tolerance
			c := r.node
			if !s.fresh[src][c].measured {
				for _, d := range s.candidates(src, o.excl, n) {
					if d != c && s.fresh[src][d].measured {
						j.res.Count("choice_unmeasured_while_measured_alive", 1)
						break
					}
				}
				continue
			}
			lc, ok := j.recOf(s, src, c)
			if !ok {
				continue // reported as agreement violation
			}
			for _, d := range s.candidates(src, o.excl, n) {
				if d == c || !s.fresh[src][d].measured {
					continue
				}
				ld, ok := j.recOf(s, src, d)
				if ok && ld < lc && lc-ld >= w.c.tol {
					j.viol("min", fmt.Sprintf("select(%s,strict=%v,excluded=%s) under %s tol=%v -> %s (%v) but alive measured node %s (%v) is better by %v",
						o.name(), o.strict, nodeName(o.excl), s.pol, w.c.tol, nodeName(c), lc, nodeName(d), ld, lc-ld), s.latTable(j, src))
				}
			}
		}
		if len(o.out) > 1 {
			j.res.Count("random_outcomes_enumerated", int64(len(o.out)))
		}
	}
}

// judgeCache: the group's recorded latency of a node is a measurement of that node (fresh after a new sample,
// untouched by events on other nodes).
func (j *judge) judgeCache(pre, post *snap, e event) {
	if !post.pol.isMin() {
		return
	}
	w := j.w
	for t := 0; t < 6; t++ {
		if post.view[t] == nil {
			continue
		}
		for i := range w.nodes {
			if !post.alive[t][i] {
				continue
			}
			got, ok := j.recOf(post, t, i)
			if !ok {
				continue
			}
			want := time.Duration(0)
			if post.fresh[t][i].measured {
				want = post.fresh[t][i].v
			}
			old, hadOld := time.Duration(0), false
			if pre != nil && pre.view[t] != nil && pre.pol == post.pol {
				old, hadOld = j.recOf(pre, t, i)
			}
			switch {
			case e.kind == evPolicy && pre != nil && pre.pol == post.pol:
				if hadOld && got != old {
					j.viol("cache", fmt.Sprintf("%s: recorded latency of %s changed %v -> %v by a switch to the policy already in force", typeShort[t], nodeName(i), old, got), nil)
				}
			case e.kind == evPolicy || pre == nil:
				if got != want {
					j.viol("cache", fmt.Sprintf("%s: recorded latency of %s is %v after (re)computation, its measurement+offset is %v", typeShort[t], nodeName(i), got, want), nil)
				}
			case e.node == i && e.kind == evOK && e.typ == t:
				if got != want {
					j.viol("cache", fmt.Sprintf("%s: after a new sample the recorded latency of %s is %v, its measurement+offset is %v", typeShort[t], nodeName(i), got, want), nil)
				}
			case e.node == i:
				if got != want && !(hadOld && got == old) {
					j.viol("cache", fmt.Sprintf("%s: recorded latency of %s is %v: neither its previous record %v nor its measurement+offset %v", typeShort[t], nodeName(i), got, old, want), nil)
				}
			default:
				if hadOld && got != old {
					j.viol("cache", fmt.Sprintf("%s: recorded latency of %s changed %v -> %v by an event on node %s", typeShort[t], nodeName(i), old, got, nodeName(e.node)), nil)
				}
			}
		}
	}
	// frame: an event on one node never changes what is recorded about another node's life
	if pre != nil && e.kind != evPolicy {
		for t := 0; t < 6; t++ {
			for i := range w.nodes {
				if i != e.node && pre.alive[t][i] != post.alive[t][i] {
					j.viol("frame", fmt.Sprintf("%s: alive state of node %s changed by an event on node %s", typeShort[t], nodeName(i), nodeName(e.node)), nil)
				}
			}
		}
	}
}

func findSel(s *snap, ob int, strict bool, excl int) *selObs {
	for k := range s.sel {
		o := &s.sel[k]
		if o.glue == "" && o.ob == ob && o.strict == strict && o.excl == excl {
			return o
		}
	}
	return nil
}

func (o *selObs) name() string {
	if o.ob >= 0 {
		return obsList[o.ob].name
	}
	return "flow " + o.glue + " -> " + typeShort[o.typ]
}

// judgeStep: the tolerance rule between consecutive states.
func (j *judge) judgeStep(pre, post *snap, e event) {
	w := j.w
	n := w.c.n
	if !pre.pol.isMin() || !post.pol.isMin() {
		return
	}
	for ob := range obsList {
		t := obsList[ob].typ
		o0, o1 := findSel(pre, ob, true, exclNone), findSel(post, ob, true, exclNone)
		r0, r1 := o0.out[0], o1.out[0]
		if r0.node < 0 || r1.node < 0 || r0.node == r1.node {
			continue
		}
		if e.kind == evPolicy {
			j.res.Count("choice_changed_by_policy_switch", 1)
			continue
		}
		s0, s1 := pre.sources(t, true, -1, n)[0], post.sources(t, true, -1, n)[0]
		if s0 != s1 || s0 < 0 {
			j.res.Count("choice_changed_with_fallback_type", 1)
			continue
		}
		src := s0
		c0, c1 := r0.node, r1.node
		if !post.alive[src][c0] {
			continue // the old choice stopped being alive
		}
		if !pre.fresh[src][c0].measured {
			continue // the old choice had no measurement yet
		}
		if !post.fresh[src][c1].measured {
			j.res.Count("switch_to_unmeasured_node", 1)
			continue
		}
		l0, ok0 := j.recOf(post, src, c0)
		l1, ok1 := j.recOf(post, src, c1)
		if !ok0 || !ok1 {
			continue
		}
		tol := w.c.tol
		if l1 <= l0-tol || (l0 < tol && l1 <= l0) {
			continue
		}
		j.viol("tolerance", fmt.Sprintf("choice for %s changed %s (%v) -> %s (%v) under %s with tolerance %v: not better by the tolerance, old choice alive and measured",
			obsList[ob].name, nodeName(c0), l0, nodeName(c1), l1, post.pol, tol), post.latTable(j, src))
	}
}

func (s *snap) signature(tol time.Duration) string {
	var sb strings.Builder
	fmt.Fprintf(&sb, "%s|%v|", s.pol, tol)
	for t := 0; t < 6; t++ {
		for _, a := range s.alive[t] {
			if a {
				sb.WriteByte('1')
			} else {
				sb.WriteByte('0')
			}
		}
		sb.WriteByte('.')
	}
	for _, o := range s.sel {
		for _, r := range o.out {
			fmt.Fprintf(&sb, "%d%s,", r.node, r.err)
		}
		sb.WriteByte(';')
	}
	return sb.String()
}

func makeScenario(c *cfg) *dialerh.Scenario {
	c.build()
	sc := &dialerh.Scenario{Name: c.name, Events: c.evNames, Depth: c.depth}
	w8 := 1
	for i := 0; i < c.depth; i++ {
		w8 *= len(c.events)
	}
	sc.Weight = w8
	sc.Prepare = func(hist []int, verbose bool) (time.Duration, func(), func(int64) *dialerh.StepResult) {
		res := &dialerh.StepResult{}
		w := newWorld(c)
		j := &judge{w: w, res: res, sc: sc, hist: hist}
		var horizon time.Duration
		for _, ei := range hist {
			if e := c.events[ei]; e.kind == evOK {
				horizon += e.lat
			}
		}
		var pre *snap
		var last event
		body := func() {
			for k, ei := range hist {
				if k == len(hist)-1 {
					pre = w.snapshot(true)
					last = c.events[ei]
				}
				w.apply(c.events[ei])
			}
		}
		finish := func(now int64) *dialerh.StepResult {
			post := w.snapshot(false)
			j.judgeState(post)
			j.judgeCache(pre, post, last)
			if pre != nil {
				j.judgeStep(pre, post, last)
			}
			res.Key = w.dump(now)
			res.Obs = []string{c.name + "|" + post.signature(c.tol)}
			if verbose {
				fmt.Printf("    state: %s\n", res.Key)
				for _, o := range post.sel {
					fmt.Printf("    select(%s,strict=%v,excl=%s,glue=%q) = %v\n", o.name(), o.strict, nodeName(o.excl), o.glue, o.out)
				}
			}
			return res
		}
		return horizon, body, finish
	}
	return sc
}

func ms(xs ...int) []time.Duration {
	var out []time.Duration
	for _, x := range xs {
		out = append(out, time.Duration(x)*time.Millisecond)
	}
	return out
}

func scenarios(thorough bool) []*dialerh.Scenario {
	var out []*dialerh.Scenario
	add := func(fam string, n, offNode int, tol time.Duration, init pol, domains []dom, switches []pol, depth int) {
		c := &cfg{n: n, offNode: offNode, tol: tol, initPol: init, domains: domains, switches: switches, depth: depth}
		off := "off=none"
		if offNode >= 0 {
			off = fmt.Sprintf("off=%s+30ms", nodeName(offNode))
		}
		c.name = fmt.Sprintf("%s/n=%d/%s/tol=%v/init=%s", fam, n, off, tol, init)
		out = append(out, makeScenario(c))
	}
	pMin := pol{consts.DialerSelectionPolicy_MinLastLatency, 0}
	pAvg := pol{consts.DialerSelectionPolicy_MinAverage10Latencies, 0}
	pMov := pol{consts.DialerSelectionPolicy_MinMovingAverageLatencies, 0}
	pRnd := pol{consts.DialerSelectionPolicy_Random, 0}
	fixedLast := func(n int) pol { return pol{consts.DialerSelectionPolicy_Fixed, n - 1} }
	tols := []time.Duration{0, 50 * time.Millisecond}
	kill := []evKind{evFFail}
	F := famSizes(thorough)

	// family lat: ONE domain (tcp4), all four latencies, all failure kinds: latency/tolerance dynamics of every policy
	for _, n := range F.latN {
		for _, off := range []int{-1, 0} {
			for _, tol := range tols {
				if n == 1 && (off != -1 || tol == 0) {
					continue // a single node has no competitor: one offset/tolerance combination suffices
				}
				for _, init := range allPolicies(n) {
					if n >= 2 && init.isFixed() {
						continue // fixed is reached through the switch events
					}
					if n == 1 && !thorough && init != pMin && init != pRnd {
						continue
					}
					sw := []pol{pMin, pRnd, fixedLast(n)}
					if init == pMin {
						sw[0] = pAvg
					}
					if n == 1 {
						sw = allPolicies(1)
					}
					lats := ms(10, 40, 100, 160)
					d := F.latDepth[n]
					if thorough {
						// the deepest level only where tolerance and offsets interact; the rest one level less
						switch {
						case n == 1 && init != pMin && init != pRnd:
							d--
						case n == 2 && tol == 0:
							d--
						case n == 3 && tol == 0:
							d--
						}
					}
					add("lat", n, off, tol, init, []dom{{TCP4, lats, allFail}}, sw, d)
				}
			}
		}
	}
	// family chain: data-UDP -> DNS-UDP -> TCP fallback of one family (v4), kills/revivals on the three domains
	for _, n := range F.chainN {
		for _, init := range []pol{pMin, pMov, pRnd} {
			add("chain", n, 0, 50*time.Millisecond, init, []dom{
				{DAT4, nil, []evKind{evFFail, evTOK, evTFail}},
				{DNS4, ms(40, 100), []evKind{evFFail, evPFail}},
				{TCP4, ms(40, 100), kill},
			}, []pol{fixedLast(n)}, F.chainDepth[n])
		}
	}
	// family fam: other-IP-family fallback (all six domains can be killed; revival by probe on the v6 side)
	for _, n := range F.famN {
		for _, init := range []pol{pMin, pRnd} {
			d := F.famDepth[n]
			if init == pRnd && n >= 2 {
				d-- // random: every RNG outcome is executed per selection: one level less for the same cost
			}
			add("fam", n, -1, 0, init, []dom{
				{DAT4, nil, kill}, {DNS4, nil, kill}, {TCP4, nil, kill},
				{DAT6, nil, []evKind{evFFail, evTOK}}, {DNS6, ms(40), kill}, {TCP6, ms(40), kill},
			}, nil, d)
		}
	}
	// family tcp46: tcp4/tcp6 with latencies on both sides (strict vs non-strict)
	for _, n := range F.tcp46N {
		for _, init := range []pol{pMin, pAvg, pRnd} {
			add("tcp46", n, 0, 50*time.Millisecond, init, []dom{{TCP4, ms(40, 100), kill}, {TCP6, ms(10, 160), kill}}, []pol{pRnd, pMin}, F.tcp46Depth[n])
		}
	}
	// family swap: ONE domain, only death (forced) and revival (probe ok 40ms) per node: every order of removals and
	// re-insertions of the dense array / index map up to the bound
	for _, n := range F.swapN {
		for _, init := range []pol{pMin, pRnd} {
			add("swap", n, -1, 50*time.Millisecond, init, []dom{{TCP4, ms(40), kill}}, nil, F.swapDepth[n])
		}
	}
	return out
}

type sizes struct {
	latN, chainN, famN, tcp46N, swapN                     []int
	latDepth, chainDepth, famDepth, tcp46Depth, swapDepth map[int]int
}

func famSizes(thorough bool) sizes {
	if !thorough {
		return sizes{
			latN: []int{1, 2}, latDepth: map[int]int{1: 3, 2: 3},
			chainN: []int{1, 2}, chainDepth: map[int]int{1: 3, 2: 3},
			famN: []int{1, 2}, famDepth: map[int]int{1: 4, 2: 4},
			tcp46N: []int{2}, tcp46Depth: map[int]int{2: 3},
			swapN: []int{2}, swapDepth: map[int]int{2: 4},
		}
	}
	return sizes{
		latN: []int{1, 2, 3}, latDepth: map[int]int{1: 5, 2: 4, 3: 3},
		chainN: []int{2, 3}, chainDepth: map[int]int{2: 4, 3: 3},
		famN: []int{2, 3}, famDepth: map[int]int{2: 5, 3: 4},
		tcp46N: []int{2, 3}, tcp46Depth: map[int]int{2: 4, 3: 4},
		swapN: []int{3}, swapDepth: map[int]int{3: 6},
	}
}

func main() {
	dialerh.Main(&dialerh.Plan{
		ID: "C15",
		Rule: "states = distinct FULL dumps (every collection of every node: alive flag, counters, latency window, moving average; recovery back-off levels and pending timers as deadline-minus-now; every AliveDialerSet: aliveEntries order with cached latencies, dialerToIndex, dialerToLatency, cached best; current policy; process-wide failure tracker) reached by BFS over event histories on the real DialerGroup, one history = fresh objects + replay inside ONE vsched.Run on the virtual clock (a scripted probe takes its latency as virtual time inside the real Dialer.check()); transitions = (state,event) executions; in EVERY state all selections SelectWithExclusionResult(type in tcp4,data-udp4,data-udp6,dns-udp4 in the canonical spelling PLUS the alias spellings of the same health domains: udp4/udp6 with UdpHealthDomain unset (= data UDP), data-udp4 with the IsDns flag set, dns-udp4 without the IsDns flag, tcp4 with the IsDns flag (TCP-DNS) — an alias is judged exactly like the canonical spelling of the domain the NetworkType documentation assigns to it; strict in t,f; excluded in none,each node,a node that is NOT a member of the group) AND the same selections through the real control-plane glue ControlPlane.chooseProxyDialer (tcp/udp flows x v4/v6 x dial-by-IP/dial-by-domain x excluded in none,each node,a non-member node; real-mode build of package control) are evaluated — under the random policy once per vector of fastrand.Intn answers (exhaustive odometer) — and judged against the reference from the statement, consecutive states by the tolerance rule; alphabet per scenario family: lat (one domain, probe ok 10/40/100/160ms, probe/traffic/forced fail, traffic ok, policy switches), chain (data-UDP -> DNS-UDP -> TCP), fam (other IP family), tcp46; groups of 1..3 nodes, offset none / +30ms on node a, tolerance 0 / 50ms, every policy as the initial one; distinct_nontrivial = distinct (policy, tolerance, alive matrix, all selection outcomes) observations summed over scenarios",
		Scenarios:   scenarios,
		BudgetQuick: 75 * time.Second, BudgetThorough: 17 * time.Minute,
		Assumptions: []string{
			"'recorded alive' is the node's own flag Dialer.MustGetAlive(type); the agreement of every AliveDialerSet with it is checked in every state as a structural invariant",
			"a node's latency measurement is read from the node (last sample / mean of the window / moving average as the policy names it) plus its configured offset plus the documented recovery back-off penalty in force when the group recorded it; the group's cached value must equal that after every new sample and after every policy switch and must not be touched by events on other nodes",
			"the statement does not order the other IP family against the DNS-UDP/TCP fallbacks of data UDP: both interleavings are accepted; DNS-UDP before TCP and the requested type first are required",
			"which health domain a NetworkType value denotes is taken from the documentation of NetworkType, not from Index(): TCP -> tcp (IsDns irrelevant: TCP-DNS shares the TCP domain); UDP -> the UdpHealthDomain field decides, unset = data UDP, the IsDns flag does not decide for UDP; every spelling of a domain must be served like the canonical one (same alive set, same fallback chain)",
			"an excluded node that is not a member of the group excludes nothing: every alive node of the tried type stays a candidate",
			"fastrand (module cache, cannot be overlaid) is redirected in a build-time copy of the CURRENT alive_dialer_set.go to verifx/fastrandx whose Intn is scripted: every outcome vector is executed; outside selections the outcome is 0",
			"cachedTimeNano is kept equal to the virtual now by the harness before every event; package dialer's init goroutine (real 1s ticker) cannot be stopped: a history during which it wrote the variable is detected and replayed",
			"world construction and the read-only observation of the reached state run outside the scheduler (the shims are the real primitives there); every event, i.e. everything that reads the clock, runs inside the single vsched.Run of its history",
		},
		SilentCounters: map[string]string{
			"choice_unmeasured_while_measured_alive": "the returned node has no latency measurement while a measured alive node exists (optimistic start-up semantics: unmeasured counts as 0): the statement only compares measured nodes",
			"switch_to_unmeasured_node":              "the choice moved from a measured alive node to a node without measurement (after the old choice got worse): the statement names no latency for unmeasured nodes",
			"choice_changed_by_policy_switch":        "the choice changed across SetSelectionPolicy: the new policy re-selects from scratch, the tolerance rule is not applied across the switch",
			"choice_changed_with_fallback_type":      "the choice changed together with the type that admitted it (fallback chain moved): tolerance rule not applicable",
			"single_node_last_resort":                "a group's only node was handed out although not alive for any tried type",
		},
	})
}
