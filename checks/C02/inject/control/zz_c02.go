//go:build verif

// C02 harness inside package control: compile a routing section with a caller-chosen outbound id table, and
// produce the domain_routing_map content the control plane would write for one resolved name, through the
// production snapshot/tracker code.
package control

import (
	"bytes"
	"fmt"
	"net"
	"net/netip"
	"sort"
	"sync"
	"unsafe"

	"github.com/daeuniverse/dae/common/consts"
	"github.com/daeuniverse/dae/component/routing"
	"github.com/daeuniverse/dae/config"
	"github.com/daeuniverse/dae/pkg/config_parser"
	dnsmessage "github.com/miekg/dns"
)

// VerifC02Compile is VerifCompileRoutingSections with the group ids given explicitly (ids[i] for groups[i]) so that
// outbound ids anywhere in the user-defined range occur. direct/block keep their reserved ids.
//
// snapshotAfterUserspace selects WHEN the kernel-side material is taken:
//   false: before BuildUserspace — the cold-start order of NewControlPlane (BuildKernspace runs first);
//   true : the staged-reload / rollback order (delayDatapathCommit -> CommitPreparedDatapath, RebuildReloadDatapath):
//          builder.KernspaceSnapshot() is taken first, BuildUserspace() runs, and only then the snapshot's rules and
//          prefix sets are read — exactly what routingKernspaceSnapshot.BuildKernspace hands to buildRoutingKernspace.
func VerifC02Compile(sections []*config_parser.Section, groups []string, ids []uint8, optimizers []routing.RulesOptimizer, snapshotAfterUserspace bool) (*VerifRouting, error) {
	conf, err := config.New(sections)
	if err != nil {
		return nil, fmt.Errorf("config.New: %w", err)
	}
	name2id := map[string]uint8{
		consts.OutboundDirect.String(): uint8(consts.OutboundDirect),
		consts.OutboundBlock.String():  uint8(consts.OutboundBlock),
	}
	for i, g := range groups {
		if ids[i] < uint8(consts.OutboundUserDefinedMin) || ids[i] > uint8(consts.OutboundUserDefinedMax) {
			return nil, fmt.Errorf("harness: group id %d outside the user-defined range", ids[i])
		}
		name2id[g] = ids[i]
	}
	v := &VerifRouting{Name2Id: name2id, Fallback: conf.Routing.Fallback}
	log := VerifQuietLogger()
	program, err := routing.NewNormalizedProgram(conf.Routing.Rules, conf.Routing.Fallback, optimizers...)
	if err != nil {
		return nil, fmt.Errorf("normalize: %w", err)
	}
	v.OptRules = program.Rules
	b, err := NewRoutingMatcherBuilderFromProgram(log, program, name2id, nil)
	if err != nil {
		return nil, fmt.Errorf("builder: %w", err)
	}
	v.Builder = b
	snap := b.KernspaceSnapshot() // control_plane.go: taken before BuildUserspace in every order
	if !snapshotAfterUserspace {
		// BuildKernspace before BuildUserspace: what buildRoutingKernspace reads at that moment
		v.kernRules = append([]bpfMatchSet(nil), snap.rules...)
		v.lpmSets = make([][]netip.Prefix, len(snap.simulatedLpmTries))
		for i, set := range snap.simulatedLpmTries {
			v.lpmSets[i] = append([]netip.Prefix(nil), set...)
		}
	}
	m, err := b.BuildUserspace()
	if err != nil {
		return nil, fmt.Errorf("userspace: %w", err)
	}
	if snapshotAfterUserspace {
		// snapshot.BuildKernspace after BuildUserspace: what buildRoutingKernspace reads from the snapshot now
		v.kernRules = append([]bpfMatchSet(nil), snap.rules...)
		v.lpmSets = make([][]netip.Prefix, len(snap.simulatedLpmTries))
		for i, set := range snap.simulatedLpmTries {
			v.lpmSets[i] = append([]netip.Prefix(nil), set...)
		}
	}
	v.Matcher = m
	v.CP = &ControlPlane{log: log}
	v.CP.routingMatcher = m
	return v, nil
}

// VerifC02LpmSlot is the lpm_array_map slot buildRoutingKernspace stores the trie of set idx at for a load whose
// reservation returned allocStartIdx (the expression of lpmMapResult.lpmIndex, routing_matcher_builder.go).
func VerifC02LpmSlot(allocStartIdx uint32, idx int) uint32 {
	return (allocStartIdx + uint32(idx)) % uint32(consts.MaxMatchSetLen)
}

type VerifC02DomainEntry struct{ Key, Value []byte }

// VerifC02DomainTable: the content of domain_routing_map after the control plane has cached one DNS answer with
// the given addresses for a name whose rule bitmap is `bitmap`: production buildDomainRoutingOwnerSnapshot +
// domainRoutingTracker.syncOwner (map handle nil: the tracker's merged state is what it writes), entries sorted by key.
func VerifC02DomainTable(addrs []netip.Addr, bitmap []uint32) ([]VerifC02DomainEntry, error) {
	cache := &DnsCache{DomainBitmap: bitmap, RouteOwnerKey: "c02"}
	for _, a := range addrs {
		if a.Is4() {
			cache.Answer = append(cache.Answer, &dnsmessage.A{Hdr: dnsmessage.RR_Header{Name: "x.", Rrtype: dnsmessage.TypeA, Class: dnsmessage.ClassINET, Ttl: 60}, A: net.IP(a.AsSlice())})
		} else {
			cache.Answer = append(cache.Answer, &dnsmessage.AAAA{Hdr: dnsmessage.RR_Header{Name: "x.", Rrtype: dnsmessage.TypeAAAA, Class: dnsmessage.ClassINET, Ttl: 60}, AAAA: net.IP(a.AsSlice())})
		}
	}
	snap, err := buildDomainRoutingOwnerSnapshot(cache)
	if err != nil {
		return nil, err
	}
	t := newDomainRoutingTracker()
	if err := t.syncOwner(nil, cache.RouteOwnerKey, snap); err != nil {
		return nil, err
	}
	out := make([]VerifC02DomainEntry, 0, len(t.ips))
	for k, st := range t.ips {
		k, m := k, st.merged
		out = append(out, VerifC02DomainEntry{
			Key:   append([]byte(nil), unsafe.Slice((*byte)(unsafe.Pointer(&k)), unsafe.Sizeof(k))...),
			Value: append([]byte(nil), unsafe.Slice((*byte)(unsafe.Pointer(&m)), unsafe.Sizeof(m))...),
		})
	}
	sort.Slice(out, func(i, j int) bool { return bytes.Compare(out[i].Key, out[j].Key) < 0 })
	return out, nil
}

// ---------------------------------------------------------------------------------------------------
// histories of DNS answers through the real domainRoutingTracker

var verifC02ObserverMu sync.Mutex

// VerifC02DomainHistory drives one real domainRoutingTracker the way controlPlaneCore.BatchUpdateDomainRouting /
// BatchRemoveDomainRouting do (buildDomainRoutingOwnerSnapshot + syncOwner) and replays exactly the batches syncOwner
// sends to domain_routing_map — seen through the repository's own hook VerifDomainRoutingBatchObserver — into a
// simulated kernel map.
type VerifC02DomainHistory struct {
	t   *domainRoutingTracker
	sim map[[4]uint32]bpfDomainRouting
}

func VerifC02NewDomainHistory() *VerifC02DomainHistory {
	return &VerifC02DomainHistory{t: newDomainRoutingTracker(), sim: map[[4]uint32]bpfDomainRouting{}}
}

func (h *VerifC02DomainHistory) sync(owner string, snap domainRoutingOwnerSnapshot) error {
	verifC02ObserverMu.Lock()
	defer verifC02ObserverMu.Unlock()
	prev := VerifDomainRoutingBatchObserver
	defer func() { VerifDomainRoutingBatchObserver = prev }()
	VerifDomainRoutingBatchObserver = func(update [][4]uint32, values []bpfDomainRouting, del [][4]uint32) {
		// the order of syncOwner's two map calls: batch update, then batch delete
		for i, k := range update {
			h.sim[k] = values[i]
		}
		for _, k := range del {
			delete(h.sim, k)
		}
	}
	return h.t.syncOwner(nil, owner, snap)
}

// Answer: the DNS cache entry of `owner` (a name) now answers with addrs and carries `bitmap`
// (= BatchUpdateDomainRouting on CacheAccessCallback).
func (h *VerifC02DomainHistory) Answer(owner string, addrs []netip.Addr, bitmap []uint32) error {
	cache := &DnsCache{DomainBitmap: bitmap, RouteOwnerKey: owner}
	for _, a := range addrs {
		if a.Is4() {
			cache.Answer = append(cache.Answer, &dnsmessage.A{Hdr: dnsmessage.RR_Header{Name: "x.", Rrtype: dnsmessage.TypeA, Class: dnsmessage.ClassINET, Ttl: 60}, A: net.IP(a.AsSlice())})
		} else {
			cache.Answer = append(cache.Answer, &dnsmessage.AAAA{Hdr: dnsmessage.RR_Header{Name: "x.", Rrtype: dnsmessage.TypeAAAA, Class: dnsmessage.ClassINET, Ttl: 60}, AAAA: net.IP(a.AsSlice())})
		}
	}
	snap, err := buildDomainRoutingOwnerSnapshot(cache)
	if err != nil {
		return err
	}
	return h.sync(owner, snap)
}

// Remove: the cache entry of `owner` is evicted (= BatchRemoveDomainRouting on CacheDeleteCallback).
func (h *VerifC02DomainHistory) Remove(owner string) error {
	return h.sync(owner, domainRoutingOwnerSnapshot{})
}

// Entries: the simulated domain_routing_map, sorted by key.
func (h *VerifC02DomainHistory) Entries() []VerifC02DomainEntry {
	out := make([]VerifC02DomainEntry, 0, len(h.sim))
	for k, v := range h.sim {
		k, v := k, v
		out = append(out, VerifC02DomainEntry{
			Key:   append([]byte(nil), unsafe.Slice((*byte)(unsafe.Pointer(&k)), unsafe.Sizeof(k))...),
			Value: append([]byte(nil), unsafe.Slice((*byte)(unsafe.Pointer(&v)), unsafe.Sizeof(v))...),
		})
	}
	sort.Slice(out, func(i, j int) bool { return bytes.Compare(out[i].Key, out[j].Key) < 0 })
	return out
}
