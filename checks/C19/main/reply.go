package main

// Leg "reply": the flow-tuple key in the REPLY direction. The WAN-ingress and LAN-egress programs address the flow's
// conn_state_map entry with the reversed tuple (copy_reversed_tuples); the control plane addresses the same entry
// with bpfTuplesKeyFromAddrPorts(dst, src, proto) of the frame it would see. All 40 bytes must agree, padding included.
//   (a) a first frame s->d seen by a reply-direction hook creates the entry: its key must be the Go key of (d, s)
//   (b) a flow created in the forward direction (LAN ingress, s->d) and then answered (d->s, TCP SYN+ACK / UDP) through a
//       reply-direction hook must be FOUND: still exactly one entry under the Go key of (s, d), refreshed to the new time
// engine K fills uninitialised stack of the kernel program with 0xAA/0xA5, so padding that is not explicitly zeroed
// is visible.

import (
	"bytes"
	"encoding/hex"
	"fmt"
	"net/netip"

	"github.com/daeuniverse/dae/common/consts"
	"github.com/daeuniverse/dae/control"
	"github.com/daeuniverse/dae/verifx/vkern"
)

func (c *checker) legReply(k *vkern.K) {
	c.must(k.Reset())
	pb := c.goParamBytes(map[string]any{"dae0ifindex": uint32(daeIfindex), "dae0peermac": peerMAC, "controlplanepid": uint32(4242), "daenetnsid": uint32(9)})
	c.must(k.SetParam(pb))
	c.loadRules(k, rule(0, consts.MatchType_Fallback, 2, 0))
	c.allAlive(k)
	const t0, t1 = uint64(5_000_000_000), uint64(8_000_000_000)
	c.must(k.SetTime(t0, 0))
	base, err := k.Snapshot()
	c.must(err)
	nviol := 0
	report := func(sig string, d any) {
		if nviol < 8 {
			c.viol("reply", sig, d)
		}
		nviol++
	}
	type pair struct{ s, d string }
	pairs := []pair{{"192.168.1.2", "10.1.2.3"}, {"1.2.3.4", "255.255.255.255"}, {"2001:db8::1", "2001:db8:ffff::2"}, {"fd00::1", "ffff:ffff:ffff:ffff:ffff:ffff:ffff:ffff"}}
	ports := []uint16{1, 0xff00, 65535, 4000}
	hooks := []struct {
		name string
		l2   bool
	}{{"tproxy_wan_ingress_l2", true}, {"tproxy_wan_ingress_l3", false}, {"tproxy_lan_egress_l2", true}, {"tproxy_lan_egress_l3", false}}
	pulls := []uint32{vkern.PullKernel, vkern.PullLenient}
	for _, proto := range []uint8{tcp, udp} {
		for _, pr := range pairs {
			for _, sp := range ports {
				for _, dp := range ports {
					s, d := ap(pr.s, sp), ap(pr.d, dp)
					fwd := control.VerifC19TuplesKey(s, d, proto)
					rev := control.VerifC19TuplesKey(d, s, proto)
					for _, h := range hooks {
						for _, pull := range pulls {
							id := fmt.Sprintf("%s proto=%d %v->%v pull=%d", h.name, proto, s, d, pull)
							// (a) first frame of a flow seen in the reply direction: s -> d on the wire, entry keyed (d, s)
							c.must(k.Restore(base))
							c.must(k.SetKnobs(vkern.Knobs{PullMode: pull, CurNetns: 9}))
							fr, et := frame(h.l2, s, d, proto, 0)
							v, err := k.Inject(h.name, &vkern.Skb{Ifindex: 3, IngressIfindex: 3, Protocol: et, Linear: ^uint32(0), Frame: fr})
							c.must(err)
							cs, err := k.MapDump("conn_state_map", false)
							c.must(err)
							c.item("reply:create:"+id, hex.EncodeToString(rev))
							if v.Ret != vkern.TC_ACT_PIPE || len(cs) != 1 || !bytes.Equal(cs[0].Key, rev) {
								report(fmt.Sprintf("reply: %s (verdict %d) stored conn_state_map keys %s for a frame %v -> %v proto %d; the control plane addresses that flow as bpfTuplesKeyFromAddrPorts(%v, %v) = %s",
									h.name, v.Ret, dumpKeys(cs), s, d, proto, d, s, hex.EncodeToString(rev)), map[string]any{"frame": hex.EncodeToString(fr)})
								continue
							}
							if dec, ok := control.VerifC19DecodeConnState(cs[0].Value); !ok || !dec.IsWanIngress || dec.HasRouting != 0 || dec.LastSeenNs != t0 {
								report(fmt.Sprintf("reply: conn_state_map value written by %s decodes through bpfConnState to %+v (ok=%v); expected a wan-ingress-direction entry without routing, last seen %d", h.name, dec, ok, t0), nil)
								continue
							}
							// (b) forward flow s -> d created at LAN ingress, then the answer d -> s through the reply hook
							c.must(k.Restore(base))
							c.must(k.SetKnobs(vkern.Knobs{PullMode: pull, CurNetns: 9}))
							ff, fet := frame(true, s, d, proto, 0)
							_, err = k.Inject("tproxy_lan_ingress_l2", &vkern.Skb{Ifindex: 3, IngressIfindex: 3, Protocol: fet, Linear: ^uint32(0), Frame: ff})
							c.must(err)
							c.must(k.SetTime(t1, 0))
							rf, ret := frameFlags(h.l2, d, s, proto, 0, 0x12) // TCP: SYN+ACK
							_, err = k.Inject(h.name, &vkern.Skb{Ifindex: 4, IngressIfindex: 4, Protocol: ret, Linear: ^uint32(0), Frame: rf})
							c.must(err)
							cs, err = k.MapDump("conn_state_map", false)
							c.must(err)
							c.item("reply:refresh:"+id, hex.EncodeToString(fwd))
							if len(cs) != 1 || !bytes.Equal(cs[0].Key, fwd) {
								report(fmt.Sprintf("reply: after a forward frame %v -> %v (proto %d, LAN ingress) and its answer through %s, conn_state_map holds keys %s; the flow has the single key %s",
									s, d, proto, h.name, dumpKeys(cs), hex.EncodeToString(fwd)), map[string]any{"answer_frame": hex.EncodeToString(rf)})
								continue
							}
							if dec, ok := control.VerifC19DecodeConnState(cs[0].Value); !ok || dec.LastSeenNs != t1 || dec.HasRouting != 1 || dec.Outbound != 2 {
								report(fmt.Sprintf("reply: the answer of flow %v -> %v (proto %d) through %s did not find the flow's entry under key %s: last seen stays %d (answer at %d), decoded %+v",
									s, d, proto, h.name, hex.EncodeToString(fwd), dec.LastSeenNs, t1, dec), nil)
							}
						}
					}
				}
			}
		}
	}
	c.r.Set("reply_violations_total", nviol)
	_ = netip.Addr{}
}
