//go:build verif

package control

// VerifC20RetiringPlane returns a control plane that stands for "the previous generation" in the C20 harness: a zero
// ControlPlane on which the REAL reloadManager.startControlPlaneRetirement goroutine runs (MarkRetired,
// retireControlPlaneConnections, oldCancel, Close, RunReloadRetirementCleanup, close(done)) without kernel objects.
// onClose is planted in the unexported cancel field, which the real Close() calls first, synchronously, in the calling
// goroutine: it is the observation point "the old generation is being closed" and the place where the harness lets
// the scheduler decide how long the teardown of the old generation lasts. The rest of the real Close (janitor stops,
// close tail) runs for real on the zero plane.
// withImmortalSession: the old generation still serves one session that never ends by itself (ssh, websocket, long
// download): ActiveSessionCount() stays 1 and DrainIdleCh() stays open, so a graceful drain can only end through its
// timeout or through cancellation.
func VerifC20RetiringPlane(onClose func(), withImmortalSession bool) *ControlPlane {
	c := &ControlPlane{cancel: onClose}
	if withImmortalSession {
		c.drainTracker = newControlPlaneDrainTracker()
		_ = c.drainTracker.Acquire() // never released
	}
	return c
}
