package main

// Reference cache of C08, written from the property statement only:
//
//	a map keyed by (lower-cased fqdn, type, upstream scope) holding, per key, the answer last obtained for it,
//	when it was obtained and for how long it lives (its TTL, or the configured fixed TTL for that name).
//
// It never looks at the implementation's deadlines, packed responses or flags; it is fed with what a client /
// the scripted upstream / an operator can see: replies, upstream exchanges, and the set of keys the cache holds.

import (
	"fmt"
	"net/netip"
	"sort"
	"strings"

	"github.com/daeuniverse/dae/control"
)

const (
	sec = int64(1_000_000_000)
	// Documented approximation slack of the TTL shown to clients: control/dns_cache.go:17-22 ("Pre-packed response
	// is refreshed when TTL difference exceeds this value … 15s variance is negligible for DNS caching",
	// ttlRefreshThresholdSeconds = 15) and control/dns_control.go:1453-1454 ("TTL is refreshed when difference
	// exceeds ttlRefreshThresholdSeconds (15 seconds by default)"); TTL fields are whole seconds, and both
	// ttlFromDeadline and GetPackedResponseWithApproximateTTL round a sub-second remainder up to 1 => +1 s rounding.
	slackNs = 15*sec + 1*sec
)

type rkey struct {
	Name  string // lower-cased fqdn
	Qtype uint16
	Scope string // "u1", "u2", "asis"
}

func (k rkey) String() string { return fmt.Sprintf("%s|%s|%s", k.Name, qtName(k.Qtype), k.Scope) }

type rentry struct {
	Gen        int
	InsertedAt int64
	Ttl        uint32
	D          int64 // end of life: InsertedAt + ttl (or fixed ttl of the name)
	LastUse    int64
}

type Ref struct {
	cfg     Cfg
	ent     map[rkey]*rentry
	applied map[int]bool // index into the exchange log
	// stale window: the statement says "the configured stale window". optimistic_cache_ttl > 0 is that window.
	// optimistic_cache_ttl = 0 is documented (example.dae) as "never expire (rely on LRU eviction when cache is full)";
	// with max_cache_size = 0 as well the code falls back to 60 s. The reference REQUIRES stale service only inside
	// the smaller reading and FORBIDS it only outside the larger one.
	wMust int64 // ns; <0 = unbounded
	wMay  int64
	stats map[string]int64
}

func newRef(cfg Cfg) *Ref {
	r := &Ref{cfg: cfg, ent: map[rkey]*rentry{}, applied: map[int]bool{}, stats: map[string]int64{}}
	switch {
	case cfg.Ttl > 0:
		r.wMust, r.wMay = int64(cfg.Ttl)*sec, int64(cfg.Ttl)*sec
	case cfg.Max > 0:
		r.wMust, r.wMay = -1, -1
	default:
		r.wMust, r.wMay = 60*sec, -1
	}
	return r
}

func (r *Ref) lifetime(name string, ttl uint32) int64 {
	if r.cfg.Fixed {
		// fixed_domain_ttl { a: 5 } — names compare case-insensitively, the trailing dot is presentation only
		if strings.TrimSuffix(strings.ToLower(name), ".") == fixedName {
			return int64(fixedTtl) * sec
		}
	}
	return int64(ttl) * sec
}

type viol struct {
	Class string
	Msg   string
}

// applyExchanges feeds every completed upstream exchange with DoneNs <= upto into the reference (an answer was
// obtained for that name/type/scope at that instant).
func (r *Ref) applyExchanges(all []control.VerifExchange, upto int64) {
	type ev struct {
		i int
		x control.VerifExchange
	}
	var evs []ev
	for i, x := range all {
		if r.applied[i] || x.DoneNs == 0 || x.DoneNs > upto {
			continue
		}
		evs = append(evs, ev{i, x})
	}
	sort.SliceStable(evs, func(a, b int) bool { return evs[a].x.DoneNs < evs[b].x.DoneNs })
	for _, e := range evs {
		r.applied[e.i] = true
		if e.x.Failed || len(e.x.Addrs) == 0 {
			continue
		}
		k, gen, ok := decodeAddr(e.x.Addrs[0])
		if !ok {
			continue
		}
		r.ent[k] = &rentry{Gen: gen, InsertedAt: e.x.DoneNs, Ttl: e.x.Ttl, D: e.x.DoneNs + r.lifetime(k.Name, e.x.Ttl), LastUse: e.x.DoneNs}
		r.stats["inserts"]++
	}
}

type askObs struct {
	Key    rkey // question as the reference sees it
	T0, T1 int64
	Rep    control.VerifReply
	Thread int
}

func fmtDur(ns int64) string {
	neg := ""
	if ns < 0 {
		neg, ns = "-", -ns
	}
	s, rem := ns/sec, ns%sec
	switch {
	case rem == 0:
		return fmt.Sprintf("%s%ds", neg, s)
	case rem%1_000_000 == 0:
		return fmt.Sprintf("%s%d.%03ds", neg, s, rem/1_000_000)
	default:
		return fmt.Sprintf("%s%d.%09ds", neg, s, rem)
	}
}

// judgeAsk decides one client question. all = exchange log after the question (and after background workers settled).
func (r *Ref) judgeAsk(o askObs, all []control.VerifExchange, refreshInFlight map[string]int) (vs []viol, class string) {
	add := func(c, f string, a ...any) { vs = append(vs, viol{c, fmt.Sprintf(f, a...)}) }
	r.applyExchanges(all, o.T0)
	e := r.ent[o.Key]
	var eCopy rentry
	if e != nil {
		eCopy = *e
	}
	mustStale := r.cfg.Opt && e != nil && o.T0 > e.D && (r.wMust < 0 || o.T0 < e.D+r.wMust)
	mayFresh := e != nil && o.T0 < e.D
	mayStale := r.cfg.Opt && e != nil && o.T0 >= e.D && (r.wMay < 0 || o.T0 <= e.D+r.wMay)

	// exchanges this very question caused in its own thread
	var own []control.VerifExchange
	for _, x := range o.Rep.Sync {
		if !x.Background && x.Thread == o.Thread {
			own = append(own, x)
		}
	}
	r.applyExchanges(all, o.T1)

	if o.Rep.Panic != "" {
		add("panic", "panic while answering: %s", o.Rep.Panic)
		return vs, "panic"
	}
	if o.Rep.Err != "" || o.Rep.Replies != 1 || o.Rep.Rcode != 0 {
		add("noreply", "client question got err=%q replies=%d rcode=%d", o.Rep.Err, o.Rep.Replies, o.Rep.Rcode)
		return vs, "noreply"
	}
	if len(o.Rep.Addrs) == 0 {
		add("noreply", "client question answered with an empty answer section although the upstream always answers")
		return vs, "empty"
	}
	if o.Rep.QType != o.Key.Qtype {
		add("wrong-type", "question %s was answered with a reply whose question section has type %s", o.Key, qtName(o.Rep.QType))
	}
	for _, t := range o.Rep.RRTypes {
		if t != o.Key.Qtype {
			add("wrong-type", "question %s was answered with a record of type %s", o.Key, qtName(t))
			break
		}
	}
	if len(o.Rep.Addrs) != len(o.Rep.RRTypes) {
		add("garbled", "reply to %s carries %d answer records of which only %d are identifiable upstream records", o.Key, len(o.Rep.RRTypes), len(o.Rep.Addrs))
	}
	vk, vgen, ok := decodeAddr(o.Rep.Addrs[0])
	for _, a := range o.Rep.Addrs[1:] {
		k2, g2, ok2 := decodeAddr(a)
		if !ok2 || k2 != vk || g2 != vgen {
			ok = false
		}
	}
	if !ok {
		add("garbled", "reply carries addresses %v that no single upstream answer contained", o.Rep.Addrs)
		return vs, "garbled"
	}
	fromUpstream := false
	for _, x := range own {
		if len(x.Addrs) > 0 && x.DoneNs != 0 {
			if k2, g2, ok2 := decodeAddr(x.Addrs[0]); ok2 && k2 == vk && g2 == vgen {
				fromUpstream = true
			}
		}
	}
	age := func() string {
		if e == nil {
			return "no such entry"
		}
		return fmt.Sprintf("obtained %s ago, lifetime %s, expired %s ago", fmtDur(o.T0-eCopy.InsertedAt), fmtDur(eCopy.D-eCopy.InsertedAt), fmtDur(o.T0-eCopy.D))
	}
	if mustStale {
		switch {
		case fromUpstream || vk != o.Key || vgen != eCopy.Gen:
			add("stale-not-served", "optimistic cache on, the answer for %s expired %s ago (stale window %s) but the client was not given the expired answer: it got %s gen %d%s", o.Key, fmtDur(o.T0-eCopy.D), r.winStr(), vk, vgen, map[bool]string{true: " fetched from the upstream while the client waited " + fmtDur(o.Rep.ReplyAtNs-o.T0), false: ""}[fromUpstream])
		case o.Rep.ReplyAtNs != o.T0 || len(own) != 0:
			add("stale-not-at-once", "stale answer for %s was served after %s / after %d upstream exchange(s) of the asking thread, not at once", o.Key, fmtDur(o.Rep.ReplyAtNs-o.T0), len(own))
		default:
			class = "stale-served"
			fk := upstreamOf(o.Key.Scope) + "|" + o.Key.Name + "|" + fmt.Sprint(o.Key.Qtype)
			if refreshInFlight[fk] != 1 {
				add("refresh-count", "stale answer for %s served while %d refreshes of it are in flight (expected exactly one)", o.Key, refreshInFlight[fk])
			}
		}
	}
	if fromUpstream {
		if class == "" {
			class = "miss"
			if mayFresh {
				class = "miss-although-fresh"
			}
		}
		// the question must have gone to the upstream of its scope, with its own name and type
		for _, x := range own {
			if x.Upstream != upstreamOf(o.Key.Scope) || strings.ToLower(x.Name) != o.Key.Name || x.Qtype != o.Key.Qtype {
				add("wrong-upstream", "question %s was forwarded as (%s %s %d)", o.Key, x.Upstream, x.Name, x.Qtype)
			}
		}
		if ne := r.ent[o.Key]; ne != nil && ne.Gen == vgen {
			for _, t := range o.Rep.Ttls {
				if int64(t)*sec > (ne.D-o.Rep.ReplyAtNs)+slackNs {
					add("ttl-overstated", "fresh upstream answer for %s shown with TTL %d but its lifetime is %s (slack 15s+1s)", o.Key, t, fmtDur(ne.D-o.Rep.ReplyAtNs))
					break
				}
			}
		}
		return vs, class
	}
	// served from the cache
	switch {
	case vk != o.Key:
		add("wrong-key", "question %s was answered from the cache with the answer obtained for %s (gen %d)", o.Key, vk, vgen)
		return vs, "wrong-key"
	case e == nil || vgen != eCopy.Gen:
		add("not-live", "question %s was answered from the cache with gen %d which is not the live answer of the reference (%s)", o.Key, vgen, age())
		return vs, "not-live"
	case !(mayFresh || mayStale):
		if r.cfg.Opt {
			add("served-after-window", "question %s answered from the cache beyond the stale window %s: %s", o.Key, r.winStr(), age())
		} else {
			add("served-expired", "question %s answered from the cache after its TTL ran out (optimistic cache off): %s", o.Key, age())
		}
		return vs, "expired-served"
	}
	e.LastUse = o.T0
	if mayFresh {
		if class == "" {
			class = "hit-fresh"
		}
		for _, t := range o.Rep.Ttls {
			if int64(t)*sec > (eCopy.D-o.T0)+slackNs {
				add("ttl-overstated", "cached answer for %s shown with TTL %d but only %s of its lifetime remain (documented slack 15s + 1s rounding)", o.Key, t, fmtDur(eCopy.D-o.T0))
				break
			}
		}
		r.stats["ttl_checks"]++
	} else if class == "" {
		class = "hit-stale-boundary"
	}
	return vs, class
}

func (r *Ref) winStr() string {
	if r.wMust < 0 {
		return "unbounded"
	}
	if r.wMay < 0 {
		return fmtDur(r.wMust) + " (optimistic_cache_ttl=0 with no size limit: code default)"
	}
	return fmtDur(r.wMust)
}

func (r *Ref) reject(name string, qtype uint16) {
	for k := range r.ent {
		if k.Name == strings.ToLower(name) && k.Qtype == qtype {
			delete(r.ent, k)
		}
	}
}

// reconcile compares the keys the cache holds after an operation with the reference and classifies every
// disappearance: time (end of service), size limit (must respect recency), or unexplained (no clause of the
// statement forbids dropping early, but the reference keeps the entry so that a later question inside the stale
// window is still required to be served).
func (r *Ref) reconcile(now int64, implKeys []string, janitorRan bool) (vs []viol, class string) {
	add := func(c, f string, a ...any) { vs = append(vs, viol{c, fmt.Sprintf(f, a...)}) }
	present := map[rkey]bool{}
	unparsed := 0
	for _, ks := range implKeys {
		if k, ok := parseImplKey(ks); ok {
			present[k] = true
		} else {
			unparsed++
		}
	}
	var keys []rkey
	for k := range r.ent {
		keys = append(keys, k)
	}
	sort.Slice(keys, func(i, j int) bool { return keys[i].String() < keys[j].String() })
	var sizeEvicted, survivors []rkey
	for _, k := range keys {
		e := r.ent[k]
		if present[k] {
			survivors = append(survivors, k)
			continue
		}
		timeLegit := (!r.cfg.Opt && now >= e.D) || (r.cfg.Opt && r.wMust >= 0 && now >= e.D+r.wMust)
		switch {
		case timeLegit:
			delete(r.ent, k)
			r.stats["evicted_time"]++
			class = "evict-time"
		case r.cfg.Max > 0:
			sizeEvicted = append(sizeEvicted, k)
		default:
			r.stats["dropped_unexplained"]++
		}
	}
	if len(sizeEvicted) > 0 {
		if len(survivors)+len(sizeEvicted) > r.cfg.Max {
			class = "evict-lru"
			r.stats["evicted_size"] += int64(len(sizeEvicted))
		outer:
			for _, ek := range sizeEvicted {
				for _, sk := range survivors {
					if r.ent[ek].LastUse > r.ent[sk].LastUse {
						add("lru", "size limit %d: %s (last used %s ago) was evicted while %s (last used %s ago, less recently) was kept", r.cfg.Max, ek, fmtDur(now-r.ent[ek].LastUse), sk, fmtDur(now-r.ent[sk].LastUse))
						break outer
					}
				}
			}
			for _, ek := range sizeEvicted {
				delete(r.ent, ek)
			}
		} else {
			r.stats["dropped_unexplained"] += int64(len(sizeEvicted))
		}
	}
	if janitorRan && r.cfg.Max > 0 && len(implKeys) > r.cfg.Max {
		add("size-limit", "after a janitor run the cache holds %d entries, max_cache_size is %d", len(implKeys), r.cfg.Max)
	}
	if unparsed > 0 {
		r.stats["keys_unparsed"] += int64(unparsed)
	}
	return vs, class
}

func (r *Ref) dump(now int64) string {
	var keys []rkey
	for k := range r.ent {
		keys = append(keys, k)
	}
	sort.Slice(keys, func(i, j int) bool { return keys[i].String() < keys[j].String() })
	var sb strings.Builder
	for _, k := range keys {
		e := r.ent[k]
		fmt.Fprintf(&sb, "%s g%d i%d d%d u%d;", k, e.Gen, e.InsertedAt-now, e.D-now, e.LastUse-now)
	}
	return sb.String()
}

// ---- naming of answers: every upstream answer is unique and names the (key, generation) it belongs to ----------

var (
	names  = []string{"a.", "b."}
	qtypes = []uint16{1, 28, 6, 16, 64, 65, 257} // A, AAAA, SOA, TXT, SVCB, HTTPS, CAA (a two-byte type whose low byte is A)
	scopes = []string{"u1", "u2", "asis"}
)

const asisServer = "198.51.100.1:53"

func upstreamOf(scope string) string {
	switch scope {
	case "u1":
		return control.VerifUpstream1
	case "u2":
		return control.VerifUpstream2
	default:
		return "udp://" + asisServer
	}
}

func scopeOfUpstream(up string) (string, bool) {
	switch up {
	case control.VerifUpstream1:
		return "u1", true
	case control.VerifUpstream2:
		return "u2", true
	case "udp://" + asisServer:
		return "asis", true
	}
	return "", false
}

func keyIndex(k rkey) int {
	n, t, s := -1, -1, -1
	for i, v := range names {
		if v == k.Name {
			n = i
		}
	}
	for i, v := range qtypes {
		if v == k.Qtype {
			t = i
		}
	}
	for i, v := range scopes {
		if v == k.Scope {
			s = i
		}
	}
	if n < 0 || t < 0 || s < 0 {
		return -1
	}
	return n*len(qtypes)*3 + t*3 + s
}

func keyOfIndex(i int) rkey {
	return rkey{names[i/(len(qtypes)*3)], qtypes[(i/3)%len(qtypes)], scopes[i%3]}
}

func nKeys() int { return len(names) * len(qtypes) * 3 }

func encodeAddr(k rkey, gen int) netip.Addr {
	i := keyIndex(k)
	if k.Qtype == 28 {
		return netip.AddrFrom16([16]byte{0xfd, 0, 0, 0, 0, 0, 0, 0, 0, 0, 0, 0, 0, byte(i + 1), 0, byte(gen + 1)})
	}
	return netip.AddrFrom4([4]byte{10, byte(i + 1), byte(gen + 1), 1})
}

func decodeAddr(a netip.Addr) (rkey, int, bool) {
	if a.Is4() {
		b := a.As4()
		if b[0] != 10 || b[3] != 1 || b[1] == 0 || int(b[1]) > nKeys() || b[2] == 0 {
			return rkey{}, 0, false
		}
		k := keyOfIndex(int(b[1]) - 1)
		return k, int(b[2]) - 1, k.Qtype != 28 // every type but AAAA is named by an IPv4 (address or tag)
	}
	b := a.As16()
	if b[0] != 0xfd || b[13] == 0 || int(b[13]) > nKeys() || b[15] == 0 {
		return rkey{}, 0, false
	}
	k := keyOfIndex(int(b[13]) - 1)
	return k, int(b[15]) - 1, k.Qtype == 28
}

// parseImplKey reads a cache key in the documented form: lower-cased fqdn + qtype + "|" + scope
// (property anchor "cache key", control/dns_control.go cacheKey/responseCacheKey). Used only to observe WHICH
// answers the cache still holds (size limit / janitor clauses); served answers are identified by their content.
func parseImplKey(s string) (rkey, bool) {
	base, scope, ok := strings.Cut(s, "|")
	if !ok {
		return rkey{}, false
	}
	var k rkey
	switch {
	case strings.HasPrefix(scope, "upstream@"):
		sc, ok := scopeOfUpstream(strings.TrimPrefix(scope, "upstream@"))
		if !ok {
			return rkey{}, false
		}
		k.Scope = sc
	case scope == "asis@"+asisServer:
		k.Scope = "asis"
	default:
		return rkey{}, false
	}
	for _, n := range names {
		if strings.HasPrefix(base, n) {
			k.Name = n
			for _, t := range qtypes {
				if base[len(n):] == fmt.Sprint(t) {
					k.Qtype = t
					return k, true
				}
			}
			return rkey{}, false
		}
	}
	return rkey{}, false
}

func qtName(t uint16) string {
	switch t {
	case 1:
		return "A"
	case 28:
		return "AAAA"
	case 6:
		return "SOA"
	case 16:
		return "TXT"
	case 64:
		return "SVCB"
	case 65:
		return "HTTPS"
	case 257:
		return "CAA"
	}
	return fmt.Sprintf("TYPE%d", t)
}
