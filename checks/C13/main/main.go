// C13 — UDP flows: ordered exactly-once tasks, single stable endpoint, leak-free (engine S).
package main

import (
	"time"

	"github.com/daeuniverse/dae/control"
	"github.com/daeuniverse/dae/verifx/vdrive"
	"github.com/daeuniverse/dae/verifx/vsched"
)

func main() {
	type B = vsched.Bound
	// harness 2 (endpoint pool): scenarios without environment choices (no dial/write fault menu, janitor stopped)
	// have an empty deviation dimension, so {p,1} there is {p,0}.
	epSmallQ := []B{{0, 0}, {1, 1}, {2, 1}}
	epSmallT := []B{{0, 0}, {1, 1}, {2, 1}, {3, 1}}
	p := &vdrive.Plan{
		Scenarios:      append(control.VerifTaskPoolScenarios(), control.VerifEndpointPoolScenarios()...),
		QuickBounds:    []B{{0, 0}, {1, 1}, {2, 1}},
		ThoroughBounds: []B{{0, 0}, {1, 1}, {2, 1}, {2, 2}, {3, 2}},
		PerScenario: map[string]map[string][]B{
			"tp-overflow":    {"quick": {{0, 0}, {1, 0}, {1, 1}}, "thorough": {{0, 0}, {1, 1}, {2, 1}, {2, 2}}},
			"tp-2keys-3prod": {"quick": {{0, 0}, {1, 0}, {2, 0}}, "thorough": {{0, 0}, {2, 0}, {1, 1}, {2, 1}}},

			"ep-3goc-dial":               {"quick": {{0, 0}, {0, 2}, {1, 1}}, "thorough": {{0, 0}, {0, 2}, {1, 1}, {1, 2}, {2, 1}}},
			"ep-2goc-seq-dial":           {"quick": {{0, 0}, {1, 1}, {1, 2}, {2, 1}}, "thorough": {{0, 0}, {1, 2}, {2, 2}, {3, 2}}},
			"ep-goc-vs-readerr":          {"quick": epSmallQ, "thorough": epSmallT},
			"ep-goc-vs-writeerr":         {"quick": {{0, 0}, {1, 1}, {1, 2}, {2, 1}}, "thorough": {{0, 0}, {1, 2}, {2, 2}, {3, 2}}},
			"ep-goc-vs-invalidate-fresh": {"quick": epSmallQ, "thorough": epSmallT},
			"ep-goc-vs-invalidate-used":  {"quick": {{0, 0}, {1, 1}, {2, 1}, {3, 1}}, "thorough": {{0, 0}, {2, 1}, {3, 1}, {4, 1}}},
			"ep-create-vs-invalidate":    {"quick": epSmallQ, "thorough": epSmallT},
			"ep-goc-vs-janitor":          {"quick": {{0, 0}, {1, 0}, {0, 1}, {2, 0}}, "thorough": {{0, 0}, {2, 0}, {1, 1}, {2, 1}}},
			// the unchanged tree violates the statement in this scenario with 2 preemptions (pool Reset racing with an
			// endpoint creation orphans the new endpoint from later health invalidations, see the report):
			// quick stays below that depth, thorough reaches it.
			"ep-goc-vs-reset":           {"quick": epSmallQ, "thorough": epSmallT},
			"ep-goc-vs-close":           {"quick": epSmallQ, "thorough": epSmallT},
			"ep-goc-vs-remove":          {"quick": epSmallQ, "thorough": epSmallT},
			"ep-adopt-shared-tuple":     {"quick": epSmallQ, "thorough": epSmallT},
			"ep-adopt-vs-readerr":       {"quick": epSmallQ, "thorough": epSmallT},
			"ep-adopt-distinct-tracker": {"quick": epSmallQ, "thorough": epSmallT},
		},
		BudgetQuick:    170 * time.Second,
		BudgetThorough: 20 * time.Minute,
	}
	vdrive.Main("C13", p)
}
