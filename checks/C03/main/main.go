// C03 — datapath verdicts: direct passes, block drops, proxied flows hand over the route.
// Explicit-state model checking of the REAL kernel program (tproxy.c compiled natively, engine K) over packet / event
// sequences, against a reference model written from the property statement; the Go half of the hand-over (lookup key,
// record layout, recovery functions) is the production code of package control (real-mode build).
package main

import (
	"encoding/json"
	"fmt"
	"os"
	"sort"
	"strings"
	"time"

	"github.com/daeuniverse/dae/control"
	"github.com/daeuniverse/dae/verifx/vkern"
	"github.com/daeuniverse/dae/verifx/vlib"
)

func broken(f string, a ...any) {
	fmt.Fprintf(os.Stderr, "C03: check broken: "+f+"\n", a...)
	os.Exit(2)
}

type scenSpec struct {
	side    int
	v6, ext bool
	l2      bool
	peer    bool
	short   bool
	a, b    string
	depth   int
	rich    bool
	long    bool // the long-lived-flows leg: reduced alphabet, deeper
}

func main() {
	r := vlib.Start("C03", "model_checking")
	kdrv := vkern.KdrvPath()
	if _, err := os.Stat(kdrv); err != nil {
		broken("kdrv not built (%s): run through /verif/run so that checks/C03/prebuild runs", kdrv)
	}
	lay, err := vkern.ReadLayout(kdrv)
	if err != nil {
		broken("%v", err)
	}
	if lay.ABI.Pointer != 8 || lay.ABI.Int != 4 || lay.ABI.LittleEndian != 1 {
		broken("unexpected host ABI %+v", lay.ABI)
	}
	offConn, offHandoff, offRedirect, _ = control.VerifC03LastSeenOffsets()
	handoffTimeoutNs = control.VerifC03HandoffTimeoutNs()
	// the state key rewrites last-seen stamps at the offsets of the Go mirror structs; they must be where C has them
	for _, chk := range []struct {
		rec, field string
		off        uintptr
	}{{"struct conn_state", "last_seen_ns", offConn}, {"struct routing_handoff_entry", "last_seen_ns", offHandoff}, {"struct redirect_entry", "last_seen_ns", offRedirect}} {
		rec := lay.Record(chk.rec)
		ok := false
		if rec != nil {
			for _, f := range rec.Fields {
				if f.Name == chk.field && uintptr(f.Offset) == chk.off && f.Size == 8 {
					ok = true
				}
			}
		}
		if !ok {
			r.Violation(fmt.Sprintf("C03 kind=layout: %s.%s is not at the offset (%d) of the Go mirror struct", chk.rec, chk.field, chk.off), nil)
			r.Finish()
		}
	}

	progs, err := compilePrograms()
	if err != nil {
		broken("rule programs: %v", err)
	}

	specs := specsFor(r.Thorough())
	if r.ReplayArg != "" {
		replay(r, progs, kdrv)
		return
	}

	r.Rule("explicit-state BFS over event sequences executed on the real tproxy.c (engine K): per scenario (side LAN-ingress|WAN-egress x family v4|v6|v6+hop-by-hop+dstopts x L2|L3 x ordered pair of rule programs x bpf_redirect|bpf_redirect_peer) ALL sequences up to the scenario depth over the alphabet " +
		"{frame(hook, flow, kind, variant), tick +2s|+10s|+11s|+120s|+121s (+119s), swap rule program, learn domain for the destination, flip health bit of g1 (id 2) or of the high-id group (id 43|45|251) tcp|udp, conn_state_map full, a burst of two datagrams of one flow redirected before dae reads either record} are run (flows: TCP to port 443, UDP to port 4000, DNS datagrams, a TCP session to port 53, a WAN-opened connection, dae's own), plus a long-lived-flows leg (reduced alphabet {datagram of a UDP flow on the routed and on the reverse hook, SYN / data / FIN of a TCP connection, SYN of a WAN-opened connection and its reply, tick +2s|+10s|+120s, swap rule program; thorough also +119s|+121s, learn domain, LAN-egress datagram, reverse ACK, TCP port 53}, depth 6 quick / 7 thorough) in which flows stay active across more than one idle timeout; all de-duplicated on (contents of conn_state_map, routing_handoff_map, redirect_track with last-seen stamps as exact ages saturated above the largest threshold that reads them, rule program, domain entry, health bits, map-full flag, model state). " +
		"Every frame is injected from the same snapshot once per header-parsing path (direct packet access / byte-load fallback; truncated frames additionally with a lenient pull) and both runs must give the same verdict and map state; every run is compared with the reference model of the statement; every redirect is followed into dae0peer ingress; every hand-over record is read back, once per redirected frame and after the last frame of the event, by the production controlPlaneCore.RetrieveRoutingResult running on real BPF hash maps loaded with the bytes the C program wrote. " +
		"states = distinct (kernel state, model state) pairs; transitions = event applications; traces_validated_against_impl = transitions (each is the last step of a distinct event sequence executed on the C program)")
	r.Assume("engine K: tproxy.c compiled natively and run under a helper/map shim: no verifier/JIT, one CPU (no races between hooks, publish_routing_meta ordering not exercised), bpf_redirect / bpf_redirect_peer / bpf_sk_assign are recorded, not performed; no kernel conntrack")
	r.Assume("the routing DECISION for a first packet is taken from the real userspace matcher (ControlPlane.Route) as the property prescribes; rule programs use domain/l4proto/pname/fallback rules only (no LPM sets); C02 ties route() to the matcher in general")
	r.Assume("the control plane reads a hand-over record 1 ms (virtual) after the last frame of the event that redirected it; at most two datagrams of a flow are in flight; its reads run on real kernel BPF hash maps (needs CAP_BPF), the hand-over stamp moved from the virtual clock onto CLOCK_MONOTONIC with its age kept")
	r.Assume("the userspace janitor (which also deletes expired entries) and the control plane's own writes to conn_state_map are not running; 'the control plane learns a domain' is modelled as the domain_routing_map entry buildDomainRoutingOwnerSnapshot produces for the ACTIVE rule program (re-learned on reload)")
	r.Assume("idle time is measured at the tick granularity used (>= 2 s), so the kernel's lazy (1 s) timestamp refresh is not visible; tracking ends when idle time is strictly greater than the documented timeout (120 s / 10 s after FIN or RST / 120 s UDP)")
	r.Assume("where the statement fixes no verdict (mid-flow TCP segment of an untracked connection, non-initial fragment, truncated frame) the check demands: pass or drop, never a redirect, nothing created, same result on both parsing paths")
	r.Assume("exhaustion of conn_state_map is outside the statement; safety reading used: a first packet that cannot be tracked gets the verdict of its decision or is dropped (never dropped when plain direct), hand-overs still carry a recoverable record, and tracking-dependent guarantees are not claimed for untracked flows")
	r.Assume("traffic to port 53 without a must rule is 'routed' to the control plane (docs: dae intercepts all UDP traffic to port 53 unless must; a TCP session to port 53 is DNS over TCP and is answered by the control plane's DNS controller the same way, control/tcp.go) and is handed over whatever the health bits say; a TCP session to port 53 is otherwise an ordinary tracked connection; traffic towards a local non-dae UDP socket of the host is exempt from proxying (code comment 'NAT loopback'); both are outside the literal statement")

	nw := r.Workers
	if nw > 16 {
		nw = 16
	}
	var envs []*kenv
	for i := 0; i < nw; i++ {
		k, err := startKdrv(kdrv)
		if err != nil {
			broken("%v", err)
		}
		ks, cs, hs := k.sizes["conn_state_map"], k.sizes["conn_state_map"].val, k.sizes["routing_handoff_map"].val
		mir, err := control.VerifC03NewMirror(uint32(ks.key), uint32(cs), uint32(hs))
		if err != nil {
			broken("%v", err)
		}
		envs = append(envs, &kenv{k: k, mir: mir, progs: progs})
	}

	budget := r.Budget(150*time.Second, 17*time.Minute)
	deadline := time.Now().Add(budget)
	budgetLeft := func() bool { return time.Now().Before(deadline) }

	var all []violRec
	var allSamples []map[string]any
	var states, transitions, frames, fast, slow, first, sticky, peerRuns, altDrops int64
	var longScen, longStates, longTransitions, longDepth int64
	var outcomes [5]int64
	var recFrom [2]int64
	perScenario := map[string]any{}
	maxAlphabet := 0
	for _, sp := range specs {
		sc := buildScenario(progs, sp)
		if f := os.Getenv("C03_ONLY"); f != "" && !strings.Contains(sc.name, f) { // development aid: run a subset
			r.CapHit("C03_ONLY set: scenario " + sc.name + " skipped")
			continue
		}
		sc.warmDecisions()
		if len(sc.events) > maxAlphabet {
			maxAlphabet = len(sc.events)
		}
		x := &explorer{sc: sc, envs: envs}
		if !budgetLeft() {
			r.CapHit("time budget: scenario " + sc.name + " not run")
			continue
		}
		t0 := time.Now()
		if x.run(budgetLeft) {
			r.CapHit("time budget: scenario " + sc.name + " stopped before its depth")
		}
		states += x.states.Load()
		transitions += x.transitions.Load()
		if sp.long {
			longScen++
			longStates += x.states.Load()
			longTransitions += x.transitions.Load()
			if int64(sc.depth) > longDepth {
				longDepth = int64(sc.depth)
			}
		}
		frames += x.frames.Load()
		fast += x.fastRuns.Load()
		slow += x.slowRuns.Load()
		first += x.firstPkts.Load()
		sticky += x.stickyPkts.Load()
		peerRuns += x.dae0peerRuns.Load()
		altDrops += x.altDrops.Load()
		for i := range outcomes {
			outcomes[i] += x.outcomes[i].Load()
		}
		recFrom[0] += x.recFrom[0].Load()
		recFrom[1] += x.recFrom[1].Load()
		perScenario[sc.name] = map[string]any{"depth": sc.depth, "alphabet": len(sc.events), "states": x.states.Load(), "transitions": x.transitions.Load(), "violations": len(x.viol), "wall_s": time.Since(t0).Seconds()}
		all = append(all, x.viol...)
		var classes []string
		for c := range x.samples {
			classes = append(classes, c)
		}
		sort.Strings(classes)
		for _, c := range classes {
			allSamples = append(allSamples, x.samples[c].data)
		}
	}
	for _, e := range envs {
		if err := e.k.close(); err != nil {
			broken("kdrv exited abnormally: %v\n%s", err, e.k.stderr.String())
		}
	}

	// report the smallest counterexamples: per (kind, last event) at most 2, shortest sequence first, 40 in all
	sort.SliceStable(all, func(i, j int) bool {
		if all[i].plen != all[j].plen {
			return all[i].plen < all[j].plen
		}
		return all[i].sig < all[j].sig
	})
	perKind := map[string]int{}
	perClass := map[string]int{}
	reported := 0
	for _, v := range all {
		perKind[v.kind]++
		cl := v.kind + "/" + v.last
		perClass[cl]++
		if perClass[cl] <= 2 && reported < 40 {
			reported++
			r.Violation(v.sig, v.detail)
		}
	}
	for k, n := range perKind {
		r.Set("violating_transitions_"+k, n)
	}

	r.Set("scenarios", len(specs))
	r.Set("long_lived_leg_scenarios", longScen)
	r.Set("long_lived_leg_states", longStates)
	r.Set("long_lived_leg_transitions", longTransitions)
	r.Set("long_lived_leg_depth", longDepth)
	r.Set("max_alphabet", maxAlphabet)
	r.Set("states", states)
	r.Set("transitions", transitions)
	r.Set("traces_validated_against_impl", transitions)
	r.Set("frames_injected", frames)
	r.Set("runs_direct_access_path", fast)
	r.Set("runs_byte_load_path", slow)
	r.Set("expect_pass", outcomes[xPass])
	r.Set("expect_drop", outcomes[xDrop])
	r.Set("expect_handover", outcomes[xHandover])
	r.Set("expect_unspecified", outcomes[xUnspec])
	r.Set("expect_observer", outcomes[xObserver])
	r.Set("first_packets", first)
	r.Set("later_packets_of_tracked_flows", sticky)
	r.Set("records_recovered_from_conn_state_map", recFrom[0])
	r.Set("records_recovered_from_routing_handoff_map", recFrom[1])
	r.Set("dae0peer_ingress_runs", peerRuns)
	r.Set("fail_closed_drops_under_map_full", altDrops)
	r.Set("per_scenario", perScenario)
	r.Set("distinct_nontrivial", states)
	// samples: the smallest sequences of this run per class, from the first scenarios that have one
	seen := map[string]bool{}
	for _, sm := range allSamples {
		cl := sm["class"].(string) + "/" + sm["scenario"].(string)[:3]
		if !seen[cl] {
			seen[cl] = true
			r.Sample(sm)
		}
	}
	r.Finish()
}

func specsFor(thorough bool) []scenSpec {
	var specs []scenSpec
	if !thorough {
		const d = 4
		// long-lived flows: a reduced alphabet, deeper; cheap, so first (flows kept active across more than one idle timeout)
		specs = append(specs,
			scenSpec{side: sideLAN, l2: true, a: "dmark", b: "pmust", depth: 6, long: true},
			scenSpec{side: sideLAN, l2: true, a: "block", b: "proxy", depth: 6, long: true},
			scenSpec{side: sideWAN, l2: true, a: "proxy", b: "direct", depth: 6, long: true},
			scenSpec{side: sideWAN, v6: true, l2: false, a: "pmark", b: "block", depth: 6, long: true},
		)
		for _, side := range []int{sideLAN, sideWAN} {
			specs = append(specs,
				scenSpec{side: side, l2: true, a: "direct", b: "proxy", depth: d},
				scenSpec{side: side, l2: true, a: "proxy", b: "block", depth: d},
				scenSpec{side: side, l2: true, a: "dmark", b: "pmust", depth: d},
				scenSpec{side: side, l2: true, a: "mustrules", b: "pmark", depth: d},
				scenSpec{side: side, l2: true, a: "block", b: "direct", depth: d},
				scenSpec{side: side, l2: true, a: "pmust", b: "dmark", depth: d},
			)
		}
		// IPv6 with extension headers, L3 link type, payload-less frames, bpf_redirect_peer
		for _, side := range []int{sideLAN, sideWAN} {
			specs = append(specs,
				scenSpec{side: side, v6: true, ext: true, l2: true, a: "proxy", b: "direct", depth: d},
				scenSpec{side: side, l2: false, peer: true, a: "pmark", b: "direct", depth: d},
				scenSpec{side: side, v6: true, l2: true, short: true, a: "proxy", b: "dmark", depth: d},
			)
		}
		// proxy groups with high outbound ids next to the low-id group g1 (health bits of both written through the
		// control plane's key function)
		specs = append(specs,
			scenSpec{side: sideLAN, l2: true, a: "hi43", b: "proxy", depth: 3},
			scenSpec{side: sideWAN, l2: true, a: "hi45", b: "proxy", depth: 3},
			scenSpec{side: sideLAN, v6: true, l2: true, a: "hi251", b: "pmark", depth: 3},
			scenSpec{side: sideWAN, v6: true, l2: true, a: "hi43", b: "direct", depth: 3},
		)
	} else {
		// most valuable first: the time budget may cut the tail (reported as caps_hit, exhaustive=false)
		for _, side := range []int{sideLAN, sideWAN} {
			specs = append(specs, scenSpec{side: side, l2: true, a: "direct", b: "proxy", depth: 5, rich: true})
			specs = append(specs, scenSpec{side: side, l2: true, a: "pmark", b: "mustrules", depth: 5, rich: true})
		}
		// long-lived flows (reduced alphabet): one level deeper than quick, and the richer alphabet at the quick depth
		for _, side := range []int{sideLAN, sideWAN} {
			specs = append(specs,
				scenSpec{side: side, l2: true, a: "dmark", b: "pmust", depth: 7, long: true},
				scenSpec{side: side, l2: true, a: "block", b: "proxy", depth: 7, long: true},
				scenSpec{side: side, l2: true, a: "proxy", b: "direct", depth: 7, long: true},
				scenSpec{side: side, v6: true, l2: false, a: "pmark", b: "block", depth: 7, long: true},
				scenSpec{side: side, v6: true, ext: true, l2: true, a: "direct", b: "proxy", depth: 6, long: true, rich: true},
				scenSpec{side: side, l2: true, peer: true, a: "pmust", b: "dmark", depth: 6, long: true, rich: true},
			)
		}
		for _, side := range []int{sideLAN, sideWAN} {
			specs = append(specs, scenSpec{side: side, l2: true, a: "proxy", b: "block", depth: 6})
		}
		pairs := [][2]string{{"proxy", "block"}, {"dmark", "pmust"}, {"mustrules", "pmark"}, {"block", "direct"}, {"pmust", "dmark"}, {"proxy", "direct"}, {"direct", "proxy"}, {"pmark", "mustrules"}}
		variants := []scenSpec{
			{v6: true, l2: true},
			{v6: true, ext: true, l2: false},
			{l2: false, peer: true},
			{v6: true, ext: true, l2: true, short: true},
			{l2: true, short: true},
			{v6: true, l2: false, peer: true},
			{l2: true, peer: true},
			{v6: true, ext: true, l2: true},
		}
		for i, p := range pairs {
			for si, side := range []int{sideLAN, sideWAN} {
				for _, off := range []int{0, 3} {
					v := variants[(i+off+si)%len(variants)]
					v.side, v.a, v.b, v.depth, v.rich = side, p[0], p[1], 4, true
					specs = append(specs, v)
				}
			}
		}
		for _, side := range []int{sideLAN, sideWAN} {
			for i, h := range []string{"hi43", "hi45", "hi251"} {
				specs = append(specs, scenSpec{side: side, v6: i == 1, l2: true, a: h, b: "proxy", depth: 4})
				specs = append(specs, scenSpec{side: side, v6: i != 1, l2: i != 2, a: "pmark", b: h, depth: 4})
			}
		}
		// deeper still, last: cut first when the machine is slow
		for _, side := range []int{sideLAN, sideWAN} {
			specs = append(specs, scenSpec{side: side, l2: true, a: "direct", b: "proxy", depth: 6})
		}
		for _, side := range []int{sideLAN, sideWAN} {
			specs = append(specs, scenSpec{side: side, l2: true, a: "dmark", b: "pmust", depth: 5, rich: true})
		}
	}
	return specs
}

// replay re-runs one recorded violation: the state reached by the recorded sequence minus its last event is rebuilt on
// the real C program and every event is tried from it; violations of the recorded sequence are printed.
func replay(r *vlib.Run, progs []*ruleProgram, kdrv string) {
	b, err := os.ReadFile(r.ReplayArg)
	if err != nil {
		broken("replay: %v", err)
	}
	var rec struct {
		Detail struct {
			Scenario string `json:"scenario"`
			Sequence string `json:"sequence"`
		} `json:"detail"`
	}
	if err := json.Unmarshal(b, &rec); err != nil || rec.Detail.Scenario == "" {
		broken("replay: %s is not a C03 violation file", r.ReplayArg)
	}
	names := strings.Split(strings.Trim(rec.Detail.Sequence, "[]"), ", ")
	for _, th := range []bool{false, true} {
		for _, sp := range specsFor(th) {
			sc := buildScenario(progs, sp)
			if sc.name != rec.Detail.Scenario {
				continue
			}
			var path []uint16
			ok := true
			for _, nm := range names {
				idx := -1
				for i := range sc.events {
					if sc.events[i].name == nm {
						idx = i
					}
				}
				if idx < 0 {
					ok = false
					break
				}
				path = append(path, uint16(idx))
			}
			if !ok {
				continue
			}
			sc.warmDecisions()
			k, err := startKdrv(kdrv)
			if err != nil {
				broken("%v", err)
			}
			mir, err := control.VerifC03NewMirror(uint32(k.sizes["conn_state_map"].key), uint32(k.sizes["conn_state_map"].val), uint32(k.sizes["routing_handoff_map"].val))
			if err != nil {
				broken("%v", err)
			}
			e := &kenv{k: k, mir: mir, progs: progs}
			x := &explorer{sc: sc, envs: []*kenv{e}}
			e.boot(sc)
			m := x.initialModel()
			for _, p := range path[:len(path)-1] {
				sc.stepAll(m, &sc.events[p])
			}
			x.expand(e, &node{path: path[:len(path)-1], model: m})
			k.close()
			n := 0
			for _, v := range x.viol {
				if strings.Contains(v.sig, "seq="+rec.Detail.Sequence+":") {
					fmt.Println("REPRODUCED:", v.sig)
					d, _ := json.MarshalIndent(v.detail, "", " ")
					fmt.Println(string(d))
					n++
				}
			}
			if n == 0 {
				fmt.Println("not reproduced: the recorded sequence no longer violates the statement")
				os.Exit(0)
			}
			os.Exit(1)
		}
	}
	broken("replay: scenario %q / sequence %s not found", rec.Detail.Scenario, rec.Detail.Sequence)
}
