// Package vatomic mirrors sync/atomic; every operation is preceded by a scheduling point and then performed
// by the real atomic (so state is consistent inside and outside the scheduler).
package vatomic

import (
	"sync/atomic"
	"unsafe"

	"github.com/daeuniverse/dae/verifx/vsched"
)

func ld(p unsafe.Pointer) { vsched.Point(vsched.OpAtomicLoad, p) }
func st(p unsafe.Pointer) { vsched.Point(vsched.OpAtomicStore, p) }
func rw(p unsafe.Pointer) { vsched.Point(vsched.OpAtomicRMW, p) }

type Int32 struct{ v atomic.Int32 }

func (x *Int32) Load() int32           { ld(unsafe.Pointer(x)); return x.v.Load() }
func (x *Int32) Store(n int32)         { st(unsafe.Pointer(x)); x.v.Store(n) }
func (x *Int32) Swap(n int32) int32    { rw(unsafe.Pointer(x)); return x.v.Swap(n) }
func (x *Int32) Add(d int32) int32     { rw(unsafe.Pointer(x)); return x.v.Add(d) }
func (x *Int32) And(m int32) int32     { rw(unsafe.Pointer(x)); return x.v.And(m) }
func (x *Int32) Or(m int32) int32      { rw(unsafe.Pointer(x)); return x.v.Or(m) }
func (x *Int32) CompareAndSwap(o, n int32) bool {
	rw(unsafe.Pointer(x))
	return x.v.CompareAndSwap(o, n)
}

type Int64 struct{ v atomic.Int64 }

func (x *Int64) Load() int64           { ld(unsafe.Pointer(x)); return x.v.Load() }
func (x *Int64) Store(n int64)         { st(unsafe.Pointer(x)); x.v.Store(n) }
func (x *Int64) Swap(n int64) int64    { rw(unsafe.Pointer(x)); return x.v.Swap(n) }
func (x *Int64) Add(d int64) int64     { rw(unsafe.Pointer(x)); return x.v.Add(d) }
func (x *Int64) And(m int64) int64     { rw(unsafe.Pointer(x)); return x.v.And(m) }
func (x *Int64) Or(m int64) int64      { rw(unsafe.Pointer(x)); return x.v.Or(m) }
func (x *Int64) CompareAndSwap(o, n int64) bool {
	rw(unsafe.Pointer(x))
	return x.v.CompareAndSwap(o, n)
}

type Uint32 struct{ v atomic.Uint32 }

func (x *Uint32) Load() uint32          { ld(unsafe.Pointer(x)); return x.v.Load() }
func (x *Uint32) Store(n uint32)        { st(unsafe.Pointer(x)); x.v.Store(n) }
func (x *Uint32) Swap(n uint32) uint32  { rw(unsafe.Pointer(x)); return x.v.Swap(n) }
func (x *Uint32) Add(d uint32) uint32   { rw(unsafe.Pointer(x)); return x.v.Add(d) }
func (x *Uint32) And(m uint32) uint32   { rw(unsafe.Pointer(x)); return x.v.And(m) }
func (x *Uint32) Or(m uint32) uint32    { rw(unsafe.Pointer(x)); return x.v.Or(m) }
func (x *Uint32) CompareAndSwap(o, n uint32) bool {
	rw(unsafe.Pointer(x))
	return x.v.CompareAndSwap(o, n)
}

type Uint64 struct{ v atomic.Uint64 }

func (x *Uint64) Load() uint64          { ld(unsafe.Pointer(x)); return x.v.Load() }
func (x *Uint64) Store(n uint64)        { st(unsafe.Pointer(x)); x.v.Store(n) }
func (x *Uint64) Swap(n uint64) uint64  { rw(unsafe.Pointer(x)); return x.v.Swap(n) }
func (x *Uint64) Add(d uint64) uint64   { rw(unsafe.Pointer(x)); return x.v.Add(d) }
func (x *Uint64) And(m uint64) uint64   { rw(unsafe.Pointer(x)); return x.v.And(m) }
func (x *Uint64) Or(m uint64) uint64    { rw(unsafe.Pointer(x)); return x.v.Or(m) }
func (x *Uint64) CompareAndSwap(o, n uint64) bool {
	rw(unsafe.Pointer(x))
	return x.v.CompareAndSwap(o, n)
}

type Uintptr struct{ v atomic.Uintptr }

func (x *Uintptr) Load() uintptr          { ld(unsafe.Pointer(x)); return x.v.Load() }
func (x *Uintptr) Store(n uintptr)        { st(unsafe.Pointer(x)); x.v.Store(n) }
func (x *Uintptr) Swap(n uintptr) uintptr { rw(unsafe.Pointer(x)); return x.v.Swap(n) }
func (x *Uintptr) Add(d uintptr) uintptr  { rw(unsafe.Pointer(x)); return x.v.Add(d) }
func (x *Uintptr) CompareAndSwap(o, n uintptr) bool {
	rw(unsafe.Pointer(x))
	return x.v.CompareAndSwap(o, n)
}

type Bool struct{ v atomic.Bool }

func (x *Bool) Load() bool         { ld(unsafe.Pointer(x)); return x.v.Load() }
func (x *Bool) Store(n bool)       { st(unsafe.Pointer(x)); x.v.Store(n) }
func (x *Bool) Swap(n bool) bool   { rw(unsafe.Pointer(x)); return x.v.Swap(n) }
func (x *Bool) CompareAndSwap(o, n bool) bool {
	rw(unsafe.Pointer(x))
	return x.v.CompareAndSwap(o, n)
}

type Pointer[T any] struct{ v atomic.Pointer[T] }

func (x *Pointer[T]) Load() *T         { ld(unsafe.Pointer(x)); return x.v.Load() }
func (x *Pointer[T]) Store(n *T)       { st(unsafe.Pointer(x)); x.v.Store(n) }
func (x *Pointer[T]) Swap(n *T) *T     { rw(unsafe.Pointer(x)); return x.v.Swap(n) }
func (x *Pointer[T]) CompareAndSwap(o, n *T) bool {
	rw(unsafe.Pointer(x))
	return x.v.CompareAndSwap(o, n)
}

type Value struct{ v atomic.Value }

func (x *Value) Load() any             { ld(unsafe.Pointer(x)); return x.v.Load() }
func (x *Value) Store(n any)           { st(unsafe.Pointer(x)); x.v.Store(n) }
func (x *Value) Swap(n any) any        { rw(unsafe.Pointer(x)); return x.v.Swap(n) }
func (x *Value) CompareAndSwap(o, n any) bool {
	rw(unsafe.Pointer(x))
	return x.v.CompareAndSwap(o, n)
}

func AddInt32(p *int32, d int32) int32       { rw(unsafe.Pointer(p)); return atomic.AddInt32(p, d) }
func AddInt64(p *int64, d int64) int64       { rw(unsafe.Pointer(p)); return atomic.AddInt64(p, d) }
func AddUint32(p *uint32, d uint32) uint32   { rw(unsafe.Pointer(p)); return atomic.AddUint32(p, d) }
func AddUint64(p *uint64, d uint64) uint64   { rw(unsafe.Pointer(p)); return atomic.AddUint64(p, d) }
func AddUintptr(p *uintptr, d uintptr) uintptr { rw(unsafe.Pointer(p)); return atomic.AddUintptr(p, d) }
func LoadInt32(p *int32) int32               { ld(unsafe.Pointer(p)); return atomic.LoadInt32(p) }
func LoadInt64(p *int64) int64               { ld(unsafe.Pointer(p)); return atomic.LoadInt64(p) }
func LoadUint32(p *uint32) uint32            { ld(unsafe.Pointer(p)); return atomic.LoadUint32(p) }
func LoadUint64(p *uint64) uint64            { ld(unsafe.Pointer(p)); return atomic.LoadUint64(p) }
func LoadUintptr(p *uintptr) uintptr         { ld(unsafe.Pointer(p)); return atomic.LoadUintptr(p) }
func LoadPointer(p *unsafe.Pointer) unsafe.Pointer { ld(unsafe.Pointer(p)); return atomic.LoadPointer(p) }
func StoreInt32(p *int32, v int32)           { st(unsafe.Pointer(p)); atomic.StoreInt32(p, v) }
func StoreInt64(p *int64, v int64)           { st(unsafe.Pointer(p)); atomic.StoreInt64(p, v) }
func StoreUint32(p *uint32, v uint32)        { st(unsafe.Pointer(p)); atomic.StoreUint32(p, v) }
func StoreUint64(p *uint64, v uint64)        { st(unsafe.Pointer(p)); atomic.StoreUint64(p, v) }
func StoreUintptr(p *uintptr, v uintptr)     { st(unsafe.Pointer(p)); atomic.StoreUintptr(p, v) }
func StorePointer(p *unsafe.Pointer, v unsafe.Pointer) { st(unsafe.Pointer(p)); atomic.StorePointer(p, v) }
func SwapInt32(p *int32, v int32) int32      { rw(unsafe.Pointer(p)); return atomic.SwapInt32(p, v) }
func SwapInt64(p *int64, v int64) int64      { rw(unsafe.Pointer(p)); return atomic.SwapInt64(p, v) }
func SwapUint32(p *uint32, v uint32) uint32  { rw(unsafe.Pointer(p)); return atomic.SwapUint32(p, v) }
func SwapUint64(p *uint64, v uint64) uint64  { rw(unsafe.Pointer(p)); return atomic.SwapUint64(p, v) }
func CompareAndSwapInt32(p *int32, o, n int32) bool    { rw(unsafe.Pointer(p)); return atomic.CompareAndSwapInt32(p, o, n) }
func CompareAndSwapInt64(p *int64, o, n int64) bool    { rw(unsafe.Pointer(p)); return atomic.CompareAndSwapInt64(p, o, n) }
func CompareAndSwapUint32(p *uint32, o, n uint32) bool { rw(unsafe.Pointer(p)); return atomic.CompareAndSwapUint32(p, o, n) }
func CompareAndSwapUint64(p *uint64, o, n uint64) bool { rw(unsafe.Pointer(p)); return atomic.CompareAndSwapUint64(p, o, n) }
func CompareAndSwapPointer(p *unsafe.Pointer, o, n unsafe.Pointer) bool {
	rw(unsafe.Pointer(p))
	return atomic.CompareAndSwapPointer(p, o, n)
}
