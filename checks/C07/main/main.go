// C07 — DNS questions and answers are routed by the first matching DNS rule.
//
// Engine Q (bounded-exhaustive enumeration over sequential real code):
//
//	Leg 1 matchers : every dns.routing.request program and every dns.routing.response program with <=2 (quick) /
//	                 <=3 (thorough) rules over closed rule pools -> config text -> config_parser.Parse -> config.New ->
//	                 dns.New -> RequestSelect for every question of a closed list (pattern hits/misses, case, trailing
//	                 dot, 4 qtypes) / ResponseSelect for every (question, answer-section subset, answering upstream).
//	                 One config text carries request program #i and response program #i.
//	Leg 1c router  : component/daedns.Router (dae's own lookups) over request programs, with internal selector rules
//	                 (sub/node/subnode) interleaved, which ordinary questions must skip.
//	Leg 2 flow     : the real control.DnsController (HandleWithResponseWriter_) over a scripted, network-free upstream
//	                 fake: every response-rule set over 2 upstreams x answer tables x request routes x questions;
//	                 who is asked in which order, bounded re-asks, the reply, reject-beats-cache after a reload.
//
// The oracle is ref.go (written from the statement); it never calls the implementation.
package main

import (
	"context"
	"fmt"
	"io"
	"net"
	"net/netip"
	"os"
	"runtime/debug"
	"runtime/pprof"
	"strings"
	"sync"
	"time"

	"github.com/daeuniverse/dae/common/consts"
	"github.com/daeuniverse/dae/common/netutils"
	"github.com/daeuniverse/dae/component/dns"
	"github.com/daeuniverse/dae/config"
	"github.com/daeuniverse/dae/pkg/config_parser"
	"github.com/daeuniverse/dae/verifx/vlib"
	"github.com/daeuniverse/dae/verifx/vsched"
	dnsmessage "github.com/miekg/dns"
	"github.com/sirupsen/logrus"
)

// upstream tags are deliberately not in alphabetical order so that a name/index mix-up shows.
var upTags = []string{"ub", "ua", "uc"}
var upURLs = []string{"udp://192.0.2.1:53", "udp://192.0.2.2:53", "tcp://192.0.2.3:53"}

func quietLogger() *logrus.Logger {
	l := logrus.New()
	l.SetOutput(io.Discard)
	l.SetLevel(logrus.PanicLevel)
	return l
}

func confText(nUp int, reqBlock, respBlock string) string {
	var b strings.Builder
	b.WriteString("global{}\nrouting{ fallback: direct }\ndns {\n  upstream {\n")
	for i := 0; i < nUp; i++ {
		fmt.Fprintf(&b, "    %s: '%s'\n", upTags[i], upURLs[i])
	}
	b.WriteString("  }\n  routing {\n    request {\n" + reqBlock + "    }\n    response {\n" + respBlock + "    }\n  }\n}\n")
	return b.String()
}

// buildDns goes through the production path: text -> parser -> config.New -> dns.New.
func buildDns(text string, log *logrus.Logger) (*dns.Dns, *config.Config, error) {
	sections, err := config_parser.Parse(text)
	if err != nil {
		return nil, nil, fmt.Errorf("parse: %w", err)
	}
	conf, err := config.New(sections)
	if err != nil {
		return nil, nil, fmt.Errorf("config.New: %w", err)
	}
	d, err := dns.New(&conf.Dns, &dns.NewOption{
		Logger:                  log,
		UpstreamReadyCallback:   func(*dns.Upstream) error { return nil },
		UpstreamResolverNetwork: "udp",
		UpstreamHostResolver:    staticHostResolver, // a fixed in-process table (leg 3's host-name upstreams); IP literals never reach it
	})
	if err != nil {
		return nil, nil, fmt.Errorf("dns.New: %w", err)
	}
	return d, conf, nil
}

// staticHostResolver stands in for global.bootstrap_resolver: a fixed table, no network. Both names resolve to the
// SAME address on purpose (two server names behind one address).
var staticHosts = map[string]netip.Addr{
	"dns-a.test": netip.MustParseAddr("192.0.2.1"),
	"dns-b.test": netip.MustParseAddr("192.0.2.1"),
}

func staticHostResolver(_ context.Context, host string, _ string) (*netutils.Ip46, error, error) {
	if a, ok := staticHosts[host]; ok {
		return &netutils.Ip46{Ip4: a}, nil, fmt.Errorf("no AAAA record for %s", host)
	}
	err := fmt.Errorf("static resolver: unknown host %q", host)
	return nil, err, err
}

// ---------- violation bookkeeping: a few per (leg, class) ----------

type capper struct {
	mu sync.Mutex
	n  map[string]int
}

func (c *capper) ok(class string, max int) bool {
	c.mu.Lock()
	defer c.mu.Unlock()
	if c.n == nil {
		c.n = map[string]int{}
	}
	c.n[class]++
	return c.n[class] <= max
}

var caps capper

type hist struct {
	mu sync.Mutex
	m  map[string]int64
}

func (h *hist) add(local map[string]int64) {
	h.mu.Lock()
	if h.m == nil {
		h.m = map[string]int64{}
	}
	for k, v := range local {
		h.m[k] += v
	}
	h.mu.Unlock()
}

// ---------- budget: every leg gets a share of the tier budget, so a slow machine starves no leg ----------

const (
	budgetQ = 170 * time.Second // 150 s for the legs that existed before leg 3 + 20 s for leg 3
	budgetT = 16 * time.Minute  // 14 min + 2 min for leg 3
)

var (
	runRef      *vlib.Run
	legDeadline time.Duration
)

var legStart time.Duration

// legDone records the wall time of a leg in the evidence (informational only).
func legDone(name string) {
	now := runRef.Elapsed()
	runRef.Set("wall_s_"+name, float64(int((now-legStart).Seconds()*10))/10)
	legStart = now
}

func setShare(frac float64) {
	legDeadline = time.Duration(float64(runRef.Budget(budgetQ, budgetT)) * frac)
}
func overBudget() bool { return runRef.Elapsed() > legDeadline }

// ---------- grammar helpers ----------

func qn(not bool, kv ...string) Cond {
	c := Cond{Fn: "qname", Not: not}
	for i := 0; i+1 < len(kv); i += 2 {
		c.Params = append(c.Params, Param{kv[i], kv[i+1]})
	}
	return c
}

func plain(fn string, not bool, vals ...string) Cond {
	c := Cond{Fn: fn, Not: not}
	for _, v := range vals {
		c.Params = append(c.Params, Param{"", v})
	}
	return c
}

func neg(c Cond) Cond {
	n := c
	n.Not = !c.Not
	return n
}

func both(c Cond) []Cond { return []Cond{c, neg(c)} }

func crossConds(a, b []Cond) [][]Cond {
	var out [][]Cond
	for _, x := range a {
		for _, y := range b {
			out = append(out, []Cond{x, y})
		}
	}
	return out
}

func singlesOf(cs []Cond) [][]Cond {
	var out [][]Cond
	for _, c := range cs {
		out = append(out, []Cond{c})
	}
	return out
}

var reqNames = []string{
	"a.com", "A.cOm.", "www.a.com", "b.org", "W.B.oRg.", "ab.org", "goo.net", "x.agoob.io.", "yes.io", "YES.IO.",
	"noyes.io", "x.net", "zzz.example", "yes.b.org", "goo.a.com.", ".",
}
var qtypes4 = []uint16{1, 28, 65, 255}

func requestInputs() []Input {
	var in []Input
	for _, n := range reqNames {
		for _, t := range qtypes4 {
			in = append(in, Input{Name: n, Qtype: t})
		}
	}
	return in
}

// ---------- generic program enumeration ----------

type space struct {
	name      string
	nUp       int
	inputs    []Input
	rules     []*ruleMask // rule pool (condition set x outbound)
	fallbacks []string
	minRules  int
	maxRules  int
}

func ipow(b, e int) int {
	p := 1
	for ; e > 0; e-- {
		p *= b
	}
	return p
}

func (s *space) count() int {
	n := 0
	for k := s.minRules; k <= s.maxRules; k++ {
		n += ipow(len(s.rules), k)
	}
	return n * len(s.fallbacks)
}

// decode program number i -> (fallback, rules). Order: fewer rules first, simplest first.
func (s *space) decode(i int) (string, []*ruleMask) {
	fb := s.fallbacks[i%len(s.fallbacks)]
	i /= len(s.fallbacks)
	for k := s.minRules; k <= s.maxRules; k++ {
		p := ipow(len(s.rules), k)
		if i < p {
			rs := make([]*ruleMask, k)
			for j := k - 1; j >= 0; j-- {
				rs[j] = s.rules[i%len(s.rules)]
				i /= len(s.rules)
			}
			return fb, rs
		}
		i -= p
	}
	panic("decode out of range")
}

func mkRules(conds [][]Cond, outs []string, inputs []Input) []*ruleMask {
	cache := map[string]condMask{}
	var rules []*ruleMask
	for _, cs := range conds {
		var cms []condMask
		for _, c := range cs {
			k := c.Text()
			cm, ok := cache[k]
			if !ok {
				cm = maskCond(c, inputs)
				cache[k] = cm
			}
			cms = append(cms, cm)
		}
		for _, o := range outs {
			r := maskRule(cms, o, len(inputs))
			rules = append(rules, &r)
		}
	}
	return rules
}

func progOf(fb string, rs []*ruleMask) *Program {
	p := &Program{Fallback: fb}
	for _, r := range rs {
		p.Rules = append(p.Rules, r.Rule)
	}
	return p
}

// ---------- decoding what the implementation answered ----------

func tagOfUpstream(u *dns.Upstream) string {
	if u == nil {
		return "<nil>"
	}
	s := u.String()
	for i, url := range upURLs {
		if s == url {
			return upTags[i]
		}
	}
	return "<unknown " + s + ">"
}

func reqOutcome(idx consts.DnsRequestOutboundIndex, u *dns.Upstream, err error) string {
	if err != nil {
		return "error: " + err.Error()
	}
	switch idx {
	case consts.DnsRequestOutboundIndex_AsIs:
		if u != nil {
			return "asis+upstream?"
		}
		return "asis"
	case consts.DnsRequestOutboundIndex_Reject:
		if u != nil {
			return "reject+upstream?"
		}
		return "reject"
	}
	t := tagOfUpstream(u)
	for i, tg := range upTags {
		if tg == t && int(idx) != i {
			return fmt.Sprintf("%s(index %d?)", t, idx)
		}
	}
	return t
}

func respOutcome(idx consts.DnsResponseOutboundIndex, u *dns.Upstream, err error) string {
	if err != nil {
		return "error: " + err.Error()
	}
	switch idx {
	case consts.DnsResponseOutboundIndex_Accept:
		if u != nil {
			return "accept+upstream?"
		}
		return "accept"
	case consts.DnsResponseOutboundIndex_Reject:
		if u != nil {
			return "reject+upstream?"
		}
		return "reject"
	}
	t := tagOfUpstream(u)
	for i, tg := range upTags {
		if tg == t && int(idx) != i {
			return fmt.Sprintf("%s(index %d?)", t, idx)
		}
	}
	return t
}

// ---------- response inputs ----------

type respInput struct {
	Input
	msg  *dnsmessage.Msg
	from int  // index into froms
	wide bool // v4 answer addresses in 16-byte net.IP form
}

var answerPool = []RR{
	{Kind: "A", Addr: netip.MustParseAddr("10.1.2.3")},       // inside 10.0.0.0/8
	{Kind: "A", Addr: netip.MustParseAddr("8.8.8.8")},        // outside
	{Kind: "AAAA", Addr: netip.MustParseAddr("2001:db8::1")}, // inside 2001:db8::/32
	{Kind: "CNAME", Tgt: "cdn.example.net."},
	{Kind: "AAAA", Addr: netip.MustParseAddr("2606:4700::1")}, // outside
}

func mkMsg(name string, qtype uint16, ans []RR, wide bool) *dnsmessage.Msg {
	m := new(dnsmessage.Msg)
	m.Id = 0x1234
	m.Response = true
	m.RecursionAvailable = true
	m.Question = []dnsmessage.Question{{Name: name, Qtype: qtype, Qclass: dnsmessage.ClassINET}}
	for _, a := range ans {
		switch a.Kind {
		case "A":
			ip := net.IP(a.Addr.AsSlice())
			if wide {
				ip = ip.To16() // 16-byte form of a v4 address, as net.ParseIP produces
			}
			m.Answer = append(m.Answer, &dnsmessage.A{Hdr: dnsmessage.RR_Header{Name: name, Rrtype: dnsmessage.TypeA, Class: dnsmessage.ClassINET, Ttl: 300}, A: ip})
		case "AAAA":
			m.Answer = append(m.Answer, &dnsmessage.AAAA{Hdr: dnsmessage.RR_Header{Name: name, Rrtype: dnsmessage.TypeAAAA, Class: dnsmessage.ClassINET, Ttl: 300}, AAAA: net.IP(a.Addr.AsSlice())})
		case "CNAME":
			m.Answer = append(m.Answer, &dnsmessage.CNAME{Hdr: dnsmessage.RR_Header{Name: name, Rrtype: dnsmessage.TypeCNAME, Class: dnsmessage.ClassINET, Ttl: 300}, Target: a.Tgt})
		}
	}
	return m
}

func responseInputs(names []string, qts []uint16, poolN int, froms []string) []respInput {
	var out []respInput
	for _, n := range names {
		for _, t := range qts {
			for sub := 0; sub < 1<<poolN; sub++ {
				var ans []RR
				for b := 0; b < poolN; b++ {
					if sub>>b&1 == 1 {
						ans = append(ans, answerPool[b])
					}
				}
				for fi, f := range froms {
					refFrom := f
					if f == "foreign" {
						refFrom = "asis" // an upstream object that is none of the configured ones: the as-is server (what dialSend builds)
					}
					wide := sub%2 == 1 && fi%2 == 1
					out = append(out, respInput{Input: Input{Name: n, Qtype: t, Answers: ans, From: refFrom}, msg: mkMsg(n, t, ans, wide), from: fi, wide: wide})
				}
			}
		}
	}
	return out
}

// ---------- Leg 1: request program #i and response program #i in one configuration ----------

type matcherRun struct {
	name       string
	nUp        int
	req        *space // may be nil
	resp       *space // may be nil
	rin        []respInput
	froms      []string
	interleave bool // internal selector rules at every position of the request block
}

func diagOf(p *Program, in *Input, got string) string {
	if m, ch := mergedNegated(p); ch {
		if o, _ := refDecide(m, in); o == got {
			return "merge-negated"
		}
	}
	return "other"
}

func (mr *matcherRun) run(r *vlib.Run) {
	nReq, nResp := 0, 0
	if mr.req != nil {
		nReq = mr.req.count()
		r.Add("programs_request", int64(nReq))
	}
	if mr.resp != nil {
		nResp = mr.resp.count()
		r.Add("programs_response", int64(nResp))
	}
	n := max(nReq, nResp)
	evals := r.Counter("evaluations")
	reqEvals := r.Counter("request_evaluations")
	respEvals := r.Counter("response_evaluations")
	nontriv := r.Counter("cases_decided_by_a_rule")
	byFallback := r.Counter("cases_decided_by_fallback")
	var hq, hp hist
	log := quietLogger()
	ctx := context.Background()
	foreign := &dns.Upstream{Scheme: "udp", Hostname: "198.51.100.9", Port: 53}
	r.ParallelFor(n, func(i int) {
		if overBudget() {
			r.CapHit("time budget share reached inside " + mr.name)
			return
		}
		reqProg := &Program{Fallback: "asis"}
		var reqRules []*ruleMask
		if i < nReq {
			fb, rs := mr.req.decode(i)
			reqProg, reqRules = progOf(fb, rs), rs
		}
		respProg := &Program{Fallback: "accept"}
		var respRules []*ruleMask
		if i < nResp {
			fb, rs := mr.resp.decode(i)
			respProg, respRules = progOf(fb, rs), rs
		}
		reqBlock := reqProg.Block()
		if mr.interleave {
			reqBlock = interleavedBlock(reqProg)
		}
		text := confText(mr.nUp, reqBlock, respProg.Block())
		var d *dns.Dns
		var err error
		if pk, msg := vlib.Try(func() { d, _, err = buildDns(text, log) }); pk {
			if caps.ok(mr.name+"/build-panic", 3) {
				r.Violation(fmt.Sprintf("leg=matchers build panic site=%s request=[%s] response=[%s]", vlib.PanicSite(msg), reqProg.Text(), respProg.Text()), map[string]any{"config": text, "panic": msg})
			}
			return
		}
		if err != nil {
			if caps.ok(mr.name+"/build-error", 3) {
				r.Violation(fmt.Sprintf("leg=matchers build error request=[%s] response=[%s] err=%v", reqProg.Text(), respProg.Text(), err), map[string]any{"config": text})
			}
			return
		}
		// ---- request side ----
		if i < nReq {
			local := map[string]int64{}
			nv := 0
			ins := mr.req.inputs
			var nRule, nFb int64
			k := 0
			if pk, msg := vlib.Try(func() {
				for k = 0; k < len(ins); k++ {
					in := &ins[k]
					want, by := decideMask(reqRules, reqProg.Fallback, k)
					idx, up, rerr := d.RequestSelect(ctx, in.Name, in.Qtype)
					got := reqOutcome(idx, up, rerr)
					local[want]++
					if by >= 0 {
						nRule++
					} else {
						nFb++
					}
					if got != want && nv < 2 {
						nv++
						diag := diagOf(reqProg, in, got)
						if caps.ok("request/"+diag, 4) {
							r.Violation(fmt.Sprintf("leg=request diag=%s program=[%s] question=%s want=%s got=%s", diag, reqProg.Text(), in, want, got),
								map[string]any{"config": text, "question": in.String(), "want": want, "got": got, "deciding_rule_index": by, "run": mr.name,
									"replay":  replayRec{Kind: "request", NUp: mr.nUp, Program: reqProg, Interleave: mr.interleave, Input: in},
									"explain": "reference: first rule (top to bottom) whose conditions all hold, values are alternatives, ! negates, else fallback"})
						}
					}
				}
			}); pk {
				if caps.ok(mr.name+"/req-panic", 3) {
					r.Violation(fmt.Sprintf("leg=request RequestSelect panic site=%s program=[%s] question=%s", vlib.PanicSite(msg), reqProg.Text(), ins[k]), map[string]any{"config": text, "panic": msg})
				}
			}
			evals.Add(nRule + nFb)
			reqEvals.Add(nRule + nFb)
			nontriv.Add(nRule)
			byFallback.Add(nFb)
			hq.add(local)
			if i%40009 == 7 && len(reqRules) > 0 {
				in := ins[(i/7)%len(ins)]
				w, by := refDecide(reqProg, &in)
				r.Sample(map[string]any{"leg": "request", "program": reqProg.Text(), "question": in.String(), "expected": w, "deciding_rule": by})
			}
		}
		// ---- response side ----
		if i < nResp {
			ups := make([]*dns.Upstream, len(mr.froms))
			for fi, f := range mr.froms {
				switch f {
				case "asis":
					ups[fi] = nil
				case "foreign":
					ups[fi] = foreign
				default:
					for ui, tg := range upTags {
						if tg == f {
							u, e := d.VerifUpstream(ui)
							if e != nil || tagOfUpstream(u) != f {
								r.Violation(fmt.Sprintf("leg=response cannot obtain upstream %s: %v %v", f, tagOfUpstream(u), e), text)
								return
							}
							ups[fi] = u
						}
					}
				}
			}
			local := map[string]int64{}
			nv := 0
			var nRule, nFb int64
			k := 0
			if pk, msg := vlib.Try(func() {
				for k = 0; k < len(mr.rin); k++ {
					in := &mr.rin[k]
					want, by := decideMask(respRules, respProg.Fallback, k)
					idx, up, rerr := d.ResponseSelect(ctx, in.msg, ups[in.from])
					got := respOutcome(idx, up, rerr)
					local[want]++
					if by >= 0 {
						nRule++
					} else {
						nFb++
					}
					if got != want && nv < 2 {
						nv++
						diag := diagOf(respProg, &in.Input, got)
						if caps.ok("response/"+diag, 4) {
							r.Violation(fmt.Sprintf("leg=response diag=%s program=[%s] input=%s(%s) want=%s got=%s", diag, respProg.Text(), in.Input, mr.froms[in.from], want, got),
								map[string]any{"config": text, "input": in.Input.String(), "from_object": mr.froms[in.from], "want": want, "got": got, "deciding_rule_index": by, "run": mr.name,
									"replay": replayRec{Kind: "response", NUp: mr.nUp, Program: respProg, Input: &in.Input, FromObject: mr.froms[in.from], Wide: in.wide}})
						}
					}
				}
			}); pk {
				if caps.ok(mr.name+"/resp-panic", 3) {
					r.Violation(fmt.Sprintf("leg=response ResponseSelect panic site=%s program=[%s] input=%s", vlib.PanicSite(msg), respProg.Text(), mr.rin[k].Input), map[string]any{"config": text, "panic": msg})
				}
			}
			evals.Add(nRule + nFb)
			respEvals.Add(nRule + nFb)
			nontriv.Add(nRule)
			byFallback.Add(nFb)
			hp.add(local)
			if i%30011 == 5 && len(respRules) > 0 {
				in := mr.rin[(i/5)%len(mr.rin)]
				w, by := refDecide(respProg, &in.Input)
				r.Sample(map[string]any{"leg": "response", "program": respProg.Text(), "input": in.Input.String(), "expected": w, "deciding_rule": by})
			}
		}
	})
	r.Set("expected_hist_request_"+mr.name, hq.m)
	r.Set("expected_hist_response_"+mr.name, hp.m)
}

// ---------- Leg 1c: daedns.Router (dae's own lookups use the same request rules) ----------

func runRouterSpace(r *vlib.Run, s *space) {
	n := s.count()
	evals := r.Counter("evaluations")
	routerEvals := r.Counter("router_evaluations")
	nontriv := r.Counter("cases_decided_by_a_rule")
	byFallback := r.Counter("cases_decided_by_fallback")
	progs := r.Counter("programs_router")
	r.ParallelFor(n, func(i int) {
		if overBudget() {
			r.CapHit("time budget share reached inside router leg")
			return
		}
		fb, rs := s.decode(i)
		p := progOf(fb, rs)
		text := confText(s.nUp, routerBlock(p), "      fallback: accept\n")
		rt, err := buildRouter(text)
		if err != nil || rt == nil {
			if caps.ok("router/build", 3) {
				r.Violation(fmt.Sprintf("leg=router build program=[%s] err=%v nil=%v", p.Text(), err, rt == nil), text)
			}
			return
		}
		progs.Add(1)
		nv := 0
		for k := range s.inputs {
			in := &s.inputs[k]
			if in.Name == "." {
				continue
			}
			want, by := decideMask(rs, fb, k)
			wantS := want
			if want == "asis" || want == "reject" {
				wantS = "passthrough" // both hand the lookup to the base resolver for dae's own lookups
			}
			got := routerOutcome(rt, in)
			evals.Add(1)
			routerEvals.Add(1)
			if by >= 0 {
				nontriv.Add(1)
			} else {
				byFallback.Add(1)
			}
			if got != wantS && nv < 2 {
				nv++
				diag := "other"
				if m, ch := mergedNegated(p); ch {
					if o, _ := refDecide(m, in); o == got || ((o == "asis" || o == "reject") && got == "passthrough") {
						diag = "merge-negated"
					}
				}
				if caps.ok("router/"+diag, 3) {
					r.Violation(fmt.Sprintf("leg=router diag=%s program=[%s] question=%s want=%s got=%s", diag, p.Text(), in, wantS, got),
						map[string]any{"config": text, "replay": replayRec{Kind: "router", NUp: s.nUp, Program: p, Input: in}})
				}
			}
		}
	})
}

func main() {
	r := vlib.Start("C07", "exploration")
	runRef = r
	if pf := os.Getenv("C07_PPROF"); pf != "" {
		f, _ := os.Create(pf)
		pprof.StartCPUProfile(f)
		go func() { time.Sleep(30 * time.Second); pprof.StopCPUProfile(); f.Close(); os.Exit(3) }()
	}
	// one parser run and two matchers per program: a high allocation rate over a tiny live heap; a larger growth
	// ratio keeps the number of GC cycles (which serialise the workers on the heap lock) down
	debug.SetGCPercent(800)
	if r.ReplayArg != "" {
		runReplay(r, r.ReplayArg)
		return
	}
	if os.Getenv("C07_ONLY_CONCURRENCY") != "" { // debugging aid: run only the concurrency leg
		concurrencyLeg(r)
		r.Finish()
	}
	if os.Getenv("C07_ONLY_LEG3") != "" { // debugging aid: run only the upstream-identity leg
		consts.MaxMatchSetLen = 64
		setShare(1.0)
		runLeg3(r)
		legDone("leg3_twins")
		r.Finish()
	}
	thorough := r.Thorough()
	r.Rule("Leg 1: every program (rule list of length 0..K over a closed rule pool = condition pool x outbound pool, x fallback pool) x every input of a closed input list; programs and inputs are enumerated without repetition, so every (program,input) case is distinct; a case is non-trivial when a rule (not the fallback) decides it. Leg 2: every (response program, request route, answer table) x question through the real DnsController; non-trivial when the reference chain re-asks or ends in a reject. Leg 3: every (upstream set of twins, request route, response program, answer table, order of the question list) history through the real DnsController; an ask is non-trivial when an earlier question of the same history was sent to another upstream of the set. distinct_nontrivial = the sum of the three counts.")

	nUp := 2
	if thorough {
		nUp = 3
	}
	// ----- request pools -----
	reqIn := requestInputs()
	qnAtoms := []Cond{
		qn(false, "full", "a.com"),
		qn(false, "suffix", "b.org"),
		qn(false, "keyword", "goo"),
		qn(false, "regex", "^yes"),
		qn(false, "full", "a.com", "full", "x.net"),
		qn(false, "suffix", "b.org", "keyword", "goo"),
		qn(false, "full", "a.com", "regex", "^yes"),
	}
	qtAtoms := []Cond{
		plain("qtype", false, "a"), plain("qtype", false, "aaaa"), plain("qtype", false, "a", "aaaa"),
		plain("qtype", false, "https"), plain("qtype", false, "65"), plain("qtype", false, "28"), plain("qtype", false, "255"),
	}
	var reqSingles []Cond
	reqSingles = append(append(reqSingles, qnAtoms...), qtAtoms...)
	for _, c := range append(append([]Cond{}, qnAtoms...), qtAtoms...) {
		reqSingles = append(reqSingles, neg(c))
	}
	QN := []Cond{qnAtoms[0], qnAtoms[1], neg(qnAtoms[2]), qnAtoms[3], qnAtoms[5], neg(qnAtoms[1])}
	QT := []Cond{qtAtoms[0], neg(qtAtoms[1]), qtAtoms[2], qtAtoms[4], neg(qtAtoms[2])}
	var reqCondSets [][]Cond
	reqCondSets = append(reqCondSets, singlesOf(reqSingles)...)
	reqCondSets = append(reqCondSets, crossConds(QN, QT)...)
	reqCondSets = append(reqCondSets, []Cond{QT[0], QN[0]}, []Cond{QT[1], QN[2]}, []Cond{QT[4], QN[5]}) // written qtype-first
	reqCondSets = append(reqCondSets, []Cond{QN[1], neg(QN[3])}, []Cond{neg(QN[0]), QN[2]})             // qname && qname
	reqCondSets = append(reqCondSets, []Cond{neg(QT[0]), QT[1]}, []Cond{QT[0], neg(QT[3])})             // qtype && qtype
	reqOuts := append(append([]string{}, upTags[:nUp]...), "asis", "reject")
	reqRules := mkRules(reqCondSets, reqOuts, reqIn)
	reqFb2 := []string{"asis", "ua"} // fallbacks of the 2-rule programs in quick
	if thorough {
		reqFb2 = reqOuts
	}
	r.Set("request_rule_pool", len(reqRules))
	r.Set("request_inputs", len(reqIn))

	// ----- response pools -----
	respNames := []string{"a.com.", "W.B.oRg.", "goo.net."}
	respQt := []uint16{1, 28, 65}
	poolN := 4
	froms := []string{"ub", "ua", "asis"}
	if thorough {
		poolN = 5
		froms = []string{"ub", "ua", "asis", "foreign"}
	}
	rin := responseInputs(respNames, respQt, poolN, froms)
	plainIn := make([]Input, len(rin))
	for i := range rin {
		plainIn[i] = rin[i].Input
	}
	ipIn := plain("ip", false, "10.0.0.0/8")
	ipMix := plain("ip", false, "10.0.0.0/8", "2001:db8::/32")
	ipHost := plain("ip", false, "8.8.8.8")
	ip6 := plain("ip", false, "2001:db8::/32")
	upB := plain("upstream", false, "ub")
	upA := plain("upstream", false, "ua")
	upBA := plain("upstream", false, "ub", "ua")
	rQN := []Cond{qn(false, "full", "a.com"), qn(false, "suffix", "b.org"), qn(true, "keyword", "goo"), qn(false, "suffix", "b.org", "keyword", "goo")}
	rQT := []Cond{plain("qtype", false, "a"), plain("qtype", true, "aaaa"), plain("qtype", false, "65"), plain("qtype", false, "a", "28")}
	rIP := []Cond{ipIn, neg(ipIn), ipMix, neg(ipMix), ipHost, ip6}
	rUP := []Cond{upB, upA, neg(upB), upBA, neg(upBA)}
	var respCondSets [][]Cond
	respCondSets = append(respCondSets, singlesOf(rUP)...)
	respCondSets = append(respCondSets, singlesOf(rIP)...)
	respCondSets = append(respCondSets, singlesOf(rQT)...)
	respCondSets = append(respCondSets, singlesOf(rQN)...)
	respCondSets = append(respCondSets, crossConds(rIP[:4], rQN[:3])...)                         // the documented shape: ip(...) && !qname(...)
	respCondSets = append(respCondSets, crossConds(rIP[:3], rUP[:3])...)                         // ip && upstream
	respCondSets = append(respCondSets, crossConds(rUP[:3], rQT[:3])...)                         // upstream && qtype
	respCondSets = append(respCondSets, crossConds(rQN[:2], rQT[:2])...)                         // qname && qtype
	respCondSets = append(respCondSets, []Cond{neg(ipIn), neg(ip6)}, []Cond{neg(upB), neg(upA)}) // same function twice
	respOuts := append([]string{"accept", "reject"}, upTags[:nUp]...)
	respRules := mkRules(respCondSets, respOuts, plainIn)
	respFb2 := []string{"accept", "ua"}
	if thorough {
		respFb2 = []string{"reject", "ua"}
	}
	r.Set("response_rule_pool", len(respRules))
	r.Set("response_inputs", len(rin))

	// ----- Pass 0 (production match-set length 1024): every program with <=1 rule, every fallback -----
	// cumulative shares of the tier budget: <=1-rule full-size pass | interleaved + router | leg 2 | leg 3 | 2-rule bulk | 3-rule bulk
	// (in seconds of the quick budget: 30 | 45 | 90 | 110 | 170; in minutes of the thorough budget: 1.12 | 1.68 | 5.32 | 7.32 | 13.2 | 16)
	shares := []float64{30.0 / 170, 45.0 / 170, 90.0 / 170, 110.0 / 170, 1.0, 1.0}
	if thorough {
		shares = []float64{1.12 / 16, 1.68 / 16, 5.32 / 16, 7.32 / 16, 13.2 / 16, 1.0}
	}
	setShare(shares[0])
	(&matcherRun{name: "upto1rule_fullsize", nUp: nUp, rin: rin, froms: froms,
		req:  &space{name: "request", nUp: nUp, inputs: reqIn, rules: reqRules, fallbacks: reqOuts, maxRules: 1},
		resp: &space{name: "response", nUp: nUp, inputs: plainIn, rules: respRules, fallbacks: respOuts, maxRules: 1}}).run(r)
	legDone("leg1_upto1rule_fullsize")
	// The bulk runs with consts.MaxMatchSetLen = 64 (the build-time knob MaxMatchSetLen_ of common/consts/ebpf.go):
	// the matchers allocate 5 arrays of that length per program, which otherwise dominates the run time.
	consts.MaxMatchSetLen = 64

	setShare(shares[1])
	// reduced pools: internal selectors interleaved (all 1..2-rule programs) and the router leg
	redConds := [][]Cond{{QN[1]}, {QN[2]}, {neg(QN[0])}, {QT[0]}, {QT[1]}, {QT[4]}, {neg(QT[3])}, {QN[3], QT[2]}, {QN[5], QT[1]}, {QN[4]}}
	redOuts := []string{"ub", "ua", "reject"}
	redRules := mkRules(redConds, redOuts, reqIn)
	(&matcherRun{name: "interleaved", nUp: 2, interleave: true,
		req: &space{name: "request_interleaved", nUp: 2, inputs: reqIn, rules: redRules, fallbacks: []string{"ub", "asis", "reject"}, minRules: 1, maxRules: 2}}).run(r)
	routerSpace := &space{name: "router", nUp: 2, inputs: reqIn, fallbacks: []string{"ub", "asis", "reject"}, minRules: 1, maxRules: 2, rules: redRules}
	if !thorough {
		routerSpace.rules = mkRules(redConds[:7], redOuts, reqIn)
	}
	legDone("leg1_interleaved")
	runRouterSpace(r, routerSpace)
	legDone("leg1c_router")
	runRouterLookupLeg(r, routerSpace)
	legDone("leg1d_router_lookup")

	// ----- Leg 2 (before the 2-rule bulk of leg 1, so that it always gets its share) -----
	setShare(shares[2])
	runLeg2(r)
	legDone("leg2_flow")

	// ----- Leg 3: upstream identity (twin upstream sets x question orders) -----
	setShare(shares[3])
	runLeg3(r)
	legDone("leg3_twins")

	// ----- Leg 1 bulk: every 2-rule program -----
	setShare(shares[4])
	(&matcherRun{name: "2rules", nUp: nUp, rin: rin, froms: froms,
		req:  &space{name: "request", nUp: nUp, inputs: reqIn, rules: reqRules, fallbacks: reqFb2, minRules: 2, maxRules: 2},
		resp: &space{name: "response", nUp: nUp, inputs: plainIn, rules: respRules, fallbacks: respFb2, minRules: 2, maxRules: 2}}).run(r)
	legDone("leg1_2rules")
	if thorough {
		setShare(shares[5])
		red := [][]Cond{{upB}, {neg(upA)}, {ipIn}, {neg(ipMix)}, {rQT[1]}, {rQN[1]}, {ipIn, rQN[2]}, {upA, rQT[0]}}
		(&matcherRun{name: "3rules", nUp: nUp, rin: rin, froms: froms,
			req:  &space{name: "request3", nUp: nUp, inputs: reqIn, rules: mkRules(redConds, append(redOuts, "asis"), reqIn), fallbacks: []string{"ub", "asis", "reject"}, minRules: 3, maxRules: 3},
			resp: &space{name: "response3", nUp: nUp, inputs: plainIn, rules: mkRules(red, []string{"accept", "reject", "ub", "ua"}, plainIn), fallbacks: []string{"accept", "reject", "ua"}, minRules: 3, maxRules: 3}}).run(r)
	}

	if thorough {
		legDone("leg1_3rules")
	}
	nt := r.Counter("cases_decided_by_a_rule").Load() + r.Counter("leg2_questions_with_reask_or_reject").Load() + r.Counter("leg3_asks_after_another_upstream_of_the_set_was_used").Load()
	r.Set("distinct_nontrivial", nt)
	r.Assume("all programs with <=1 rule run with the production match-set length 1024; programs with 2..3 rules run with consts.MaxMatchSetLen=64 (a supported build-time knob) because the matcher allocates arrays of that length per program; rule indices stay far below both")
	r.Assume("legs 1 and 2: upstreams are IP literals (udp://192.0.2.x, tcp://192.0.2.3): no bootstrap resolver, no network (leg 3 varies the upstream set, see there); dns.New's optimizer chain (DatReader, MergeAndSort, DeduplicateParams) runs exactly as in production but geosite/geoip references are not part of the grammar")
	r.Assume("qname patterns are lower-case and inside the documented alphabet (pattern-kind semantics for odd patterns is C11's subject); v4-mapped IPv6 answer addresses are not in the answer pool")
	r.Assume("upstream(<reserved word>) conditions (upstream(accept), upstream(reject), upstream(asis)) are outside the grammar: the statement does not define them")
	r.Assume("2-rule programs: quick uses request fallbacks {asis, ua} and response fallbacks {accept, ua}; thorough uses all request fallbacks and response fallbacks {reject, ua}; programs with <=1 rule use every fallback; thorough has 3 upstreams, quick 2")
	r.Assume("Leg 1c: a daedns.Router is only built when at least one request rule exists (daedns.New returns nil otherwise), so rule-less programs are not exercised there; asis and reject both mean 'hand over to the base resolver' for dae's own lookups")
	concurrencyLeg(r)
	r.Finish()
}

// concurrencyLeg: first use of an upstream by several handlers at once (engine S, in-process): every interleaving of
// 2 (quick) / 3 (thorough) threads through RequestSelect -> lazy UpstreamResolver.GetUpstream -> ResponseSelect with up to 2 preemptions.
func concurrencyLeg(r *vlib.Run) {
	threads := 2
	bounds := []vsched.Bound{{Preempt: 0}, {Preempt: 1}, {Preempt: 2}}
	if r.Thorough() {
		threads = 3
	}
	sc := dns.VerifUpstreamRaceScenario(threads, quietLogger())
	e := &vsched.Explorer{Sc: sc, Bounds: bounds, Deadline: time.Now().Add(r.Budget(60*time.Second, 5*time.Minute))}
	st := e.Explore()
	r.Set("concurrency_leg_executions", st.Executions)
	r.Set("concurrency_leg_decisions", st.Steps)
	r.Set("concurrency_leg_distinct_outcomes", len(st.OutcomeHashes))
	r.Set("concurrency_leg_bound_completed", st.BoundCompleted)
	if !st.Exhaustive {
		r.CapHit("concurrency leg: time budget")
	}
	for i := range st.Violations {
		v := st.Violations[i]
		if !e.Confirm(&v, 5) {
			fmt.Fprintln(os.Stderr, "concurrency leg: schedule did not reproduce (harness nondeterminism):", v.Sig)
			os.Exit(2)
		}
		r.Violation("concurrency "+sc.Name+": "+v.Sig, map[string]any{"schedule": v.Schedule, "bound": v.Bound, "detail": v.Detail, "trace": v.Trace})
	}
	r.Assume("concurrency leg: scheduling points at sync/atomic operations of component/dns/{upstream.go,dns.go}; 2-3 handler threads; sequential consistency")
}
