//go:build verif

// C19 harness inside package control: raw bytes of the keys / values the control plane computes, produced by the
// production functions themselves, plus the sizes of the Go types the control plane passes to each kernel map.
package control

import (
	"net"
	"net/netip"
	"unsafe"

	"github.com/daeuniverse/dae/common"
	"github.com/daeuniverse/dae/common/consts"
	"github.com/daeuniverse/dae/component/outbound/dialer"
	dnsmessage "github.com/miekg/dns"
)

func verifC19Bytes[T any](v *T) []byte {
	return append([]byte(nil), unsafe.Slice((*byte)(unsafe.Pointer(v)), unsafe.Sizeof(*v))...)
}

// VerifC19TuplesKey = bytes of bpfTuplesKeyFromAddrPorts(src, dst, l4proto) (the conn_state_map /
// routing_handoff_map lookup key of RetrieveRoutingResult).
func VerifC19TuplesKey(src, dst netip.AddrPort, l4proto uint8) []byte {
	k := bpfTuplesKeyFromAddrPorts(src, dst, l4proto)
	return verifC19Bytes(&k)
}

// VerifC19ConnectivityKey = outboundConnectivityMapKey for (outbound, l4proto, ipversion, udp health domain) and the
// bytes ebpf.Map.Update would marshal for it (a uint32 in host order).
func VerifC19ConnectivityKey(outbound uint8, udp bool, ipv6 bool, dnsDomain bool) (uint32, []byte) {
	nt := &dialer.NetworkType{L4Proto: consts.L4ProtoStr_TCP, IpVersion: consts.IpVersionStr_4}
	if udp {
		nt.L4Proto = consts.L4ProtoStr_UDP
		nt.UdpHealthDomain = dialer.UdpHealthDomainData
		if dnsDomain {
			nt.UdpHealthDomain = dialer.UdpHealthDomainDns
			nt.IsDns = true
		}
	}
	if ipv6 {
		nt.IpVersion = consts.IpVersionStr_6
	}
	k := outboundConnectivityMapKey(outbound, nt)
	return k, verifC19Bytes(&k)
}

// VerifC19ConnectivitySlots = the Go constants behind the slot formula.
func VerifC19ConnectivitySlots() (perOutbound, perDomain, tcp, dnsUdp, dataUdp uint32) {
	return outboundConnectivitySlotsPerOutbound, outboundConnectivitySlotsPerDomain,
		outboundConnectivityDomainTCP, outboundConnectivityDomainDnsUDP, outboundConnectivityDomainDataUDP
}

// VerifC19LpmKey = bytes of cidrToBpfLpmKey(prefix).
func VerifC19LpmKey(p netip.Prefix) []byte {
	k := cidrToBpfLpmKey(p)
	return verifC19Bytes(&k)
}

// VerifC19DomainRouting runs the production buildDomainRoutingOwnerSnapshot on a DNS cache entry that answers with
// addrs and carries the given rule bitmap; it returns the domain_routing_map keys (in the order of addrs, as
// computed by the production expression) and the value bytes.
func VerifC19DomainRouting(addrs []netip.Addr, bitmap []uint32) (keys [][]byte, value []byte, err error) {
	cache := &DnsCache{DomainBitmap: bitmap}
	for _, a := range addrs {
		if a.Is4() {
			cache.Answer = append(cache.Answer, &dnsmessage.A{Hdr: dnsmessage.RR_Header{Name: "x.", Rrtype: dnsmessage.TypeA, Class: dnsmessage.ClassINET, Ttl: 60}, A: net.IP(a.AsSlice())})
		} else {
			cache.Answer = append(cache.Answer, &dnsmessage.AAAA{Hdr: dnsmessage.RR_Header{Name: "x.", Rrtype: dnsmessage.TypeAAAA, Class: dnsmessage.ClassINET, Ttl: 60}, AAAA: net.IP(a.AsSlice())})
		}
	}
	snap, err := buildDomainRoutingOwnerSnapshot(cache)
	if err != nil {
		return nil, nil, err
	}
	// the keys of the snapshot, re-associated with the input order through the same production helper chain
	for _, ip := range extractIPsFromDnsCache(cache) {
		ip6 := ip.As16()
		k := common.Ipv6ByteSliceToUint32Array(ip6[:])
		if _, ok := snap.ips[k]; !ok {
			keys = append(keys, nil)
			continue
		}
		keys = append(keys, verifC19Bytes(&k))
	}
	value = verifC19Bytes(&snap.bitmap)
	return keys, value, nil
}

// VerifC19PortRange = bytes the builder writes into match_set.__value for a port range.
func VerifC19PortRange(start, end uint16) []byte {
	b := bpfPortRange{PortStart: start, PortEnd: end}.Encode()
	return b[:]
}

// VerifC19RoutingResultFromConnState decodes conn_state_map value bytes with the production struct and function.
type VerifC19Decoded struct {
	Mark     uint32
	Must     uint8
	Outbound uint8
	Mac      [6]uint8
	Dscp     uint8
	Pname    [16]uint8
	Pid      uint32
	HasRouting uint8
	State      uint8
	IsWanIngress bool
	LastSeenNs uint64
}

func VerifC19DecodeConnState(b []byte) (d VerifC19Decoded, ok bool) {
	var cs bpfConnState
	if uintptr(len(b)) != unsafe.Sizeof(cs) {
		return d, false
	}
	copy(unsafe.Slice((*byte)(unsafe.Pointer(&cs)), unsafe.Sizeof(cs)), b)
	rr := routingResultFromConnState(cs.Meta.Data.Mark, cs.Meta.Data.Must, cs.Meta.Data.Outbound, cs.Mac, cs.Meta.Data.Dscp, cs.Pname, cs.Pid)
	return VerifC19Decoded{Mark: rr.Mark, Must: rr.Must, Outbound: rr.Outbound, Mac: rr.Mac, Dscp: rr.Dscp, Pname: rr.Pname, Pid: rr.Pid,
		HasRouting: cs.Meta.Data.HasRouting, State: cs.State, IsWanIngress: cs.IsWanIngressDirection, LastSeenNs: cs.LastSeenNs}, true
}

func VerifC19DecodeHandoff(b []byte) (d VerifC19Decoded, ok bool) {
	var e bpfRoutingHandoffEntry
	if uintptr(len(b)) != unsafe.Sizeof(e) {
		return d, false
	}
	copy(unsafe.Slice((*byte)(unsafe.Pointer(&e)), unsafe.Sizeof(e)), b)
	rr := routingResultFromConnState(e.Result.Mark, e.Result.Must, e.Result.Outbound, e.Result.Mac, e.Result.Dscp, e.Result.Pname, e.Result.Pid)
	return VerifC19Decoded{Mark: rr.Mark, Must: rr.Must, Outbound: rr.Outbound, Mac: rr.Mac, Dscp: rr.Dscp, Pname: rr.Pname, Pid: rr.Pid, LastSeenNs: e.LastSeenNs}, true
}

// VerifC19MatchSet = bytes of a bpfMatchSet as the builder would store it in routing_map.
func VerifC19MatchSet(value [16]byte, not bool, typ consts.MatchType, outbound uint8, must bool, mark uint32) []byte {
	m := bpfMatchSet{Value: value, Type: uint8(typ), Outbound: outbound, Mark: mark}
	if not {
		m.Not = 1
	}
	if must {
		m.Must = 1
	}
	return verifC19Bytes(&m)
}

// VerifC19MapAssume: what the control plane's Go code passes to / assumes about a kernel map, with the code site.
// Sizes are computed by the Go compiler from the very types the production code uses (scratch slices of the
// janitor, return types of the key constructors, package constants).
type VerifC19MapAssume struct {
	Map        string
	KeySize    uintptr // 0 = Go does not touch keys of this map
	ValueSize  uintptr // 0 = Go does not touch values
	MaxEntries int64   // <0 = no assumption; >=0 = Go relies on the map holding at least/exactly this many (see Rel)
	Rel        string  // "==" or ">=" for MaxEntries
	Site       string
}

func verifC19Elem[T any](_ []T) uintptr { var z T; return unsafe.Sizeof(z) }

func VerifC19MapAssumptions() []VerifC19MapAssume {
	var js connStateJanitorScratch
	var u32 uint32
	var u64 uint64
	ck, _ := VerifC19ConnectivityKey(0, false, false, false)
	var domKey [4]uint32 = common.Ipv6ByteSliceToUint32Array(make([]byte, 16))
	slots, _, _, _, _ := VerifC19ConnectivitySlots()
	return []VerifC19MapAssume{
		{"conn_state_map", verifC19Elem(js.udpKeys), verifC19Elem(js.udpValues), defaultConnStateMapMaxEntries, "==", "datapath_janitor.go connStateJanitorScratch.udpKeys/udpValues; utils.go retrieveEmbeddedRoutingResult; bpf_utils.go defaultConnStateMapMaxEntries"},
		{"routing_handoff_map", verifC19Elem(js.routingHandoffKeys), verifC19Elem(js.routingHandoffValues), -1, "", "datapath_janitor.go routingHandoffKeys/Values; utils.go retrieveRoutingHandoffResult"},
		{"redirect_track", verifC19Elem(js.redirectKeys), verifC19Elem(js.redirectValues), -1, "", "datapath_janitor.go redirectKeys/Values"},
		{"cookie_pid_map", verifC19Elem(js.cookiePidKeys), verifC19Elem(js.cookiePidValues), -1, "", "datapath_janitor.go cookiePidKeys/Values"},
		{"domain_routing_map", unsafe.Sizeof(domKey), unsafe.Sizeof(bpfDomainRouting{}), -1, "", "domain_routing_tracker.go (key [4]uint32 from Ipv6ByteSliceToUint32Array, value bpfDomainRouting)"},
		{"routing_map", verifC19Elem(common.ARangeU32(0)), unsafe.Sizeof(bpfMatchSet{}), int64(consts.MaxMatchSetLen), "==", "routing_matcher_builder.go buildRoutingKernspace (keys ARangeU32, values []bpfMatchSet, limit consts.MaxMatchSetLen)"},
		{"routing_meta_map", unsafe.Sizeof(u32), unsafe.Sizeof(u32), 1, ">=", "routing_matcher_builder.go RoutingMetaMap.Update(uint32(0), routingsLen uint32)"},
		{"outbound_connectivity_map", unsafe.Sizeof(ck), unsafe.Sizeof(u32), 256 * int64(slots), "==", "connectivity.go outboundAliveChangeCallback (key outboundConnectivityMapKey, value uint32; 256 outbound ids x slots per outbound)"},
		{"lpm_array_map", unsafe.Sizeof(u32), unsafe.Sizeof(u32), int64(consts.MaxMatchSetLen), ">=", "routing_matcher_builder.go LpmArrayMap.Update(lpmIndex uint32, inner map fd); ring indices are taken mod consts.MaxMatchSetLen"},
		{"unused_lpm_type", unsafe.Sizeof(_bpfLpmKey{}), unsafe.Sizeof(u32), -1, "", "bpf_utils.go newLpmMap (keys []_bpfLpmKey, values []uint32)"},
		{"listen_socket_map", unsafe.Sizeof(consts.ZeroKey), unsafe.Sizeof(u64), 3, ">=", "control_plane.go ListenSocketMap.Update(consts.ZeroKey/OneKey/TwoKey, uint64(fd))"},
		{"bpf_stats_map", unsafe.Sizeof(u32), unsafe.Sizeof(u64), 2, ">=", "control_plane.go readBpfStatsCounter(m, 0|1) (key uint32, value uint64)"},
		{"fast_sock", 0, 0, fastSockPlaceholderMaxEntries, "==", "bpf_utils.go tunePlaceholderBpfMaps"},
	}
}

// VerifC19ListenKeys = the listen_socket_map slots the control plane writes (tcp4, udp, tcp6).
func VerifC19ListenKeys() (tcp4, udp, tcp6 uint32) {
	return uint32(consts.ZeroKey), uint32(consts.OneKey), uint32(consts.TwoKey)
}
