#!/usr/bin/env python3
"""Regenerates /verif/MANIFEST.json from checks/<ID>/meta.json (claimed) and tools/not_applicable.json."""
import json, os
V = '/verif'
props = [json.loads(l)['id'] for l in open(f'{V}/properties.jsonl')]
na_reasons = {}
try:
    na_reasons = json.load(open(f'{V}/tools/not_applicable.json'))
except FileNotFoundError:
    pass
engines = json.load(open(f'{V}/tools/engines.json'))
allow = set(open(f'{V}/tools/claimed.txt').read().split())
m = {
 "version": 1,
 "setup_cmd": "/verif/setup.sh",
 "hooks": json.load(open(f'{V}/tools/hooks.json')),
 "engines": engines,
 "checks": [],
 "notes": "Every check is /verif/run <ID> <tier>: it regenerates a go build overlay from /repo's current working tree (harness injection, real-mode bindings, engine-S source rewriting), builds with -tags verif and runs the explorer. /repo is never written by a check.",
 "not_applicable": [],
}
for e in engines:
    e['serves_properties'] = []
for p in props:
    mp = f'{V}/checks/{p}/meta.json'
    if os.path.exists(mp) and os.path.exists(f'{V}/checks/{p}/main/main.go'):
        c = json.load(open(mp))
        if p in allow:
            m['checks'].append({
                "property_id": p, "quick_cmd": f"/verif/run {p} quick", "thorough_cmd": f"/verif/run {p} thorough",
                "evidence_file": f"/verif/evidence/{p}.json", "replay_cmd_template": f"/verif/run {p} quick --replay {{path}}",
                "engine": c.get('engine', 'vbuild+seqx'),
                "level_claimed": {"category": c['category'], "text": c['text'], "design_ref": c.get('design_ref', 'DESIGN.md')},
                "level_note": c['note'], "technique": c['technique']})
            for e in engines:
                if e['name'] in c.get('engine', 'vbuild+seqx').split('+') or e['name'] == c.get('engine'):
                    e['serves_properties'].append(p)
            continue
    m['not_applicable'].append({"property_id": p, "reason": na_reasons.get(p, "not built yet: applicable in principle (see DESIGN.md), check under construction")})
json.dump(m, open(f'{V}/MANIFEST.json', 'w'), indent=1)
print("claimed:", [c['property_id'] for c in m['checks']])
