package main

import (
	"fmt"
	"sort"
)

// ---- TLS ------------------------------------------------------------------------------------------------------------

var sniShapes = [][]sniEntry{
	{{0, "a.example.com"}},
	{{0, "A.Example.COM"}},
	{{0, "a.example.com."}},
	{},
	{{1, "xx"}, {0, "b.example.org"}},
	{{0, "b.example.org"}, {1, "xx"}},
	{{0, "a.example.com"}, {0, "b.example.org"}},
	{{1, "xx"}},
}

func genHellos() []helloSpec {
	var out []helloSpec
	orders := permsUpTo(nExtKinds, 4)
	for _, ver := range []int{12, 13} {
		for _, sid := range []int{0, 32} {
			for nCS := 1; nCS <= 3; nCS++ {
				for _, ord := range orders {
					hasSNI := false
					for _, k := range ord {
						if k == extSNI {
							hasSNI = true
						}
					}
					if !hasSNI {
						out = append(out, helloSpec{ver: ver, sidLen: sid, nCS: nCS, exts: ord})
						continue
					}
					for _, shape := range sniShapes {
						out = append(out, helloSpec{ver: ver, sidLen: sid, nCS: nCS, exts: ord, sni: shape})
					}
				}
				out = append(out, helloSpec{ver: ver, sidLen: sid, nCS: nCS, noExtBlock: true})
			}
		}
	}
	return out
}

func legTLS(thorough bool) {
	hellos := genHellos()
	streams := make([][]byte, len(hellos))
	verds := make([]verdict, len(hellos))
	seen := map[string]bool{}
	required := 0
	for i, h := range hellos {
		streams[i] = tlsRecord(h.ver, buildHello(h).hs)
		verds[i] = refTLSStream(cat(streams[i], later1, later2))
		seen[string(streams[i])] = true
		if verds[i].required {
			required++
		}
	}
	R.Set("tls_hellos", len(hellos))
	R.Set("tls_hellos_distinct", len(seen))
	R.Set("tls_hellos_with_required_name", required)
	for _, i := range []int{0, len(hellos) / 2, len(hellos) - 2} {
		R.Sample(map[string]any{"leg": "tls", "hello": hellos[i].String(), "record": hx(streams[i]), "reference_name": verds[i].name, "required": verds[i].required})
	}
	cases := R.Counter("tls_cases")
	R.ParallelFor(len(hellos), func(i int) {
		s := streams[i]
		L := len(s)
		v := &verds[i]
		desc := hellos[i].String()
		run := func(cuts []int, runOn bool) {
			var chunks [][]byte
			prev := 0
			for _, c := range cuts {
				chunks = append(chunks, s[prev:c])
				prev = c
			}
			last := s[prev:]
			if runOn {
				chunks = append(chunks, cat(last, later1), later2)
			} else {
				chunks = append(chunks, last, later1, later2)
			}
			cases.Add(1)
			distinctExtra.Add(1)
			runTCP(tcpOpts{leg: "tls", key: func() string { return fmt.Sprintf("%05d|%v|%v", i, cuts, runOn) }, desc: func() string { return fmt.Sprintf("{%s} cuts=%v runon=%v", desc, cuts, runOn) }, recognise: true, routes: allRoutes}, chunks, v)
		}
		for _, runOn := range []bool{false, true} {
			run(nil, runOn)
			for c := 5; c < L; c++ {
				run([]int{c}, runOn)
			}
		}
		if thorough && hellos[i].sidLen == 0 && hellos[i].nCS == 1 {
			for c1 := 5; c1 < L; c1++ {
				for c2 := c1 + 1; c2 < L; c2++ {
					run([]int{c1, c2}, false)
				}
			}
		}
	})
	// a ClientHello spread over two records (legal TLS, not covered by the recognition clause): safety only
	mr := R.Counter("tls_multirecord_cases")
	var idx []int
	for i, h := range hellos {
		if h.sidLen == 32 && h.nCS == 2 && len(h.exts) == 3 && len(h.sni) == 1 {
			idx = append(idx, i)
		}
	}
	R.ParallelFor(len(idx), func(k int) {
		i := idx[k]
		hs := streams[i][5:]
		for c := 1; c < len(hs); c++ {
			st := cat(tlsRecord(hellos[i].ver, hs[:c]), tlsRecord(hellos[i].ver, hs[c:]))
			v := refTLSStream(cat(st, later1, later2))
			mr.Add(1)
			distinct(fnv(st, []byte("mr")))
			runTCP(tcpOpts{leg: "tls-multirecord", key: func() string { return fmt.Sprintf("%05d|%04d", i, c) }, desc: func() string { return fmt.Sprintf("{%s} handshake split over two records at %d", hellos[i].String(), c) }, routes: []int{0, 3}}, [][]byte{st, later1, later2}, &v)
		}
	})
}

// ---- HTTP -----------------------------------------------------------------------------------------------------------

func legHTTP() {
	heads := genHTTPHeads()
	R.Set("http_heads", len(heads))
	req := 0
	verds := make([]verdict, len(heads))
	for i, h := range heads {
		verds[i] = refHTTPStream(cat(h.data, later1, later2))
		if verds[i].required {
			req++
		}
	}
	R.Set("http_heads_with_required_name", req)
	R.Sample(map[string]any{"leg": "http", "head": string(heads[3].data), "reference_name": verds[3].name})
	cases := R.Counter("http_cases")
	R.ParallelFor(len(heads), func(i int) {
		h := heads[i]
		cases.Add(1)
		distinct(fnv(h.data, []byte("http1")))
		runTCP(tcpOpts{leg: "http", key: func() string { return fmt.Sprintf("%05d", i) }, desc: func() string { return fmt.Sprintf("%q", h.data) }, recognise: true, routes: allRoutes},
			[][]byte{h.data, later1, later2}, &verds[i])
	})
	// heads cut into two reads: recognition is not promised, but a reported name must still be the carried one
	var two []httpCase
	for _, host := range []string{"example.com", "ExAmple.COM", "example.com:8080", "example.com.", "[2001:db8::1]:443", "[::1]", "10.0.0.1:80"} {
		two = append(two, httpCase{"2reads host=" + host, []byte("GET /index.html HTTP/1.1\r\nUser-Agent: curl/8\r\nHost: " + host + "\r\nAccept: */*\r\n\r\n")})
	}
	cases2 := R.Counter("http_two_read_cases")
	R.ParallelFor(len(two), func(i int) {
		d := two[i].data
		v := refHTTPStream(d)
		for c := 1; c < len(d); c++ {
			cases2.Add(1)
			distinctExtra.Add(1)
			runTCP(tcpOpts{leg: "http-2reads", key: func() string { return fmt.Sprintf("%02d|%04d", i, c) }, desc: func() string { return fmt.Sprintf("%q | %q", d[:c], d[c:]) }, routes: allRoutes}, [][]byte{d[:c], d[c:]}, &v)
		}
	})
}

// ---- QUIC -----------------------------------------------------------------------------------------------------------

var quicHellos = []helloSpec{
	{ver: 13, nCS: 2, exts: []int{extSNI, extALPN, extSV}, sni: []sniEntry{{0, "quic.example.com"}}, quicTP: true},
	{ver: 13, nCS: 3, exts: []int{extGREASE, extPAD, extSV, extSNI}, sni: []sniEntry{{0, "Upper.Example.ORG"}}, quicTP: true},
}

var quicDcid = unhex("8394c8f03e515708")

func padFrames(pattern int, frames [][]byte) []byte {
	var p []byte
	ping := []byte{1}
	switch pattern {
	case 0:
		p = cat(frames...)
	case 1:
		p = cat(append([][]byte{{0, 0, 0}}, frames...)...)
	case 2:
		for i, f := range frames {
			if i > 0 {
				p = append(p, ping...)
			}
			p = append(p, f...)
		}
	case 3:
		p = append(cat(frames...), 0, 0, 0, 0, 0)
	case 4:
		p = append(p, ping...)
		for i, f := range frames {
			if i > 0 {
				p = append(p, 0, 0)
			}
			p = append(p, f...)
		}
		p = append(p, 1, 0, 0, 0, 0)
	}
	if len(frames) == 0 || len(p) < 4 {
		p = append(p, 1, 0, 0, 0, 0, 0, 0, 0)
	}
	return p
}

type quicLayout struct {
	name   string
	groups [][]int // frame indexes (positions in the emission order) per packet
	dgram  []int   // datagram index per packet
}

func layoutsFor(k int) []quicLayout {
	all := make([]int, k)
	for i := range all {
		all[i] = i
	}
	out := []quicLayout{{"1pkt", [][]int{all}, []int{0}}}
	var splits [][2][]int
	if k == 1 {
		splits = append(splits, [2][]int{all, nil}, [2][]int{nil, all})
	}
	for s := 1; s < k; s++ {
		splits = append(splits, [2][]int{all[:s], all[s:]})
	}
	for _, sp := range splits {
		out = append(out, quicLayout{fmt.Sprintf("coalesced%d+%d", len(sp[0]), len(sp[1])), [][]int{sp[0], sp[1]}, []int{0, 0}})
		out = append(out, quicLayout{fmt.Sprintf("2dgrams%d+%d", len(sp[0]), len(sp[1])), [][]int{sp[0], sp[1]}, []int{0, 1}})
	}
	return out
}

func buildQuicSequence(v qver, hi int, segs []cseg, order []int, pattern int, lay quicLayout) [][]byte {
	var dgrams [][]byte
	for pi, g := range lay.groups {
		var frames [][]byte
		for _, pos := range g {
			s := segs[order[pos]]
			frames = append(frames, frCrypto(s.off, s.data))
		}
		spec := pktSpec{v: v, dcid: quicDcid, pn: uint32(pi), pnLen: 1 + (pattern+pi)%4, payload: padFrames(pattern, frames)}
		if hi == 1 {
			spec.scid = []byte{0xc1, 0xc2, 0xc3, 0xc4, 0xc5}
		}
		if len(lay.groups) == 2 && lay.dgram[1] == 0 {
			spec.token = []byte{0x74, 0x6f, 0x6b}
		}
		pkt := encodeInitial(spec)
		if lay.dgram[pi] < len(dgrams) {
			dgrams[lay.dgram[pi]] = append(dgrams[lay.dgram[pi]], pkt...)
		} else {
			dgrams = append(dgrams, pkt)
		}
	}
	return dgrams
}

func legQUIC(thorough bool) {
	cases := R.Counter("quic_cases")
	perms := [][][]int{nil, permutations(1), permutations(2), permutations(3)}
	type job struct {
		v       qver
		hi      int
		cuts    []int
		overlap bool // cuts = {a, b}, a < b: two frames [0,b) and [a,L) that overlap on [a,b) (retransmission)
	}
	var jobs []job
	hs := make([][]byte, len(quicHellos))
	for hi, h := range quicHellos {
		bh := buildHello(h)
		hs[hi] = bh.hs
		var pts []int
		if thorough {
			for c := 1; c < len(bh.hs); c++ {
				pts = append(pts, c)
			}
		} else {
			set := map[int]bool{1: true, 4: true, len(bh.hs) - 1: true}
			for _, f := range bh.fields {
				if f.name == "sid" || f.name == "exts" || f.name == "snilist" || f.name == "sniname" {
					set[f.off] = true
					set[f.off+f.size] = true
				}
			}
			for c := range set {
				if c > 0 && c < len(bh.hs) {
					pts = append(pts, c)
				}
			}
			sort.Ints(pts)
		}
		R.Set(fmt.Sprintf("quic_cut_points_hello%d", hi), len(pts))
		for _, v := range []qver{quicV1, quicV2} {
			jobs = append(jobs, job{v, hi, nil, false})
			for a := 0; a < len(pts); a++ {
				jobs = append(jobs, job{v, hi, []int{pts[a]}, false})
				for b := a + 1; b < len(pts); b++ {
					jobs = append(jobs, job{v, hi, []int{pts[a], pts[b]}, false})
					jobs = append(jobs, job{v, hi, []int{pts[a], pts[b]}, true})
				}
			}
		}
	}
	R.Set("quic_splits", len(jobs))
	{
		d := buildQuicSequence(quicV1, 0, []cseg{{0, hs[0][:40]}, {40, hs[0][40:]}}, []int{1, 0}, 2, layoutsFor(2)[2])
		R.Sample(map[string]any{"leg": "quic", "what": "v1, hello0 cut at 40, frames in order [1 0], PING between, 2 datagrams", "datagrams": hxs(d), "reference_name": refQuicSequence(d).name})
	}
	R.ParallelFor(len(jobs), func(ji int) {
		j := jobs[ji]
		h := hs[j.hi]
		var segs []cseg
		prev := 0
		for _, c := range append(append([]int(nil), j.cuts...), len(h)) {
			segs = append(segs, cseg{prev, h[prev:c]})
			prev = c
		}
		if j.overlap {
			segs = []cseg{{0, h[:j.cuts[1]]}, {j.cuts[0], h[j.cuts[0]:]}}
		}
		k := len(segs)
		for oi, order := range perms[k] {
			for pattern := 0; pattern < 5; pattern++ {
				for li, lay := range layoutsFor(k) {
					dgrams := buildQuicSequence(j.v, j.hi, segs, order, pattern, lay)
					v := refQuicSequence(dgrams)
					desc := fmt.Sprintf("%s hello%d cuts=%v overlap=%v order=%v pattern=%d layout=%s", j.v.name, j.hi, j.cuts, j.overlap, order, pattern, lay.name)
					if !v.required {
						report("quic", "harness", desc, "reference does not accept the harness's own well-formed sequence: "+desc, hxs(dgrams))
						continue
					}
					cases.Add(1)
					distinct(fnv(dgrams...))
					runUDP("quic "+j.v.name, fmt.Sprintf("%d|%d|%v|%v|%d|%d|%d", j.hi, len(j.cuts), j.overlap, j.cuts, oi, pattern, li), desc, dgrams, &v, true)
					if len(dgrams) == 1 && oi == 0 && pattern == 0 {
						runUDPSingle("quic "+j.v.name, fmt.Sprintf("%d|%v|%d", j.hi, j.cuts, li), desc, dgrams[0], &v)
					}
				}
			}
		}
	})
}

// ---- negatives ------------------------------------------------------------------------------------------------------

func legNegatives(thorough bool) {
	neg := R.Counter("negative_cases")
	tcpNeg := func(leg, key, desc string, data []byte, withLater bool) {
		neg.Add(1)
		distinct(fnv(data, []byte(leg)))
		chunks := [][]byte{data}
		if len(data) == 0 {
			chunks = nil
		}
		if withLater {
			chunks = append(chunks, later1, later2)
		}
		v := refStream(cat(chunks...))
		runTCP(tcpOpts{leg: leg, key: func() string { return key }, desc: func() string { return desc }, recognise: true, routes: allRoutes}, chunks, &v)
		v2 := refStream(data)
		runGuardedTCP(leg, key, desc, data, &v2)
	}
	udpNeg := func(leg, key, desc string, d []byte) {
		neg.Add(1)
		distinct(fnv(d, []byte(leg)))
		v := refQuicSequence([][]byte{d})
		runUDP(leg, key, desc, [][]byte{d}, &v, true)
		runUDPSingle(leg, key, desc, d, &v)
	}

	// (a) one instance of each kind: every truncation, every single-bit flip
	tlsInst := tlsRecord(13, buildHello(helloSpec{ver: 13, sidLen: 32, nCS: 3, exts: []int{extGREASE, extSNI, extALPN, extSV}, sni: []sniEntry{{0, "Www.Example.COM"}}}).hs)
	httpInst := []byte("GET /index.html HTTP/1.1\r\nUser-Agent: curl/8\r\nHost: Www.Example.COM:8080\r\nAccept: */*\r\n\r\n")
	qh := buildHello(quicHellos[0]).hs
	quicInst1 := encodeInitial(pktSpec{v: quicV1, dcid: quicDcid, pn: 0, pnLen: 2, payload: padFrames(3, [][]byte{frCrypto(0, qh)})})
	quicInst2 := cat(encodeInitial(pktSpec{v: quicV1, dcid: quicDcid, pn: 0, pnLen: 1, payload: frCrypto(0, qh)}),
		encodeInitial(pktSpec{v: quicV1, dcid: quicDcid, pn: 1, pnLen: 4, payload: []byte{1, 0, 0, 0}}))
	R.Sample(map[string]any{"leg": "negatives", "tls_instance": hx(tlsInst), "quic_instance": hx(quicInst1)})
	type inst struct {
		name string
		data []byte
		udp  bool
	}
	insts := []inst{{"tls", tlsInst, false}, {"http", httpInst, false}, {"quic", quicInst1, true}, {"quic-coalesced", quicInst2, true}}
	type mut struct {
		ii   int
		kind string
		at   int
	}
	var muts []mut
	for ii, in := range insts {
		for n := 0; n < len(in.data); n++ {
			muts = append(muts, mut{ii, "trunc", n})
		}
		for b := 0; b < 8*len(in.data); b++ {
			muts = append(muts, mut{ii, "flip", b})
		}
	}
	R.Set("negative_truncations_and_flips", len(muts))
	R.ParallelFor(len(muts), func(i int) {
		m := muts[i]
		in := insts[m.ii]
		var d []byte
		if m.kind == "trunc" {
			d = clone(in.data[:m.at])
		} else {
			d = clone(in.data)
			d[m.at/8] ^= 0x80 >> uint(m.at%8)
		}
		leg := "neg-" + m.kind + "-" + in.name
		key := fmt.Sprintf("%06d", m.at)
		desc := fmt.Sprintf("%s instance, %s at %d: %s", in.name, m.kind, m.at, hx(d))
		if in.udp {
			udpNeg(leg, key, desc, d)
		} else {
			tcpNeg(leg, key, desc, d, m.kind == "flip")
		}
	})
	// the hello inside QUIC (LinearLocator path): every truncation / bit flip of the handshake message, in 1 and 2 frames
	var hm []mut
	for n := 0; n < len(qh); n++ {
		hm = append(hm, mut{0, "trunc", n})
	}
	for b := 0; b < 8*len(qh); b++ {
		hm = append(hm, mut{0, "flip", b})
	}
	R.ParallelFor(len(hm), func(i int) {
		m := hm[i]
		var d []byte
		if m.kind == "trunc" {
			d = clone(qh[:m.at])
		} else {
			d = clone(qh)
			d[m.at/8] ^= 0x80 >> uint(m.at%8)
		}
		for _, split := range []bool{false, true} {
			var frames [][]byte
			if split && len(d) >= 2 {
				frames = [][]byte{frCrypto(len(d)/2, d[len(d)/2:]), frCrypto(0, d[:len(d)/2])}
			} else {
				frames = [][]byte{frCrypto(0, d)}
			}
			pkt := encodeInitial(pktSpec{v: quicV1, dcid: quicDcid, pn: 0, pnLen: 3, payload: padFrames(3, frames)})
			udpNeg("neg-"+m.kind+"-hello-in-quic", fmt.Sprintf("%06d|%v", m.at, split), fmt.Sprintf("hello %s at %d split=%v crypto=%s", m.kind, m.at, split, hx(d)), pkt)
		}
	})

	// (b) all short strings over the alphabet of first bytes
	alpha := []byte{0x16, 0x03, 0x01, 'G', 0xc0, 0x00}
	maxLen := 4
	if thorough {
		maxLen = 6
	}
	var strs [][]byte
	allStrings(alpha, maxLen, func(s []byte) { strs = append(strs, clone(s)) })
	R.Set("negative_short_strings", len(strs))
	R.ParallelFor(len(strs), func(i int) {
		s := strs[i]
		key := fmt.Sprintf("%02d|%x", len(s), s)
		tcpNeg("neg-strings-tcp", key, hx(s), s, true)
		tcpNeg("neg-strings-tcp-eof", key, hx(s)+" then end of stream", s, false)
		udpNeg("neg-strings-udp", key, hx(s), s)
	})

	// (c) encrypted-valid Initial packets carrying every short frame-byte string
	falpha := []byte{0x00, 0x01, 0x06, 0x1c, 0x02, 0x40, 0xff}
	fmax := 3
	if thorough {
		fmax = 4
	}
	var fstrs [][]byte
	allStrings(falpha, fmax, func(s []byte) { fstrs = append(fstrs, clone(s)) })
	R.Set("negative_frame_strings", len(fstrs))
	half := len(qh) / 2
	R.ParallelFor(len(fstrs), func(i int) {
		s := fstrs[i]
		placements := map[string][]byte{
			"alone":   s,
			"after":   cat(frCrypto(0, qh), s),
			"before":  cat(s, frCrypto(0, qh)),
			"between": cat(frCrypto(0, qh[:half]), s, frCrypto(half, qh[half:])),
		}
		for _, pl := range []string{"alone", "after", "before", "between"} {
			for _, v := range []qver{quicV1} {
				pkt := encodeInitial(pktSpec{v: v, dcid: quicDcid, pn: 7, pnLen: 4, payload: placements[pl]})
				udpNeg("neg-frames "+pl, fmt.Sprintf("%02d|%x", len(s), s), fmt.Sprintf("frame bytes %x placed %s", s, pl), pkt)
			}
		}
	})

	// (d) length-field perturbations of three hellos (SNI first / middle / last), over TCP and inside QUIC
	type pert struct {
		hi    int
		delta map[int]int // field index -> delta (or absolute when abs)
		abs   map[int]int
	}
	bases := []helloSpec{
		{ver: 13, sidLen: 32, nCS: 2, exts: []int{extSNI, extALPN, extSV}, sni: []sniEntry{{0, "first.example.com"}}},
		{ver: 13, sidLen: 32, nCS: 2, exts: []int{extGREASE, extSNI, extSV}, sni: []sniEntry{{0, "middle.example.com"}}},
		{ver: 13, sidLen: 0, nCS: 1, exts: []int{extALPN, extSV, extSNI}, sni: []sniEntry{{1, "xx"}, {0, "last.example.com"}}},
	}
	var built []builtHello
	for _, b := range bases {
		built = append(built, buildHello(b))
	}
	var perts []pert
	for hi, bh := range built {
		nf := len(bh.fields) + 1 // + record length (index len(fields))
		for f := 0; f < nf; f++ {
			for _, d := range []int{-2, -1, 1, 2} {
				perts = append(perts, pert{hi: hi, delta: map[int]int{f: d}})
			}
			perts = append(perts, pert{hi: hi, abs: map[int]int{f: 0}}, pert{hi: hi, abs: map[int]int{f: -1}})
			for g := f + 1; g < nf; g++ {
				for _, d1 := range []int{-1, 1} {
					for _, d2 := range []int{-1, 1} {
						perts = append(perts, pert{hi: hi, delta: map[int]int{f: d1, g: d2}})
					}
				}
			}
		}
	}
	R.Set("negative_length_perturbations", len(perts))
	R.ParallelFor(len(perts), func(i int) {
		p := perts[i]
		bh := built[p.hi]
		hs := clone(bh.hs)
		recLen := len(hs)
		var names []string
		apply := func(f int, val func(old, max int) int) {
			if f == len(bh.fields) {
				recLen = val(recLen, 0xffff) & 0xffff
				names = append(names, "record")
				return
			}
			fl := bh.fields[f]
			old := 0
			for k := 0; k < fl.size; k++ {
				old = old<<8 | int(hs[fl.off+k])
			}
			max := 1<<(8*uint(fl.size)) - 1
			nv := val(old, max) & max
			for k := fl.size - 1; k >= 0; k-- {
				hs[fl.off+k] = byte(nv)
				nv >>= 8
			}
			names = append(names, fmt.Sprintf("%s@%d", fl.name, fl.off))
		}
		var fs []int
		for f := range p.delta {
			fs = append(fs, f)
		}
		for f := range p.abs {
			fs = append(fs, f)
		}
		sort.Ints(fs)
		for _, f := range fs {
			if d, ok := p.delta[f]; ok {
				apply(f, func(old, max int) int { return old + d })
			} else {
				a := p.abs[f]
				apply(f, func(old, max int) int {
					if a < 0 {
						return max
					}
					return a
				})
			}
		}
		desc := fmt.Sprintf("hello%d fields=%v delta=%v abs=%v", p.hi, names, p.delta, p.abs)
		key := fmt.Sprintf("%d|%d|%s", len(fs), p.hi, desc)
		st := append([]byte{22, 3, 1, byte(recLen >> 8), byte(recLen)}, hs...)
		tcpNeg("neg-lengths-tcp", key, desc+" stream="+hx(st), st, true)
		for _, tail := range [][]byte{nil, []byte("zz")} {
			pkt := encodeInitial(pktSpec{v: quicV1, dcid: quicDcid, pn: 1, pnLen: 2, payload: padFrames(3, [][]byte{frCrypto(0, cat(hs, tail))})})
			udpNeg("neg-lengths-quic", key+fmt.Sprintf("|%d", len(tail)), fmt.Sprintf("%s crypto-stream=%s", desc, hx(cat(hs, tail))), pkt)
		}
	})

	// (e) every short extension block inside an otherwise well-formed hello
	ealpha := []byte{0x00, 0x01, 0x02, 0x03, 0x05, 'a'}
	emax := 5
	if thorough {
		emax = 6
	}
	var blocks [][]byte
	allStrings(ealpha, emax, func(s []byte) { blocks = append(blocks, clone(s)) })
	R.Set("negative_extension_blocks", len(blocks))
	prefix := buildHello(helloSpec{ver: 13, nCS: 1, noExtBlock: true}).hs
	wrap := func(block []byte, csPad int, sid int) []byte {
		// prefix = type len(3) ver(2) random(32) sid(1) cs(2+2) comp(2)
		b := []byte{1, 0, 0, 0, 3, 3}
		b = append(b, prefix[6:38]...)
		b = append(b, byte(sid))
		b = append(b, make([]byte, sid)...)
		b = append(b, be16(2+csPad)...)
		b = append(b, 0x13, 0x01)
		for k := 0; k < csPad; k += 2 {
			b = append(b, 0x13, 0x02)
		}
		b = append(b, 1, 0)
		b = append(b, be16(len(block))...)
		b = append(b, block...)
		n := len(b) - 4
		b[1], b[2], b[3] = byte(n>>16), byte(n>>8), byte(n)
		return b
	}
	R.ParallelFor(len(blocks), func(i int) {
		blk := blocks[i]
		key := fmt.Sprintf("%02d|%x", len(blk), blk)
		hs := wrap(blk, 0, 0)
		st := tlsRecord(12, hs)
		tcpNeg("neg-extblock-tcp", key, fmt.Sprintf("extension block %x stream=%s", blk, hx(st)), st, true)
		for _, tail := range [][]byte{nil, []byte("z")} {
			pkt := encodeInitial(pktSpec{v: quicV1, dcid: quicDcid, pn: 1, pnLen: 2, payload: padFrames(0, [][]byte{frCrypto(0, cat(hs, tail))})})
			udpNeg("neg-extblock-quic", key+fmt.Sprintf("|%d", len(tail)), fmt.Sprintf("extension block %x crypto-stream=%s", blk, hx(cat(hs, tail))), pkt)
		}
		if len(blk) <= 5 {
			// the first read fills the whole buffer the sniffer offers and the record ends exactly there
			neg.Add(1)
			fill := func(n int) []byte {
				// 5 + len(hs) == n  with hs = 4+2+32+1+sid+2+2+csPad+2+2+len(blk)
				rest := n - 5 - (4 + 2 + 32 + 1 + 2 + 2 + 2 + 2 + len(blk))
				sid := 0
				if rest < 0 {
					return tlsRecord(12, wrap(blk, 0, 0))
				}
				if rest%2 == 1 {
					sid, rest = 1, rest-1
				}
				return tlsRecord(12, wrap(blk, rest, sid))
			}
			runTCP(tcpOpts{leg: "neg-extblock-fullread", key: func() string { return key }, desc: func() string { return fmt.Sprintf("extension block %x, record sized so that the first read fills the sniffer's buffer exactly", blk) }, recognise: true, routes: []int{0, 3}, fill: fill},
				[][]byte{later1, later2}, nil)
		}
	})
}

// ---- QUIC: Initials coalesced with packets of other types ------------------------------------------------------------
//
// legQUIC only ever builds datagrams that END with an Initial packet. Here every datagram may carry, behind its Initial
// packet(s), one packet of another kind {0-RTT, Handshake, short header, stray zero bytes}: every assignment of
// {none, 4 kinds} to the datagrams of the sequence; and, once per datagram, the same 4 kinds between two coalesced
// Initials and in front of the first Initial. The CRYPTO stream is cut into <= 3 frames, every order, spread over 1
// packet / 2 coalesced packets / 2 datagrams / 3 datagrams / coalesced+datagram. Whether recognition is demanded is the
// reference's decision (refQuicSequence: an opaque packet BEHIND an Initial does not excuse anything; a datagram that
// does not start with a decodable Initial does).

type coalLayout struct {
	name   string
	groups [][]int
	dgram  []int
}

func coalLayouts(k int) []coalLayout {
	switch k {
	case 1:
		return []coalLayout{
			{"1pkt", [][]int{{0}}, []int{0}},
			{"coalesced1+0", [][]int{{0}, {}}, []int{0, 0}},
			{"coalesced0+1", [][]int{{}, {0}}, []int{0, 0}},
			{"2dgrams1+0", [][]int{{0}, {}}, []int{0, 1}},
			{"2dgrams0+1", [][]int{{}, {0}}, []int{0, 1}},
		}
	case 2:
		return []coalLayout{
			{"1pkt", [][]int{{0, 1}}, []int{0}},
			{"coalesced1+1", [][]int{{0}, {1}}, []int{0, 0}},
			{"2dgrams1+1", [][]int{{0}, {1}}, []int{0, 1}},
		}
	}
	return []coalLayout{
		{"1pkt", [][]int{{0, 1, 2}}, []int{0}},
		{"coalesced1+2", [][]int{{0}, {1, 2}}, []int{0, 0}},
		{"coalesced2+1", [][]int{{0, 1}, {2}}, []int{0, 0}},
		{"2dgrams1+2", [][]int{{0}, {1, 2}}, []int{0, 1}},
		{"2dgrams2+1", [][]int{{0, 1}, {2}}, []int{0, 1}},
		{"3dgrams1+1+1", [][]int{{0}, {1}, {2}}, []int{0, 1, 2}},
		{"coalesced1+1,dgram1", [][]int{{0}, {1}, {2}}, []int{0, 0, 1}},
		{"dgram1,coalesced1+1", [][]int{{0}, {1}, {2}}, []int{0, 1, 1}},
	}
}

// coalTrailers: where the other packets go. after[d]: behind the Initials of datagram d; mid/front = {datagram, kind}.
type coalTrailers struct {
	after      []int
	mid, front [2]int
}

func (t coalTrailers) String() string {
	s := "after=["
	for i, a := range t.after {
		if i > 0 {
			s += ","
		}
		s += trailerName[a]
	}
	s += "]"
	if t.mid[1] != trNone {
		s += fmt.Sprintf(" between-initials-of-datagram%d=%s", t.mid[0], trailerName[t.mid[1]])
	}
	if t.front[1] != trNone {
		s += fmt.Sprintf(" in-front-of-datagram%d=%s", t.front[0], trailerName[t.front[1]])
	}
	return s
}

func coalTrailerChoices(lay coalLayout) []coalTrailers {
	nd := lay.dgram[len(lay.dgram)-1] + 1
	cnt := make([]int, nd)
	for _, d := range lay.dgram {
		cnt[d]++
	}
	var out []coalTrailers
	var rec func(cur []int)
	rec = func(cur []int) {
		if len(cur) == nd {
			out = append(out, coalTrailers{after: append([]int(nil), cur...)})
			return
		}
		for k := 0; k < nTrailerKinds; k++ {
			rec(append(cur, k))
		}
	}
	rec(nil)
	none := make([]int, nd)
	for d := 0; d < nd; d++ {
		for k := 1; k < nTrailerKinds; k++ {
			if cnt[d] >= 2 && (k == trZeroRTT || k == trHandshake) { // only a packet with a Length can be followed by another
				out = append(out, coalTrailers{after: none, mid: [2]int{d, k}})
			}
			out = append(out, coalTrailers{after: none, front: [2]int{d, k}})
		}
	}
	return out
}

func buildCoalSequence(v qver, hi int, segs []cseg, order []int, pattern int, lay coalLayout, tr coalTrailers) [][]byte {
	var scid []byte
	if hi == 1 {
		scid = []byte{0xc1, 0xc2, 0xc3, 0xc4, 0xc5}
	}
	nd := lay.dgram[len(lay.dgram)-1] + 1
	dgrams := make([][]byte, nd)
	seenIn := make([]int, nd)
	for d := 0; d < nd; d++ {
		if tr.front[1] != trNone && tr.front[0] == d {
			dgrams[d] = append(dgrams[d], otherPacket(v, tr.front[1], quicDcid, scid)...)
		}
	}
	for pi, g := range lay.groups {
		var frames [][]byte
		for _, pos := range g {
			s := segs[order[pos]]
			frames = append(frames, frCrypto(s.off, s.data))
		}
		spec := pktSpec{v: v, dcid: quicDcid, scid: scid, pn: uint32(pi), pnLen: 1 + (pattern+pi)%4, payload: padFrames(pattern, frames)}
		if pattern == 3 {
			spec.token = []byte{0x74, 0x6f, 0x6b}
		}
		d := lay.dgram[pi]
		dgrams[d] = append(dgrams[d], encodeInitial(spec)...)
		seenIn[d]++
		if seenIn[d] == 1 && tr.mid[1] != trNone && tr.mid[0] == d {
			dgrams[d] = append(dgrams[d], otherPacket(v, tr.mid[1], quicDcid, scid)...)
		}
	}
	for d := 0; d < nd; d++ {
		dgrams[d] = append(dgrams[d], otherPacket(v, tr.after[d], quicDcid, scid)...)
	}
	return dgrams
}

func legQUICCoalesce(thorough bool) {
	cases := R.Counter("quic_coalesce_cases")
	demanded := R.Counter("quic_coalesce_recognition_demanded")
	perms := [][][]int{nil, permutations(1), permutations(2), permutations(3)}
	patterns := []int{0, 3}
	if thorough {
		patterns = []int{0, 1, 2, 3, 4}
	}
	type job struct {
		v    qver
		hi   int
		cuts []int
	}
	var jobs []job
	hs := make([][]byte, len(quicHellos))
	for hi, h := range quicHellos {
		bh := buildHello(h)
		hs[hi] = bh.hs
		name := 0 // offset of the first byte of the host name
		for _, f := range bh.fields {
			if f.name == "sniname" {
				name = f.off + f.size
			}
		}
		var cutSets [][]int
		if thorough {
			pts := map[int]bool{1: true, 4: true, len(bh.hs) - 1: true}
			for _, f := range bh.fields {
				if f.name == "sid" || f.name == "exts" || f.name == "snilist" || f.name == "sniname" {
					pts[f.off], pts[f.off+f.size] = true, true
				}
			}
			var ps []int
			for c := range pts {
				if c > 0 && c < len(bh.hs) {
					ps = append(ps, c)
				}
			}
			sort.Ints(ps)
			cutSets = append(cutSets, nil)
			for a := range ps {
				cutSets = append(cutSets, []int{ps[a]})
				for b := a + 1; b < len(ps); b++ {
					cutSets = append(cutSets, []int{ps[a], ps[b]})
				}
			}
		} else {
			cutSets = [][]int{nil, {1}, {name + 3}, {len(bh.hs) - 1}, {4, name + 3}}
		}
		for _, v := range []qver{quicV1, quicV2} {
			for _, cs := range cutSets {
				jobs = append(jobs, job{v, hi, cs})
			}
		}
	}
	R.Set("quic_coalesce_splits", len(jobs))
	{
		seg := []cseg{{0, hs[0][:40]}, {40, hs[0][40:]}}
		d := buildCoalSequence(quicV1, 0, seg, []int{0, 1}, 0, coalLayouts(2)[2], coalTrailers{after: []int{trZeroRTT, trNone}})
		R.Sample(map[string]any{"leg": "quic-coalesce", "what": "v1, hello0 cut at 40, datagram 0 = Initial + 0-RTT packet, datagram 1 = Initial", "datagrams": hxs(d), "reference_name": refQuicSequence(d).name})
	}
	R.ParallelFor(len(jobs), func(ji int) {
		j := jobs[ji]
		h := hs[j.hi]
		var segs []cseg
		prev := 0
		for _, c := range append(append([]int(nil), j.cuts...), len(h)) {
			segs = append(segs, cseg{prev, h[prev:c]})
			prev = c
		}
		k := len(segs)
		for oi, order := range perms[k] {
			for _, pattern := range patterns {
				for li, lay := range coalLayouts(k) {
					for ti, tr := range coalTrailerChoices(lay) {
						dgrams := buildCoalSequence(j.v, j.hi, segs, order, pattern, lay, tr)
						v := refQuicSequence(dgrams)
						desc := fmt.Sprintf("%s hello%d cuts=%v order=%v pattern=%d layout=%s other-packets: %s", j.v.name, j.hi, j.cuts, order, pattern, lay.name, tr.String())
						if v.required != (tr.front[1] == trNone) {
							report("quic-coalesce", "harness", desc, fmt.Sprintf("reference says required=%v for the harness's own sequence: %s", v.required, desc), hxs(dgrams))
							continue
						}
						if v.required {
							demanded.Add(1)
						}
						cases.Add(1)
						distinct(fnv(dgrams...))
						leg := "quic-coalesce " + j.v.name
						if tr.mid[1] != trNone {
							leg = "quic-coalesce-between"
						}
						runUDP(leg, fmt.Sprintf("%d|%d|%v|%d|%d|%02d|%03d", len(j.cuts), j.hi, j.cuts, oi, pattern, li, ti), desc, dgrams, &v, true)
						if len(dgrams) == 1 && oi == 0 {
							runUDPSingle(leg, fmt.Sprintf("%d|%v|%d|%d|%d", j.hi, j.cuts, pattern, li, ti), desc, dgrams[0], &v)
						}
					}
				}
			}
		}
	})
}
