#!/bin/bash
# stage round-4 seeds from /tmp/seed4-<ID>/SEEDS into /verif/seeded/<ID>-seed{9,10}
for ID in "$@"; do
  S=/tmp/seed4-$ID/SEEDS
  [ -d "$S" ] || { echo "no $S"; continue; }
  for n in 1 2 3; do
    [ -f "$S/seed$n.diff" ] || continue
    D=/verif/seeded/$ID-seed$((n+8))
    mkdir -p "$D"
    cp "$S/seed$n.diff" "$D/patch.diff"
    [ -f "$S/seed$n.md" ] && cp "$S/seed$n.md" "$D/NOTE.md"
    [ -d "$S/seed${n}_demo" ] && { rm -rf "$D/demo"; cp -r "$S/seed${n}_demo" "$D/demo"; }
    echo staged $D
  done
done
