#!/usr/bin/env python3
"""Regenerates the generated tables of DESIGN.md (between <!-- GEN:x --> and <!-- /GEN:x --> markers)."""
import json, glob, os, re, collections
V='/verif'
def table_asbuilt():
    rows=["| id | engine | level | what one quick run explored on the unchanged tree (from evidence) | known findings |","|---|---|---|---|---|"]
    for l in open(f'{V}/properties.jsonl'):
        p=json.loads(l); i=p['id']
        try:
            m=json.load(open(f'{V}/checks/{i}/meta.json')); e=json.load(open(f'{V}/evidence/{i}.json'))
        except Exception as ex:
            rows.append(f"| {i} | - | - | (no check) | |"); continue
        c=e['coverage']
        if e['level']=='model_checking' and 'states' in c:
            cov=f"states={c.get('states')} transitions={c.get('transitions')} traces_on_impl={c.get('traces_validated_against_impl')} distinct={c.get('distinct_nontrivial')}"
        else:
            cov=f"evaluations={c.get('evaluations')} distinct_nontrivial={c.get('distinct_nontrivial')}"
        cov+=f" exhaustive={c.get('exhaustive')} tier={e['tier']} wall={e['wall_s']:.0f}s"
        rows.append(f"| {i} | {m.get('engine','seqx')} | {m['category']} | {cov} | {c.get('known_findings_reported',0)} |")
    return "\n".join(rows)
def table_findings():
    d=json.load(open(f'{V}/known_findings.json'))['findings']
    rows=["| property | status | commit | what |","|---|---|---|---|"]
    for f in d:
        w=f['what'].replace('|','\\|')
        w=re.sub(r'^fixed: property=\S+ ','',w)
        rows.append(f"| {f['property']} | {f['status']} | {('`'+f['commit']+'`') if f.get('commit') else ''} | {w} |")
    return "\n".join(rows)
def table_detection():
    rows=["| property | own mutants detected / total (quick) | independent seeds kept (rounds 1-4) | detected by the first run of the check | detected now | first missed, caught after strengthening | still missed |","|---|---|---|---|---|---|---|"]
    res=collections.defaultdict(dict)
    p=f'{V}/mutants/RESULTS.tsv'
    if os.path.exists(p):
        for l in open(p):
            f=l.rstrip('\n').split('\t')
            if len(f)>=3: res[f[0]][f[1]]=f[2]
    first={}
    for fn in ('ROUND1-first-run.tsv','ROUND2-first-run.tsv','ROUND3-first-run.tsv','ROUND4-first-run.tsv'):
        if os.path.exists(f'{V}/seeded/{fn}'):
            for l in open(f'{V}/seeded/{fn}'):
                f=l.split()
                if len(f)==2: first[f[0]]=f[1]
    tot=[0,0,0,0]
    for l in open(f'{V}/properties.jsonl'):
        i=json.loads(l)['id']
        own={k:v for k,v in res[i].items() if not re.match(r'^C\d+-seed\d+$', k)}
        det=sum(1 for v in own.values() if v=='DETECTED')
        nown=len(own) if own else len(glob.glob(f'{V}/mutants/{i}-*.patch'))
        sd=[os.path.basename(os.path.dirname(mp)) for mp in sorted(glob.glob(f'{V}/seeded/{i}-seed*/meta.json')) if json.load(open(mp)).get('kept',True)]
        f1=[n for n in sd if first.get(n)=='DETECTED']
        now=[n for n in sd if res[i].get(n)=='DETECTED']
        after=[n for n in sd if first.get(n)=='MISSED' and res[i].get(n)=='DETECTED']
        missed=[n for n in sd if n in res[i] and res[i][n]!='DETECTED']
        notrun=[n for n in sd if n not in res[i]]
        tot[0]+=len(sd); tot[1]+=len(f1); tot[2]+=len(now); tot[3]+=len(missed)
        rows.append(f"| {i} | {det}/{nown}{'' if own else ' (not re-run)'} | {len(sd)} | {len(f1)} | {len(now)}{(' ('+str(len(notrun))+' not re-run)') if notrun else ''} | {', '.join(n.split('-')[1] for n in after)} | {', '.join(missed)} |")
    rows.append(f"| all | | {tot[0]} | {tot[1]} | {tot[2]} | | {tot[3]} |")
    return "\n".join(rows)
gens={'asbuilt':table_asbuilt,'findings':table_findings,'detection':table_detection}
s=open(f'{V}/DESIGN.md').read()
for k,fn in gens.items():
    a,b=f'<!-- GEN:{k} -->',f'<!-- /GEN:{k} -->'
    if a in s and b in s:
        s=s[:s.index(a)+len(a)]+"\n"+fn()+"\n"+s[s.index(b):]
open(f'{V}/DESIGN.md','w').write(s)
print("DESIGN.md tables regenerated")
