#!/usr/bin/env python3
"""Regenerates the generated tables of DESIGN.md (between <!-- GEN:x --> and <!-- /GEN:x --> markers)."""
import json, glob, os, re, collections
V='/verif'
def table_asbuilt():
    rows=["| id | engine | level | what one quick run explored on the unchanged tree (from evidence) | known findings |","|---|---|---|---|---|"]
    for l in open(f'{V}/properties.jsonl'):
        p=json.loads(l); i=p['id']
        try:
            m=json.load(open(f'{V}/checks/{i}/meta.json')); e=json.load(open(f'{V}/evidence/{i}.json'))
        except Exception as ex:
            rows.append(f"| {i} | - | - | (no check) | |"); continue
        c=e['coverage']
        if e['level']=='model_checking' and 'states' in c:
            cov=f"states={c.get('states')} transitions={c.get('transitions')} traces_on_impl={c.get('traces_validated_against_impl')} distinct={c.get('distinct_nontrivial')}"
        else:
            cov=f"evaluations={c.get('evaluations')} distinct_nontrivial={c.get('distinct_nontrivial')}"
        cov+=f" exhaustive={c.get('exhaustive')} tier={e['tier']} wall={e['wall_s']:.0f}s"
        rows.append(f"| {i} | {m.get('engine','seqx')} | {m['category']} | {cov} | {c.get('known_findings_reported',0)} |")
    return "\n".join(rows)
def table_findings():
    d=json.load(open(f'{V}/known_findings.json'))['findings']
    rows=["| property | status | commit | what |","|---|---|---|---|"]
    for f in d:
        w=f['what'].replace('|','\\|')
        w=re.sub(r'^fixed: property=\S+ ','',w)
        rows.append(f"| {f['property']} | {f['status']} | {('`'+f['commit']+'`') if f.get('commit') else ''} | {w} |")
    return "\n".join(rows)
def table_detection():
    rows=["| property | own mutants detected / total (quick) | independent seeds: detected / kept | seeds first missed, caught after strengthening | still missed |","|---|---|---|---|---|"]
    res=collections.defaultdict(list)
    p=f'{V}/mutants/RESULTS.tsv'
    if os.path.exists(p):
        for l in open(p):
            f=l.rstrip('\n').split('\t')
            if len(f)>=3: res[f[0]].append(f)
    seeds=collections.defaultdict(list)
    for mp in sorted(glob.glob(f'{V}/seeded/*/meta.json')):
        try: m=json.load(open(mp))
        except Exception: continue
        seeds[m.get('property', os.path.basename(os.path.dirname(mp))[:3])].append((os.path.basename(os.path.dirname(mp)),m))
    for l in open(f'{V}/properties.jsonl'):
        i=json.loads(l)['id']
        own=[r for r in res[i] if not r[1].startswith(i+'-seed') and '-seed' not in r[1][:8]]
        own=[r for r in res[i] if not re.match(r'^C\d+-seed\d+$', r[1])]
        det=sum(1 for r in own if r[2]=='DETECTED')
        sd=seeds[i]
        sdet=sum(1 for n,m in sd if str(m.get('detected','')).startswith(('quick','thorough')))
        after=[n for n,m in sd if 'after' in str(m.get('detected',''))]
        missed=[n for n,m in sd if str(m.get('detected','')).startswith(('MISSED','pending'))]
        rows.append(f"| {i} | {det}/{len(own) if own else len(glob.glob(f'{V}/mutants/{i}-*.patch'))}{'' if own else ' (not re-run in the final batch)'} | {sdet}/{len(sd)} | {', '.join(after)} | {', '.join(missed)} |")
    return "\n".join(rows)
gens={'asbuilt':table_asbuilt,'findings':table_findings,'detection':table_detection}
s=open(f'{V}/DESIGN.md').read()
for k,fn in gens.items():
    a,b=f'<!-- GEN:{k} -->',f'<!-- /GEN:{k} -->'
    if a in s and b in s:
        s=s[:s.index(a)+len(a)]+"\n"+fn()+"\n"+s[s.index(b):]
open(f'{V}/DESIGN.md','w').write(s)
print("DESIGN.md tables regenerated")
