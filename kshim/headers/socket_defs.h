/* kshim: provided by the uapi headers included from vmlinux.h */
#ifndef AF_INET
#define AF_INET 2
#endif
#ifndef AF_INET6
#define AF_INET6 10
#endif
