//go:build verif

package outbound

import (
	"github.com/daeuniverse/dae/component/outbound/dialer"
	"github.com/sirupsen/logrus"
)

// VerifNewDialerSet builds a DialerSet exactly as NewDialerSetFromLinksContext leaves it (dialers in
// pool order, nodeToTagMap[d] = subscription tag of d), but from ready-made dialers instead of links.
func VerifNewDialerSet(log *logrus.Logger, ds []*dialer.Dialer, tags []string) *DialerSet {
	s := &DialerSet{
		log:          log,
		dialers:      make([]*dialer.Dialer, 0, len(ds)),
		nodeToTagMap: make(map[*dialer.Dialer]string),
	}
	for i, d := range ds {
		s.dialers = append(s.dialers, d)
		s.nodeToTagMap[d] = tags[i]
	}
	return s
}
