module vbuild

go 1.26
