#include <asm-generic/errno-base.h>
