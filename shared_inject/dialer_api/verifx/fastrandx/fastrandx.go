//go:build verif

// Package fastrandx stands in for github.com/daeuniverse/outbound/pkg/fastrand in ONE file of the code under test
// (component/outbound/dialer/alive_dialer_set.go; the import line is redirected by the check's prebuild on a copy
// of the CURRENT working tree — Go forbids overlaying files inside GOMODCACHE, so the original package cannot be
// replaced). Intn asks a hook; ForAll drives the hook through EVERY vector of answers (depth-first over the
// choice tree), so each random choice of AliveDialerSet.GetRandExcluded is enumerated exhaustively, not sampled.
// Outside ForAll every pick is the fixed outcome set by SetFixed (default 0): deterministic.
package fastrandx

var (
	hook  func(n int) int
	fixed int
)

func Intn(n int) int { return hook(n) }

func fixedHook(n int) int {
	if fixed >= n {
		return n - 1
	}
	return fixed
}

// SetFixed: outside ForAll, Intn(n) answers min(v, n-1).
func SetFixed(v int) { fixed = v }

// ForAll runs fn once for every vector of Intn answers reachable while fn runs (fn must not change the state under
// test; selection does not). Returns the number of executions (= leaves of the choice tree).
func ForAll(fn func()) int {
	var script, ns []int
	runs := 0
	for {
		pos := 0
		ns = ns[:0]
		hook = func(n int) int {
			v := 0
			if pos < len(script) {
				v = script[pos]
			} else {
				script = append(script, 0)
			}
			if v >= n {
				v = n - 1
			}
			ns = append(ns, n)
			pos++
			return v
		}
		fn()
		runs++
		script = script[:pos]
		i := pos - 1
		for i >= 0 && script[i]+1 >= ns[i] {
			i--
		}
		if i < 0 {
			break
		}
		script = script[:i+1]
		script[i]++
	}
	hook = fixedHook
	return runs
}

func init() { hook = fixedHook }
