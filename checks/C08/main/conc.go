package main

// Single-refresh clause under real concurrency (engine S proper): three client threads ask for the same expired
// answer at the same instant while the refresh of it may complete at any point between their steps. Every
// schedule within the preemption/deviation bounds is executed on the real controller; in each of them every client
// must be served at once (the stale answer, or the refreshed one once it is there), and the upstream must never
// see a second refresh of the answer while one is in flight.

import (
	"fmt"
	"net/netip"
	"os"
	"sort"
	"strings"
	"time"

	"github.com/daeuniverse/dae/control"
	"github.com/daeuniverse/dae/verifx/vsched"
	"github.com/daeuniverse/dae/verifx/vtime"
)

type concObs struct {
	replies   []string
	problems  []string
	maxBg     int
	bgTotal   int
	syncTotal int
	done      int
	final     string
}

var concCur *concObs

func concScenario(cfg Cfg, clients int) *vsched.Scenario {
	key := rkey{"a.", 1, "u1"}
	body := func() {
		o := &concObs{}
		concCur = o
		gens := map[rkey]int{}
		ttl := uint32(1)
		script := func(up, name string, qt uint16) ([]netip.Addr, uint32, bool) {
			sc, _ := scopeOfUpstream(up)
			k := rkey{strings.ToLower(name), qt, sc}
			g := gens[k]
			gens[k] = g + 1
			return []netip.Addr{encodeAddr(k, g)}, ttl, true
		}
		ctl, err := control.VerifNewDnsCtl(ctlOpts(cfg, 0), script)
		if err != nil {
			panic("harness: " + err.Error())
		}
		dst := netip.MustParseAddrPort(asisServer)
		first := ctl.Ask("u1", "a.", 1, dst, 1) // obtained with TTL 1
		if len(first.Addrs) != 1 {
			panic("harness: first question not answered")
		}
		life := newRef(cfg).lifetime("a.", 1)
		vtime.Sleep(time.Duration(life) + time.Millisecond) // 1 ms into the stale window
		ttl = 120
		t0 := vtime.Now().UnixNano()
		for i := 0; i < clients; i++ {
			i := i
			vsched.GoNamed(fmt.Sprintf("client%d", i), func() {
				rep := ctl.Ask("u1", []string{"a.", "A.", "a."}[i%3], 1, dst, uint16(10+i))
				s := "?"
				switch {
				case rep.Err != "" || rep.Replies != 1 || len(rep.Addrs) != 1:
					s = fmt.Sprintf("bad(err=%q replies=%d addrs=%v)", rep.Err, rep.Replies, rep.Addrs)
					o.problems = append(o.problems, fmt.Sprintf("client %d got no proper reply: %s", i, s))
				default:
					k, g, ok := decodeAddr(rep.Addrs[0])
					s = fmt.Sprintf("gen%d", g)
					if !ok || k != key {
						o.problems = append(o.problems, fmt.Sprintf("client %d was answered with %v which was never obtained for %s", i, rep.Addrs, key))
					}
					if rep.ReplyAtNs != rep.StartNs {
						o.problems = append(o.problems, fmt.Sprintf("client %d waited %s for its answer although an expired answer was available inside the stale window", i, fmtDur(rep.ReplyAtNs-rep.StartNs)))
					}
					for _, x := range rep.Sync {
						if !x.Background && x.Thread == vsched.ThreadID() {
							o.syncTotal++
						}
					}
				}
				o.replies = append(o.replies, fmt.Sprintf("c%d:%s@%s", i, s, fmtDur(rep.StartNs-t0)))
				o.done++
			})
		}
		vsched.WaitUntil(func() bool { return o.done == clients })
		vsched.Quiesce()
		last := ctl.Ask("u1", "a.", 1, dst, 99)
		if len(last.Addrs) == 1 {
			_, g, _ := decodeAddr(last.Addrs[0])
			o.final = fmt.Sprintf("gen%d", g)
			if g != 1 || len(last.Sync) != 0 {
				o.problems = append(o.problems, fmt.Sprintf("after the refresh completed the cache answers with gen %d and %d more upstream exchange(s) (expected the refreshed gen 1, none)", g, len(last.Sync)))
			}
		} else {
			o.problems = append(o.problems, "final question not answered")
		}
		for _, n := range ctl.MaxConcurrentRefreshes() {
			if n > o.maxBg {
				o.maxBg = n
			}
		}
		for _, x := range ctl.Exchanges() {
			if x.Background {
				o.bgTotal++
			}
		}
		ctl.Close()
	}
	check := func(r *vsched.Result) (string, any) {
		o := concCur
		if r.Status == vsched.StPanic {
			if strings.Contains(r.PanicMsg, "harness: ") {
				return "HARNESS: " + firstLine(r.PanicMsg), r.PanicMsg
			}
			return "panic in a managed thread: " + firstLine(r.PanicMsg), r.PanicMsg
		}
		if r.Status == vsched.StHorizon {
			return "", nil
		}
		if o.done != clients {
			return "deadlock: clients blocked: " + strings.Join(r.Blocked, "; "), nil
		}
		if o.maxBg > 1 {
			return fmt.Sprintf("%d refreshes of the same expired answer in flight at once", o.maxBg), o.replies
		}
		if o.bgTotal != 1 {
			return fmt.Sprintf("%d background refreshes were sent for one expired answer (expected exactly one)", o.bgTotal), o.replies
		}
		if o.syncTotal != 0 {
			return fmt.Sprintf("%d client(s) were made to wait for the upstream inside the stale window", o.syncTotal), o.replies
		}
		if len(o.problems) > 0 {
			return o.problems[0], o.replies
		}
		return "", nil
	}
	outcome := func(r *vsched.Result) string {
		o := concCur
		s := append([]string(nil), o.replies...)
		sort.Strings(s)
		return strings.Join(s, ",") + "|" + o.final + fmt.Sprintf("|bg=%d", o.bgTotal)
	}
	return &vsched.Scenario{Name: fmt.Sprintf("stale-%dclients", clients), Body: body, Check: check, Outcome: outcome, MaxSteps: 1 << 16, HorizonNs: int64(10 * time.Minute)}
}

// concResult is one (configuration, scenario) explored by one shard.
type concResult struct {
	Cfg        string         `json:"config"`
	Scenario   string         `json:"scenario"`
	Bounds     []vsched.Bound `json:"bounds"`
	Executions int64          `json:"executions"`
	Decisions  int64          `json:"decisions"`
	Outcomes   []string       `json:"outcome_hashes"`
	Exhaustive bool           `json:"exhaustive"`
	MaxDepth   int            `json:"max_depth"`
	Skipped    string         `json:"skipped,omitempty"`
}

// staleServedAtAll: sequential probe — is an expired answer served at once in this configuration? (If not, the BFS
// reports it; the concurrent scenario presupposes it.)
func staleServedAtAll(cfg Cfg) bool {
	sc := concScenario(cfg, 1)
	r := vsched.Run(sc.Body, vsched.Options{MaxSteps: sc.MaxSteps, HorizonNs: sc.HorizonNs})
	sig, _ := sc.Check(r)
	return sig == ""
}

// concurrency runs shard i/n of the schedule exploration of every (configuration, scenario) of the single-refresh
// clause; all worker processes take part once their own BFS is done.
func concurrency(shardI, shardN int, thorough bool, deadline time.Time, wo *workerOut) []concResult {
	type spec struct {
		clients int
		bounds  []vsched.Bound
	}
	specs := []spec{{2, []vsched.Bound{{0, 0}, {1, 0}}}}
	if thorough {
		specs = append(specs, spec{3, []vsched.Bound{{0, 0}, {1, 0}}})
	}
	var out []concResult
	// two configurations: stale window 60 s, and unbounded window with a size limit. The upstream answers without
	// delay in these scenarios, so the refresh thread is an ordinary runnable thread and every interleaving of it
	// with the clients is a matter of preemptions only (no timer deviations needed).
	cfgs := []Cfg{{Opt: true, Ttl: 0, Max: 2}, {Opt: true, Ttl: 60, Max: 0}}
	served := map[Cfg]bool{}
	for _, cfg := range cfgs {
		served[cfg] = staleServedAtAll(cfg)
		if !served[cfg] {
			out = append(out, concResult{Cfg: cfg.String(), Exhaustive: true, Skipped: "expired answers are not served at once in this configuration (reported by the history search)"})
		}
	}
	for _, sp := range specs {
		for _, cfg := range cfgs {
			if !served[cfg] {
				continue
			}
			sc := concScenario(cfg, sp.clients)
			e := &vsched.Explorer{Sc: sc, Bounds: sp.bounds, Deadline: deadline, ShardI: shardI, ShardN: shardN}
			st := e.Explore()
			for k := range st.Violations {
				v := st.Violations[k]
				if strings.HasPrefix(v.Sig, "HARNESS") || !e.Confirm(&v, 5) {
					fmt.Fprintf(os.Stderr, "C08: schedule exploration: non-reproducible or harness failure: %s\n", v.Sig)
					os.Exit(2)
				}
				wo.Viols = append(wo.Viols, violOut{Class: "schedule", Sig: fmt.Sprintf("config{%s} scenario=%s schedule-bound=%v: %s", cfg, sc.Name, v.Bound, v.Sig),
					Detail: map[string]any{"config": cfg, "scenario": sc.Name, "schedule": v.Schedule, "bound": v.Bound, "detail": v.Detail, "trace": v.Trace}})
			}
			if !st.Exhaustive {
				wo.CapHit = append(wo.CapHit, fmt.Sprintf("time budget reached in schedule exploration %s (%s)", sc.Name, cfg))
			}
			out = append(out, concResult{Cfg: cfg.String(), Scenario: sc.Name, Bounds: sp.bounds, Executions: st.Executions, Decisions: st.Steps, Outcomes: st.OutcomeHashes, Exhaustive: st.Exhaustive, MaxDepth: st.MaxDepth})
		}
	}
	return out
}
