package main

import (
	"fmt"

	"github.com/daeuniverse/dae/verifx/vroute"
)

// The "long" leg: hand-built programs that reach the parts of route() small programs never touch —
// rule indices beyond the first 32-bit word of the domain bitmap (route_match_domain_set refreshes one word at a
// time), a rule array filled to MAX_MATCH_SET_LEN, dozens of LPM sets in one load (the ring allocation spans many
// slots and wraps in the middle), the builder's de-duplication of identical prefix sets, long OR chains.
func longBase() *space {
	bare := func(v ...string) []vroute.Param {
		o := make([]vroute.Param, len(v))
		for i, x := range v {
			o[i] = vroute.Param{Val: x}
		}
		return o
	}
	one := func(out, f string, not bool, ps ...vroute.Param) vroute.Rule {
		return vroute.Rule{Conds: []vroute.Cond{{Func: f, Not: not, Params: ps}}, Out: out}
	}
	pad := one("block", "sport", false, bare("1")...) // one match set; holds only for source port 1
	var progs []*vroute.Program

	// L1: exactly 1024 match sets; domain rules (one key each = one match set) at the word boundaries of the bitmap
	{
		type placed struct {
			at int // match-set index of the rule's first set
			r  vroute.Rule
		}
		dom := func(out, key, val string) vroute.Rule {
			return one(out, "domain", false, vroute.Param{Key: key, Val: val})
		}
		plan := []placed{
			{0, dom("g1", "full", "www.test.org")},
			{31, dom("g2", "full", "example.com")},
			{32, dom("g1(mark:0x20)", "suffix", ".example.com")},
			{33, dom("g2(mark:0x21)", "keyword", "est.o")},
			{40, dom("must_rules", "regex", `^www\.`)},
			{63, dom("g1(mark:0x3f)", "keyword", "xampl")},
			{64, dom("must_g2", "suffix", "foo.net")},
			{511, vroute.Rule{Out: "g1(mark:0x1ff)", Conds: []vroute.Cond{ // two match sets: 511 and 512
				{Func: "domain", Not: true, Params: []vroute.Param{{Key: "regex", Val: `net$`}}}, {Func: "dport", Params: bare("79-81")}}}},
			{1022, dom("g2(mark:0x3fe)", "regex", `net$`)},
		}
		var rules []vroute.Rule
		sets := 0
		for _, p := range plan {
			for sets < p.at {
				rules = append(rules, pad)
				sets++
			}
			rules = append(rules, p.r)
			sets += len(p.r.Conds)
		}
		if sets != 1023 {
			panic("long/domain-words: the plan does not fill 1023 match sets")
		}
		progs = append(progs, &vroute.Program{Label: "long/domain-words", Rules: rules, Fallback: "g1(mark:0x3ff)"})
	}
	// L2: 26 LPM rules / 25 tries in one load (dip, sip, mac interleaved; one set written twice: the builder reuses its trie)
	{
		var rules []vroute.Rule
		for k := 0; k < 8; k++ {
			rules = append(rules, one("g1", "dip", false, bare(fmt.Sprintf("10.0.%d.0/24", k), fmt.Sprintf("2001:db8:%x::/48", k))...))
			rules = append(rules, one("g2", "sip", k%4 == 3, bare(fmt.Sprintf("192.168.%d.2", k))...))
			rules = append(rules, one("must_g1", "mac", false, bare(fmt.Sprintf("02:42:ac:11:00:%02x", k))...))
		}
		rules = append(rules, one("block", "dip", false, bare("10.0.3.0/24", "2001:db8:3::/48")...)) // identical to the set of k=3
		rules = append(rules, one("g2(must)", "sip", false, bare("10.0.3.0/24", "2001:db8:3::/48")...))
		progs = append(progs, &vroute.Program{Label: "long/lpm-sets", Rules: rules, Fallback: "direct"})
	}
	// L3: long OR chains inside AND
	{
		var dp, sp, pn, ds []vroute.Param
		for k := 0; k < 24; k++ {
			dp = append(dp, vroute.Param{Val: fmt.Sprint(100 + 4*k)})
			sp = append(sp, vroute.Param{Val: fmt.Sprintf("%d-%d", 30000+10*k, 30000+10*k+3)})
		}
		for k := 0; k < 12; k++ {
			pn = append(pn, vroute.Param{Val: fmt.Sprintf("proc%02d", k)})
			ds = append(ds, vroute.Param{Val: fmt.Sprint(2 + 5*k)})
		}
		progs = append(progs, &vroute.Program{Label: "long/or-chain-ports", Fallback: "block", Rules: []vroute.Rule{
			{Conds: []vroute.Cond{{Func: "dport", Params: dp}, {Func: "sport", Params: sp}}, Out: "g1"},
			{Conds: []vroute.Cond{{Func: "dport", Not: true, Params: dp}}, Out: "must_rules"},
			{Conds: []vroute.Cond{{Func: "sport", Not: true, Params: sp}}, Out: "g2"},
		}})
		progs = append(progs, &vroute.Program{Label: "long/or-chain-pname-dscp", Fallback: "block", Rules: []vroute.Rule{
			{Conds: []vroute.Cond{{Func: "pname", Params: pn}, {Func: "dscp", Not: true, Params: ds}}, Out: "must_g2"},
			{Conds: []vroute.Cond{{Func: "dscp", Params: ds}}, Out: "g2"},
		}})
	}
	// ring {0,1,2} x ids {(2,3),(250,251)} x marks {as written, per-rule}
	var vs []int
	for k := 0; k < nVariants; k++ {
		if v := variantAt(k); (v.Ids == 0 || v.Ids == 2) && (v.Mark == 0 || v.Mark == 3) {
			vs = append(vs, k)
		}
	}
	return &space{Name: "long", n: len(progs), at: func(i int) *vroute.Program { return progs[i] }, variants: vs,
		Descr: fmt.Sprintf("%d hand-built long programs (1024 match sets with domain rules at bitmap word boundaries 0,31,32,33,40,63,64,511,1022 and the fallback at 1023; 26 LPM rules / 25 tries in one load incl. a reused identical set; OR chains of 24 ports, 24 port ranges, 12 names, 12 dscp values inside AND) under 12 variants (ring 0,1,2 x ids (2,3),(250,251) x marks as written / per rule)", len(progs))}
}
