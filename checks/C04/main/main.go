// C04 — rule normalisation never changes what the rules mean.
//
// Engine Q (bounded-exhaustive enumeration over sequential real code), differential + reference:
// every rule LIST of bounded length over alphabets built around the optimizers' triggers is lowered through
// the production optimizer chain of each of the three pipelines (traffic routing, DNS request routing, DNS
// response routing; plus the daedns router that reuses the request program) and decided for every input of the
// boundary product of the list's own constants; each decision must equal the reference decision on the list
// AS WRITTEN (geodata references replaced by the values the harness wrote into its tiny data files), and the
// decision of the matcher built from the same list without the merging/sorting/deduplicating optimizers.
package main

import (
	"fmt"
	"os"
	"path/filepath"
	"runtime/debug"
	"runtime/pprof"
	"time"

	"github.com/daeuniverse/dae/common/consts"
	"github.com/daeuniverse/dae/verifx/vlib"
	"github.com/daeuniverse/dae/verifx/vroute"
)

const (
	budgetQuick    = 150 * time.Second
	budgetThorough = 16 * time.Minute
)

func main() {
	r := vlib.Start("C04", "exploration")
	debug.SetGCPercent(400)
	if err := vroute.SelfTest(); err != nil {
		fmt.Fprintln(os.Stderr, "C04:", err)
		os.Exit(2)
	}
	work := os.Getenv("VERIF_WORKDIR")
	if work == "" {
		work = filepath.Join(os.TempDir(), "c04-work")
	}
	finder, err := writeGeoAssets(filepath.Join(work, "c04-assets"))
	if err != nil {
		fmt.Fprintln(os.Stderr, "C04: cannot write geodata assets:", err)
		os.Exit(2)
	}
	repo := os.Getenv("VERIF_REPO")
	if repo == "" {
		repo = "/repo"
	}
	chain, err := wiredTrafficChain(repo)
	if err != nil {
		fmt.Fprintln(os.Stderr, "C04: cannot read the traffic optimizer chain:", err)
		os.Exit(2)
	}
	r.Set("traffic_optimizer_chain", chain)
	f := newFindings()
	if pf := os.Getenv("C04_CPUPROFILE"); pf != "" { // development aid
		fh, _ := os.Create(pf)
		pprof.StartCPUProfile(fh)
		defer pprof.StopCPUProfile()
		go func() { time.Sleep(40 * time.Second); pprof.StopCPUProfile(); fh.Close(); os.Exit(3) }()
	}
	thorough := r.Thorough()

	share := func(frac float64) func() bool {
		lim := time.Duration(float64(r.Budget(budgetQuick, budgetThorough)) * frac)
		return func() bool { return r.Elapsed() > lim }
	}
	t := newTrafficLeg(r, f, finder, chain)
	d := newDNSLeg(r, f, finder)
	if r.ReplayArg != "" {
		replay(r, t, d)
	}
	ip, dom, misc, mix := trafficFamilies()
	all := unionRules(ip, dom, misc)
	for _, a := range [][]vroute.Rule{ip, dom, misc, mix, all} {
		checkDistinct("traffic", ruleTexts(a))
	}
	var rq, rp []string
	for _, s := range d.req {
		rq = append(rq, s.text)
	}
	for _, s := range d.resp {
		rp = append(rp, s.text)
	}
	checkDistinct("dns-request", rq)
	checkDistinct("dns-response", rp)
	full := vroute.PacketOpts{}
	mapped := vroute.PacketOpts{MappedForms: true}
	compact := vroute.PacketOpts{Compact: true}

	// Pass 0: every single-rule list through the complete configuration TEXT (parser included) with the
	// production match-set length (1024). The bulk then runs on parsed documents assembled from the once-parsed
	// rules (astkit.go) and with the build-time knob consts.MaxMatchSetLen=64: the domain matchers allocate
	// arrays of that length per compiled program, which otherwise dominates the run time.
	t.deadline = share(0.5)
	t.runSpace(0, "all1", all, 1, 1, mapped, true)
	d.runSpace(0, "d1", len(d.req), len(d.resp), 1, 1, true, true, share(0.5))
	consts.MaxMatchSetLen = 64

	// ---------------- traffic ----------------
	if !thorough {
		t.runSpace(1, "all2", all, 2, 2, full, false)
		t.runSpace(2, "ip3", ip[:ipCore], 3, 3, compact, false)
		t.runSpace(3, "dom3", dom[:domCore], 3, 3, compact, false)
		t.runSpace(4, "misc3", misc[:miscCore], 3, 3, compact, false)
		t.runSpace(5, "mix3", mix, 3, 3, compact, false)
	} else {
		t.runSpace(1, "all2", all, 2, 2, mapped, false)
		t.runSpace(2, "ip3", ip, 3, 3, compact, false)
		t.runSpace(3, "dom3", dom, 3, 3, compact, false)
		t.runSpace(4, "misc3", misc, 3, 3, compact, false)
		t.runSpace(5, "mix3", mix, 3, 3, compact, false)
		t.runSpace(6, "ip4", ip[:ipCore], 4, 4, compact, false)
		t.runSpace(7, "dom4", dom[:domCore], 4, 4, compact, false)
		t.runSpace(8, "misc4", misc[:miscCore], 4, 4, compact, false)
		t.runSpace(9, "mix4", mix, 4, 4, compact, false)
	}
	r.Set("traffic_expected_decisions", t.outcomes.sorted())
	r.Set("traffic_distinct_outcomes", len(t.outcomes.m))

	// ---------------- DNS request / response / daedns router ----------------
	if !thorough {
		d.runSpace(1, "d2", len(d.req), len(d.resp), 2, 2, false, true, share(1.0))
		d.runSpace(2, "d3core", reqCore, respCore, 3, 3, false, true, share(1.0))
	} else {
		d.runSpace(1, "d2", len(d.req), len(d.resp), 2, 2, false, true, share(1.0))
		d.runSpace(2, "d3", len(d.req), len(d.resp), 3, 3, false, true, share(1.0))
		d.runSpace(3, "d4core", reqCore, respCore, 4, 4, false, false, share(1.0))
	}
	for _, p := range []*dnsPipe{d.pReq, d.pResp} {
		r.Set(p.name+"_expected_decisions", p.outcomes.sorted())
		r.Set(p.name+"_distinct_outcomes", len(p.outcomes.m))
	}

	f.report(r)
	r.Set("distinct_nontrivial", t.nontrivial.Load()+d.pReq.nontrivial.Load()+d.pResp.nontrivial.Load()+d.pRouter.nontrivial.Load())
	r.Counter("evaluations").Add(t.evals.Load() + d.pReq.evals.Load() + d.pResp.evals.Load() + d.pRouter.evals.Load())
	r.Set("distinct_outcomes", len(t.outcomes.m)+len(d.pReq.outcomes.m)+len(d.pResp.outcomes.m))
	r.Finish()
}
