//go:build verif

package dialer

import (
	"context"
	"time"

	"github.com/daeuniverse/dae/verifx/vsched"
)

// VerifAttempt is the scripted answer of ONE attempt (one CheckFunc call) of a probe.
type VerifAttempt struct {
	Latency time.Duration // virtual time the attempt takes
	OK      bool
	Err     error
}

// VerifProbeScript runs ONE real connectivity check d.check() for typ whose CheckFunc answers attempt by attempt
// from the script (the real code decides how many attempts it makes). Once the script is exhausted the last
// answer is repeated: a teardown is permanent, a dead server stays dead. It returns the number of attempts made.
// This file is listed under "instrument" in check.json: time.Sleep below is the virtual clock.
func (d *Dialer) VerifProbeScript(typ *NetworkType, script []VerifAttempt) (attempts int) {
	nt := *typ
	_, _ = d.check(&CheckOption{
		networkType: &nt,
		CheckFunc: func(ctx context.Context, t *NetworkType) (bool, error) {
			a := script[len(script)-1]
			if attempts < len(script) {
				a = script[attempts]
			}
			attempts++
			if a.Latency > 0 {
				time.Sleep(a.Latency)
			}
			return a.OK, a.Err
		},
	}, false, nil)
	vsched.Quiesce()
	return attempts
}
