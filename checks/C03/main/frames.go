package main

// Frame construction. Every well-formed frame is padded to >= 160 bytes so that bpf_skb_pull_data(128) succeeds with
// kernel semantics and the direct-packet-access parser runs; the same frame with Knobs.PullMode = PullAlwaysFail runs
// the byte-load parser. Truncated frames are short by nature: they are run in three pull modes.

import (
	"encoding/binary"
	"net/netip"
)

const (
	ethIP4 = 0x0800
	ethIP6 = 0x86dd
	ipTCP  = 6
	ipUDP  = 17

	fSYN = 0x02
	fACK = 0x10
	fFIN = 0x01
	fRST = 0x04
	fPSH = 0x08

	tosByte  = 0xb8 // DSCP 46, ECN 0
	dscpVal  = tosByte >> 2
	padTotal = 168
)

// IP header flavours.
const (
	ipPlain      = iota // IPv4 / IPv6 without extension headers
	ipExt               // IPv6 with hop-by-hop + destination-options headers (IPv4: same as plain)
	ipFragNI            // non-initial fragment (IPv4 frag_off != 0 / IPv6 fragment header with offset != 0): middle, offset 184 bytes, M=1
	ipFrag1             // first fragment (offset 0, more-fragments set): still carries the L4 header
	ipFragT256          // tail fragment at byte offset 256, M=0 (IPv6: frag_off bytes 01 00; IPv4: 00 20 - one byte of the field is zero)
	ipFragTmtu          // tail fragment at the usual MTU offset, M=0 (IPv6 1448 bytes: 05 a8; IPv4 1480 bytes: 00 b9)
	ipFragAtomic        // IPv6 atomic fragment: fragment header with offset 0 and M=0 (IPv4: an unfragmented packet without DF)
)

// fragField returns the 16-bit fragment field (network order value) of a fragment flavour and whether the frame still
// starts a datagram (offset 0: the L4 header follows).
func fragField(flavour int, v6 bool) (field uint16, initial bool) {
	if v6 { // offset(13) << 3 | reserved(2) | M
		switch flavour {
		case ipFragNI:
			return 184 | 1, false
		case ipFrag1:
			return 1, true
		case ipFragT256:
			return 256, false
		case ipFragTmtu:
			return 1448, false
		}
		return 0, true // atomic
	}
	// IPv4: flags(3: reserved, DF, MF) | offset in 8-byte units (13)
	switch flavour {
	case ipFragNI:
		return 0x2000 | 23, false
	case ipFrag1:
		return 0x2000, true
	case ipFragT256:
		return 256 / 8, false
	case ipFragTmtu:
		return 1480 / 8, false
	}
	return 0, true
}

func isFragFlavour(f int) bool { return f >= ipFragNI && f <= ipFragAtomic }

type frameSpec struct {
	l2       bool
	src, dst netip.AddrPort
	smac     [6]byte
	dmac     [6]byte
	proto    uint8
	tcpFlags uint8
	flavour  int
	truncate int  // 0 = whole frame; otherwise cut the frame to this many bytes
	short    bool // no payload: the frame ends with its L4 header (shorter than the 128 bytes the parser tries to pull)
}

func (fs *frameSpec) v6() bool { return fs.src.Addr().Is6() && !fs.src.Addr().Is4In6() }

// build returns the frame (starting at the MAC header for l2, at the IP header for l3), its ethertype and the offset
// of the IP header.
func (fs *frameSpec) build() (b []byte, ethertype uint16, ipOff int) {
	v6 := fs.v6()
	if fs.l2 {
		b = append(b, fs.dmac[:]...)
		b = append(b, fs.smac[:]...)
		if v6 {
			b = append(b, 0x86, 0xdd)
		} else {
			b = append(b, 0x08, 0x00)
		}
		ipOff = 14
	}
	var l4 []byte
	if fs.proto == ipTCP {
		l4 = make([]byte, 20)
		binary.BigEndian.PutUint16(l4[0:], fs.src.Port())
		binary.BigEndian.PutUint16(l4[2:], fs.dst.Port())
		binary.BigEndian.PutUint32(l4[4:], 1000)
		if fs.tcpFlags&fACK != 0 {
			binary.BigEndian.PutUint32(l4[8:], 7000)
		}
		l4[12] = 5 << 4
		l4[13] = fs.tcpFlags
		binary.BigEndian.PutUint16(l4[14:], 65535)
	} else {
		l4 = make([]byte, 8)
		binary.BigEndian.PutUint16(l4[0:], fs.src.Port())
		binary.BigEndian.PutUint16(l4[2:], fs.dst.Port())
	}
	ipLen := 20
	if v6 {
		ipLen = 40
		switch fs.flavour {
		case ipExt:
			ipLen += 16
		case ipFragNI, ipFrag1, ipFragT256, ipFragTmtu, ipFragAtomic:
			ipLen += 8
		}
	}
	pad := padTotal - ipOff - ipLen - len(l4)
	if pad < 16 {
		pad = 16
	}
	if fs.short {
		pad = 0
	}
	payload := make([]byte, pad)
	for i := range payload {
		payload[i] = byte(0x40 + i%23)
	}
	if fs.proto == ipUDP {
		binary.BigEndian.PutUint16(l4[4:], uint16(8+pad))
	}
	l4 = append(l4, payload...)
	if v6 {
		h := make([]byte, 40)
		h[0] = 0x60 | tosByte>>4
		h[1] = byte((tosByte << 4) & 0xff)
		h[7] = 64
		s, d := fs.src.Addr().As16(), fs.dst.Addr().As16()
		copy(h[8:], s[:])
		copy(h[24:], d[:])
		var ext []byte
		switch fs.flavour {
		case ipExt:
			h[6] = 0                                         // hop-by-hop
			ext = append(ext, 60, 0, 1, 4, 0, 0, 0, 0)       // hbh: next = dstopts, len 0, PadN(4)
			ext = append(ext, fs.proto, 0, 1, 4, 0, 0, 0, 0) // dstopts: next = L4
		case ipFragNI, ipFrag1, ipFragT256, ipFragTmtu, ipFragAtomic:
			h[6] = 44
			f, _ := fragField(fs.flavour, true)
			ext = append(ext, fs.proto, 0, byte(f>>8), byte(f), 0, 0, 0, 7)
		default:
			h[6] = fs.proto
		}
		binary.BigEndian.PutUint16(h[4:], uint16(len(ext)+len(l4)))
		b = append(append(append(b, h...), ext...), l4...)
		ethertype = ethIP6
	} else {
		h := make([]byte, 20)
		h[0] = 0x45
		h[1] = tosByte
		binary.BigEndian.PutUint16(h[2:], uint16(20+len(l4)))
		binary.BigEndian.PutUint16(h[4:], 0x1234)
		if isFragFlavour(fs.flavour) {
			f, _ := fragField(fs.flavour, false)
			binary.BigEndian.PutUint16(h[6:], f)
		} else {
			h[6] = 0x40 // DF
		}
		h[8] = 64
		h[9] = fs.proto
		s, d := fs.src.Addr().Unmap().As4(), fs.dst.Addr().Unmap().As4()
		copy(h[12:], s[:])
		copy(h[16:], d[:])
		b = append(append(b, h...), l4...)
		ethertype = ethIP4
	}
	if fs.truncate > 0 && fs.truncate < len(b) {
		b = b[:fs.truncate]
	}
	return b, ethertype, ipOff
}

// headerBoundaries lists the cut points "at each header boundary" (and inside each header) for the spec.
func (fs *frameSpec) headerBoundaries() []int {
	off := 0
	var cuts []int
	if fs.l2 {
		cuts = append(cuts, 6, 14)
		off = 14
	}
	ipLen := 20
	if fs.v6() {
		ipLen = 40
	}
	cuts = append(cuts, off+ipLen/2, off+ipLen)
	off += ipLen
	if fs.v6() && fs.flavour == ipExt {
		cuts = append(cuts, off+1, off+8, off+9, off+16)
		off += 16
	}
	if fs.proto == ipTCP {
		cuts = append(cuts, off+4, off+19)
	} else {
		cuts = append(cuts, off+4, off+7)
	}
	return cuts
}
