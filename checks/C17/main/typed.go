package main

import (
	"fmt"
	"os"
	"sort"
	"strconv"
	"strings"
	"time"

	"github.com/daeuniverse/dae/verifx/vlib"
)

// ---- leg 4: typed configuration and rule-program compilation ----

type tcase struct {
	label  string // stable description (signature material)
	kind   string
	text   string
	expect string // "ok" | "err" | "any"  (a crash is a violation in every case)
	// post is run on a successful result; returns "" or a violation description
	post func(*sresp) string
	// short: the part of the input that matters (used as minimal input in reports)
	short string
}

const grp = "group{ g1{policy:min} g2{policy:min} }\n"

func routingConf(body string) string {
	return "global{}\n" + grp + "routing{\n" + body + "\n}\n"
}

var groups = []string{"g1", "g2"}

// expectedDefault renders the documented default (struct tag) the way the dump renders a value of that type.
// ok=false: the type is not one the reference knows how to read (reported, never silently skipped).
func expectedDefault(typ, def string, has bool) (string, bool) {
	switch typ {
	case "string", "interface {}", "config.FunctionOrString":
		if !has && typ != "string" {
			return "<nil>", true
		}
		return def, true
	case "bool":
		if !has {
			return "false", true
		}
		if def == "true" || def == "false" {
			return def, true
		}
		return "", false
	case "uint16", "uint32", "int", "uint8", "int64", "uint64":
		if !has {
			return "0", true
		}
		if _, err := strconv.ParseInt(def, 10, 64); err != nil {
			return "", false
		}
		return def, true
	case "time.Duration":
		if !has {
			return "0s", true
		}
		d, err := time.ParseDuration(def)
		if err != nil {
			return "", false
		}
		return d.String(), true
	case "[]string", "[]config.KeyableString":
		if !has {
			return "[]", true
		}
		return "[" + strings.Join(strings.Split(def, ","), " ") + "]", true
	}
	return "", false
}

// checkDefaults: every dumped field of the given sections must equal its documented default
// (fields listed in 'set' were written explicitly and are skipped).
func checkDefaults(resp *sresp, sections map[string]bool, set map[string]bool) []string {
	var bad []string
	for _, f := range resp.Fields {
		if !sections[f.Section] || set[f.Section+"."+f.Key] {
			continue
		}
		if f.Section == "global" && f.Key == "so_mark_from_dae_set" {
			continue // derived flag, not a configuration key
		}
		if strings.HasPrefix(f.Section, "dns.routing.") {
			continue // their fallback default is applied by a documented patch (asis / accept), not a tag
		}
		want, ok := expectedDefault(f.Type, f.Default, f.HasDefault)
		if !ok {
			bad = append(bad, fmt.Sprintf("%s.%s: reference cannot read default %q of type %s", f.Section, f.Key, f.Default, f.Type))
			continue
		}
		if f.Value != want {
			bad = append(bad, fmt.Sprintf("%s.%s = %s, documented default %s", f.Section, f.Key, f.Value, want))
		}
	}
	sort.Strings(bad)
	return bad
}

func legTyped(r *vlib.Run, thorough bool) int64 {
	var cases []*tcase
	add := func(c *tcase) { cases = append(cases, c) }
	all := map[string]bool{"global": true, "dns": true, "routing": true}

	// --- 4a structure ---
	defaultsPost := func(what string) func(*sresp) string {
		return func(resp *sresp) string {
			if bad := checkDefaults(resp, all, nil); len(bad) > 0 {
				return "defaults (" + what + "): " + strings.Join(bad, "; ")
			}
			return ""
		}
	}
	add(&tcase{label: "minimal global{} routing{}", kind: "new", text: "global{} routing{}", expect: "ok", post: defaultsPost("dns section left out")})
	add(&tcase{label: "minimal + dns{}", kind: "new", text: "global{} routing{} dns{}", expect: "ok", post: defaultsPost("empty dns section")})
	add(&tcase{label: "all sections empty", kind: "new", text: "global{} subscription{} node{} group{} routing{} dns{} include{}", expect: "ok", post: defaultsPost("all sections empty")})
	add(&tcase{label: "all sections small", kind: "new", text: "global{ log_level: warn } subscription{ 'https://s.test/x' } node{ n1: 'socks5://127.0.0.1:1' 'socks5://127.0.0.1:2' } " + grp + " routing{ dip(1.1.1.1) -> g1 } dns{ upstream{ u: 'udp://1.1.1.1:53' } routing{ request{ fallback: u } response{ fallback: accept } } }", expect: "ok",
		post: func(resp *sresp) string {
			if strings.Join(resp.Groups, ",") != "g1,g2" || strings.Join(resp.Nodes, ",") != "n1:socks5://127.0.0.1:1,socks5://127.0.0.1:2" || resp.Rules != 1 {
				return fmt.Sprintf("typed content differs from what is written: groups=%v nodes=%v rules=%d", resp.Groups, resp.Nodes, resp.Rules)
			}
			if bad := checkDefaults(resp, all, map[string]bool{"global.log_level": true, "dns.upstream": true}); len(bad) > 0 {
				return "defaults: " + strings.Join(bad, "; ")
			}
			return ""
		}})
	// required items
	for _, c := range []struct{ label, text string }{
		{"empty text", ""},
		{"global missing", "routing{}"},
		{"routing missing", "global{}"},
		{"group policy missing", "global{} routing{} group{ g{} }"},
		{"group policy missing (filter only)", "global{} routing{} group{ g{ filter: name(a) } }"},
		{"dns request fallback missing", "global{} routing{} dns{ routing{ request{} } }"},
		{"dns response fallback missing", "global{} routing{} dns{ routing{ response{} } }"},
		{"dns request fallback missing (rule only)", "global{} routing{} dns{ routing{ request{ qtype(a) -> asis } } }"},
	} {
		add(&tcase{label: "required: " + c.label, kind: "new", text: c.text, expect: "err"})
	}
	// unknown sections
	for _, name := range []string{"foo", "Global", "globals", "routing2", "includes", "_", "dns_"} {
		add(&tcase{label: "unknown section " + name, kind: "new", text: "global{} routing{} " + name + "{}", expect: "err"})
		add(&tcase{label: "unknown section first " + name, kind: "new", text: name + "{ k: v } global{} routing{}", expect: "err"})
	}
	// unknown keys / wrong item kinds, per context
	ctxs := []struct{ name, pre, post string }{
		{"global", "global{ ", " } routing{}"},
		{"routing", "global{} routing{ ", " }"},
		{"dns", "global{} routing{} dns{ ", " }"},
		{"dns.routing", "global{} routing{} dns{ routing{ ", " } }"},
		{"dns.routing.request", "global{} routing{} dns{ routing{ request{ ", " fallback: asis } } }"},
		{"dns.routing.response", "global{} routing{} dns{ routing{ response{ ", " fallback: accept } } }"},
		{"group.g", "global{} routing{} group{ g{ policy: min ", " } }"},
	}
	for _, cx := range ctxs {
		for _, x := range []string{"nokey: 1", "nokey: 'q'", "nokey: f(x)", "nokey: a, b", "nosec{}", "nosec{ k: v }", "bareword", "'quoted text'", "12"} {
			add(&tcase{label: "unknown item in " + cx.name + ": " + x, kind: "new", text: cx.pre + x + cx.post, expect: "err"})
		}
	}
	for _, c := range []struct{ label, text string }{
		{"rule in global", "global{ dip(1.1.1.1) -> direct } routing{}"},
		{"rule in group.g", "global{} routing{} group{ g{ policy: min dip(1.1.1.1) -> direct } }"},
		{"rule in group", "global{} routing{} group{ dip(1.1.1.1) -> direct }"},
		{"rule in dns", "global{} routing{} dns{ qtype(a) -> asis }"},
		{"rule in dns.routing", "global{} routing{} dns{ routing{ qtype(a) -> asis } }"},
		{"rule in node", "global{} routing{} node{ dip(1.1.1.1) -> direct }"},
		{"rule in subscription", "global{} routing{} subscription{ dip(1.1.1.1) -> direct }"},
		{"section in node", "global{} routing{} node{ x{} }"},
		{"section in subscription", "global{} routing{} subscription{ x{ a } }"},
		{"literal in group", "global{} routing{} group{ g }"},
		{"param in group", "global{} routing{} group{ g: min }"},
		{"section in dns.upstream", "global{} routing{} dns{ upstream{ x{} } }"},
		{"scalar given a section", "global{ log_level{ } } routing{}"},
		{"section given a scalar", "global{} routing{} dns{ routing: x }"},
		{"scalar given a function", "global{ tproxy_port: f(x) } routing{}"},
		{"list given a function", "global{ lan_interface: f(x) } routing{}"},
	} {
		add(&tcase{label: "wrong item kind: " + c.label, kind: "new", text: c.text, expect: "err"})
	}
	add(&tcase{label: "repeatable filter twice", kind: "new", text: "global{} routing{} group{ g{ filter: name(a) filter: name(b) [add_latency: 1s] policy: min } }", expect: "ok",
		post: func(resp *sresp) string {
			if resp.Filters != 2 {
				return fmt.Sprintf("two filter lines written, %d stored", resp.Filters)
			}
			return ""
		}})

	// every scalar key written explicitly with its documented default => same configuration as leaving it out;
	// every key with ill-typed values => never a crash. The key list comes from the minimal-config dump (round 1).
	// (built after round 1 below)

	// --- 4b rule-function matrix (traffic routing, DNS request routing, DNS response routing) ---
	funcs := []string{"domain", "ip", "dip", "sip", "port", "dport", "sport", "l4proto", "ipversion", "mac", "pname", "dscp", "qname", "qtype", "upstream", "nosuchfn"}
	keys := []string{"", "geosite", "geoip", "ext", "full", "suffix", "keyword", "regex", "domain", "contains", "nokey"}
	vals := []string{"a.test", "1.1.1.1", "10.0.0.0/8", "'fe80::/10'", "80", "1000-2000", "tcp", "4", "'02:42:ac:11:00:02'", "0x4", "foo",
		"'a.dat:foo'", "':'", "'x:'", "':x'", "''", "'*'", "'('", "65536", "'1-'", "-1", "2000-1000", "1.1.1.1/33", "'tcp,udp'", "'^('", "aaaa", "googledns"}
	if !thorough {
		// quick: the values that exercise distinct decoders / splitters; thorough: all
		vals = []string{"a.test", "1.1.1.1", "'fe80::/10'", "80", "1000-2000", "tcp", "'02:42:ac:11:00:02'", "'a.dat:foo'", "':'", "''", "65536", "'^('"}
	}
	nots := []string{"", "!"}
	dnsFn := map[string]bool{}
	for _, fn := range funcs {
		dnsFn[fn] = thorough
	}
	for _, fn := range []string{"qname", "qtype", "ip", "upstream", "domain", "dip", "nosuchfn"} {
		dnsFn[fn] = true
	}
	for _, fn := range funcs {
		for _, k := range keys {
			for _, v := range vals {
				for _, not := range nots {
					param := v
					if k != "" {
						param = k + ": " + v
					}
					rule := not + fn + "(" + param + ")"
					add(&tcase{label: "fn-matrix routing " + rule, short: rule + " -> g1", kind: "compile", text: routingConf(rule + " -> g1"), expect: "any"})
					if dnsFn[fn] && (not == "" || thorough) {
						add(&tcase{label: "fn-matrix dns.request " + rule, short: "dns request: " + rule + " -> u1", kind: "dns",
							text: "global{} routing{} dns{ upstream{ u1: 'udp://1.1.1.1:53' googledns: 'udp://8.8.8.8:53' } routing{ request{ " + rule + " -> u1\n fallback: asis } } }", expect: "any"})
						add(&tcase{label: "fn-matrix dns.response " + rule, short: "dns response: " + rule + " -> accept", kind: "dns",
							text: "global{} routing{} dns{ upstream{ u1: 'udp://1.1.1.1:53' googledns: 'udp://8.8.8.8:53' } routing{ response{ " + rule + " -> accept\n fallback: accept } } }", expect: "any"})
					}
				}
			}
		}
	}
	// outbound / fallback variants
	obs := []string{"g1", "g2", "direct", "block", "must_direct", "must_g1", "must_rules", "nosuch", "g1(mark: 1)", "g1(mark: 0x800)", "g1(mark: abc)",
		"g1(mark: 99999999999)", "g1(mark: -1)", "g1(must)", "g1(nokey: 1)", "g1(mark: 1, must)", "g1(mark: 1, mark: 2)", "direct(mark: 1)", "must_", "must_must_g1", "!g1(mark: 1)", "g1('')", "must_rules(mark: 1)", "1"}
	for _, ob := range obs {
		add(&tcase{label: "outbound " + ob, short: "dip(1.1.1.1) -> " + ob, kind: "compile", text: routingConf("dip(1.1.1.1) -> " + ob), expect: "any"})
		add(&tcase{label: "fallback " + ob, short: "fallback: " + ob, kind: "compile", text: routingConf("fallback: " + ob), expect: "any"})
		add(&tcase{label: "dns request outbound " + ob, short: "dns request: qtype(a) -> " + ob, kind: "dns", text: "global{} routing{} dns{ upstream{ g1: 'udp://1.1.1.1:53' } routing{ request{ qtype(a) -> " + ob + "\n fallback: asis } } }", expect: "any"})
		add(&tcase{label: "dns request fallback " + ob, short: "dns request: fallback: " + ob, kind: "dns", text: "global{} routing{} dns{ upstream{ g1: 'udp://1.1.1.1:53' } routing{ request{ fallback: " + ob + " } } }", expect: "any"})
		add(&tcase{label: "dns response fallback " + ob, short: "dns response: fallback: " + ob, kind: "dns", text: "global{} routing{} dns{ upstream{ g1: 'udp://1.1.1.1:53' } routing{ response{ fallback: " + ob + " } } }", expect: "any"})
	}
	add(&tcase{label: "fallback as chain", short: "fallback: a(x) && b(y)", kind: "compile", text: routingConf("fallback: a(x) && b(y)"), expect: "err"})
	add(&tcase{label: "fallback as list", short: "fallback: g1, g2", kind: "compile", text: routingConf("fallback: g1, g2"), expect: "err"})
	add(&tcase{label: "fallback twice", short: "fallback: g1 fallback: g2", kind: "compile", text: routingConf("fallback: g1\nfallback: g2"), expect: "any"})
	// documented-valid rules must compile; plainly invalid ones must be refused
	for _, rule := range []string{
		"pname(NetworkManager) -> direct", "dip(224.0.0.0/3, 'ff00::/8') -> direct", "dip(1.1.1.1) && dport(53) && l4proto(udp) -> g1",
		"domain(suffix: example.com, full: a.example.org, keyword: goog, regex: '^ad[sx]?\\.') -> block",
		"sip(192.168.0.0/24) && sport(1000-2000) && ipversion(4) -> g1(mark: 1)", "mac('02:42:ac:11:00:02') -> direct", "dscp(0x4) -> direct",
		"l4proto(tcp) && !pname(curl, wget) -> g2", "domain(a.test) -> g1", "!dip(10.0.0.0/8) -> must_g1", "dport(80, 443, 8000-9000) -> g1",
	} {
		add(&tcase{label: "documented rule " + rule, short: rule, kind: "compile", text: routingConf(rule), expect: "ok"})
	}
	for _, rule := range []string{
		"nosuchfn(x) -> g1", "dip(1.1.1.1) -> nosuch", "dip(999.1.1.1) -> g1", "dport(70000) -> g1", "dport(x) -> g1",
		"mac(zz) -> g1", "domain(geosite: cn) -> g1", "domain(nokey: x) -> g1", "dip(1.1.1.1/33) -> g1",
	} {
		add(&tcase{label: "invalid rule " + rule, short: rule, kind: "compile", text: routingConf(rule), expect: "err"})
	}

	// --- 4c program size around the match-set limit (1024 incl. the fallback match set) ---
	const limit = 1024
	sizes := []int{1022, 1023, 1024, 1025, 1026, 2048}
	type shape struct {
		name string
		rule func(i, n int) string
	}
	ob := func(i int) string { return []string{"g1", "g2"}[i%2] } // alternate so that the merge optimizer cannot fuse neighbours
	shapes := []shape{
		{"all-domain", func(i, n int) string { return fmt.Sprintf("domain(suffix: d%d.test) -> %s", i, ob(i)) }},
		{"all-ip", func(i, n int) string { return fmt.Sprintf("dip(10.%d.%d.1) -> %s", i/256, i%256, ob(i)) }},
		{"ip-then-last-domain", func(i, n int) string {
			if i == n-1 {
				return "domain(full: last.test) -> g1"
			}
			return fmt.Sprintf("dip(10.%d.%d.1) -> %s", i/256, i%256, ob(i))
		}},
		{"all-port", func(i, n int) string { return fmt.Sprintf("dport(%d) -> %s", 1+i, ob(i)) }},
		{"all-mac", func(i, n int) string { return fmt.Sprintf("mac('02:00:00:00:%02x:%02x') -> %s", i/256, i%256, ob(i)) }},
	}
	for _, sh := range shapes {
		for _, n := range sizes { // n = match sets = rules + fallback
			var b strings.Builder
			for i := 0; i < n-1; i++ {
				b.WriteString(sh.rule(i, n-1))
				b.WriteByte('\n')
			}
			b.WriteString("fallback: direct")
			n := n
			c := &tcase{label: fmt.Sprintf("size routing %s match-sets=%d", sh.name, n), short: fmt.Sprintf("routing{ %d rules of shape %q (first: %s) + fallback } = %d match sets", n-1, sh.name, sh.rule(0, n-1), n),
				kind: "compile", text: routingConf(b.String())}
			if n <= limit {
				c.expect = "ok"
				c.post = func(resp *sresp) string {
					if resp.MatchSets != n {
						return fmt.Sprintf("%d match sets written, %d compiled", n, resp.MatchSets)
					}
					return ""
				}
			} else {
				c.expect = "any" // beyond the limit: an error, never a crash (see r.Assume about the kernel-map side)
			}
			add(c)
		}
	}
	for _, where := range []string{"request", "response"} {
		for _, n := range sizes {
			var b strings.Builder
			for i := 0; i < n-1; i++ {
				tgt := []string{"u1", "u2"}[i%2]
				if where == "response" {
					tgt = []string{"accept", "u1"}[i%2]
				}
				fmt.Fprintf(&b, "qname(suffix: d%d.test) -> %s\n", i, tgt)
			}
			fb := "asis"
			if where == "response" {
				fb = "accept"
			}
			n := n
			c := &tcase{label: fmt.Sprintf("size dns.%s qname match-sets=%d", where, n), short: fmt.Sprintf("dns.routing.%s{ %d rules qname(suffix: dN.test) -> u + fallback } = %d match sets", where, n-1, n),
				kind: "dns", text: "global{} routing{} dns{ upstream{ u1: 'udp://1.1.1.1:53' u2: 'udp://8.8.8.8:53' } routing{ " + where + "{ " + b.String() + "fallback: " + fb + " } } }"}
			if n <= limit {
				c.expect = "ok"
			} else {
				c.expect = "any"
			}
			add(c)
		}
	}

	// ---- round 1 ----
	results := runCases(r, cases)

	// ---- round 2: per-key cases, derived from the key list the minimal configuration reports ----
	var cases2 []*tcase
	if results[1].resp != nil && results[1].resp.Err == "" && results[1].resp.Panic == "" {
		for _, f := range results[1].resp.Fields { // "minimal + dns{}"
			f := f
			if strings.HasPrefix(f.Section, "dns.routing.") || f.Key == "so_mark_from_dae_set" || f.Section == "routing" {
				continue
			}
			wrap := func(body string) string {
				if f.Section == "global" {
					return "global{ " + body + " } routing{} dns{}"
				}
				return "global{} routing{} dns{ " + body + " }"
			}
			if f.HasDefault && f.Default != "" {
				def := f.Default
				lit := "'" + def + "'"
				if strings.HasPrefix(f.Type, "[]") {
					lit = "'" + strings.Join(strings.Split(def, ","), "', '") + "'"
				}
				cases2 = append(cases2, &tcase{label: "explicit default " + f.Section + "." + f.Key, short: f.Key + ": " + lit, kind: "new", text: wrap(f.Key + ": " + lit), expect: "ok",
					post: func(resp *sresp) string {
						if bad := checkDefaults(resp, all, nil); len(bad) > 0 {
							return "writing the documented default explicitly changes the result: " + strings.Join(bad, "; ")
						}
						return ""
					}})
			}
			for _, v := range []string{"abc", "-1", "99999999999999999999", "''", "1.5", "0x10", "a, b", "'1,2'", "f(x)", "true", "1h"} {
				cases2 = append(cases2, &tcase{label: "value matrix " + f.Section + "." + f.Key + ": " + v, short: f.Key + ": " + v, kind: "new", text: wrap(f.Key + ": " + v), expect: "any"})
			}
			cases2 = append(cases2, &tcase{label: "key twice " + f.Section + "." + f.Key, short: f.Key + " twice", kind: "new", text: wrap(f.Key + ": 1 " + f.Key + ": 2"), expect: "any"})
		}
	}
	runCases(r, cases2)
	r.Set("typed_cases", len(cases)+len(cases2))
	r.Assume("size-limit leg: the userspace compile (builder + BuildUserspace, dns.New) is executed; the kernel side (routing_map max_entries = MAX_MATCH_SET_LEN, BpfMapBatchUpdate) is not — for programs beyond the limit the check demands 'no crash' and counts how many the userspace path accepted (typed_over_limit_accepted): those are refused in production only by the kernel map update")
	r.Assume("defaults: the documented default of a key is its `default` struct tag (read through reflection in the worker, interpreted by the reference per type); keys without a tag must stay at the zero value")
	return int64(len(cases) + len(cases2))
}

func runCases(r *vlib.Run, cases []*tcase) []sresult {
	if len(cases) == 0 {
		return nil
	}
	reqs := make([]*sreq, len(cases))
	for i, c := range cases {
		reqs[i] = &sreq{Kind: c.kind, Text: c.text, Groups: groups}
	}
	nw := r.Workers
	if nw > 8 {
		nw = 8 // the compilers parallelise internally
	}
	results, err := runStream(reqs, nw)
	if err != nil {
		fmt.Fprintln(os.Stderr, "C17: cannot start stream workers:", err)
		os.Exit(2)
	}
	evals := r.Counter("evaluations")
	okc, errc, overAcc := r.Counter("typed_ok"), r.Counter("typed_err"), r.Counter("typed_over_limit_accepted")
	type best struct {
		c      *tcase
		detail any
	}
	bySig := map[string]*best{}
	report := func(sig string, c *tcase, detail any) {
		in := c.short
		if in == "" {
			in = c.text
		}
		b := bySig[sig]
		if b == nil || better(in, inputOf(b.c)) {
			bySig[sig] = &best{c, detail}
		}
	}
	for i, c := range cases {
		evals.Add(1)
		res := results[i]
		switch {
		case res.timeout:
			r.CapHit("typed case exceeded the 5 min watchdog: " + c.label)
		case res.crashed:
			site := vlib.PanicSite(res.tail)
			report("process-killing panic (goroutine) site="+site+" leg=typed kind="+c.kind, c, map[string]any{"case": c.label, "stderr_tail": tailOf(res.tail)})
		case res.resp.Panic != "":
			site := vlib.PanicSite(res.resp.Panic)
			report("panic site="+site+" leg=typed kind="+c.kind, c, map[string]any{"case": c.label, "stage": res.resp.Stage, "panic": res.resp.Panic})
		case res.resp.Err != "":
			errc.Add(1)
			if strings.TrimSpace(res.resp.Err) == "" || res.resp.Err == "<empty error message>" {
				report("rejected with an empty error message leg=typed", c, c.label)
			}
			if c.expect == "ok" {
				report("valid configuration rejected leg=typed: "+classOfLabel(c.label), c, map[string]any{"case": c.label, "error": res.resp.Err})
			}
		default:
			okc.Add(1)
			if c.expect == "err" {
				report("invalid configuration accepted leg=typed: "+classOfLabel(c.label), c, map[string]any{"case": c.label, "stage": res.resp.Stage})
			}
			if strings.HasPrefix(c.label, "size ") && c.expect == "any" {
				overAcc.Add(1)
			}
			if c.post != nil {
				if msg := c.post(res.resp); msg != "" {
					report("typed result differs leg=typed: "+postClass(msg), c, map[string]any{"case": c.label, "what": msg})
				}
			}
		}
	}
	sigs := make([]string, 0, len(bySig))
	for s := range bySig {
		sigs = append(sigs, s)
	}
	sort.Strings(sigs)
	for _, s := range sigs {
		b := bySig[s]
		r.Violation(s, map[string]any{"minimal_input": inputOf(b.c), "full_text": clip(b.c.text, 400000), "detail": b.detail})
	}
	if len(cases) > 3 {
		r.Sample(map[string]any{"leg": "typed", "case": cases[len(cases)/2].label})
	}
	return results
}

func inputOf(c *tcase) string {
	if c.short != "" {
		return c.short
	}
	return c.text
}
func clip(s string, n int) string {
	if len(s) > n {
		return s[:n] + "…"
	}
	return s
}
func tailOf(s string) string {
	// keep the panic header and the first frames: that is where the site is
	if i := strings.Index(s, "panic:"); i >= 0 {
		s = s[i:]
	} else if i := strings.Index(s, "fatal error:"); i >= 0 {
		s = s[i:]
	}
	return clip(s, 3000)
}

// classOfLabel: the case family (first two words of the label), so that one cause = one signature.
func classOfLabel(l string) string {
	f := strings.Fields(l)
	if len(f) > 2 {
		f = f[:2]
	}
	return strings.TrimSuffix(strings.Join(f, " "), ":")
}
func postClass(msg string) string {
	if i := strings.Index(msg, ":"); i > 0 {
		return msg[:i]
	}
	return clip(msg, 60)
}
