// kshimgen: reads clang's JSON AST of tproxy.c (+ the source text for macros / section names) and
// GENERATES kdrv_gen.h:
//   - kshim_mapdefs[]   : one entry per SEC(".maps") variable; type/key_size/value_size/max_entries/flags are
//                         sizeof-expressions over the libbpf-style map struct itself (the C compiler decides)
//   - kshim_progs[]     : one entry per SEC("...") program function
//   - kshim_params[]    : file-scope `const volatile` record variables (load-time constants, e.g. PARAM)
//   - kshim_print_layout(): prints, as JSON, sizeof/alignof/offsetof/field sizes of every struct/union that is
//                         a map key, map value, a load-time constant, nested in one of those, or defined in
//                         tproxy.c / ebpf_sync_defs.h; every enum (with values); every integer #define of both files.
// Nothing here is a hand-written list: new maps / fields / enums / macros are picked up from the source.
package main

import (
	"bufio"
	"encoding/json"
	"flag"
	"fmt"
	"os"
	"regexp"
	"sort"
	"strings"
)

type qtype struct {
	QualType          string `json:"qualType"`
	DesugaredQualType string `json:"desugaredQualType"`
}

type node struct {
	Kind               string  `json:"kind"`
	Name               string  `json:"name"`
	TagUsed            string  `json:"tagUsed"`
	Type               qtype   `json:"type"`
	Inner              []*node `json:"inner"`
	IsBitfield         bool    `json:"isBitfield"`
	IsImplicit         bool    `json:"isImplicit"`
	CompleteDefinition bool    `json:"completeDefinition"`
	StorageClass       string  `json:"storageClass"`
}

func die(f string, a ...any) {
	fmt.Fprintf(os.Stderr, "kshimgen: "+f+"\n", a...)
	os.Exit(2)
}

type field struct {
	Name     string
	Path     string // member designator relative to the enclosing NAMED record ("" for anonymous members)
	Type     string
	Bitfield bool
	Anon     bool   // anonymous struct/union member
	AnonKind string // struct|union (for anonymous record types, named member or not)
	Ref      string // "struct x" / "union y" when the (element) type is a named record
	Enum     string
	Array    bool
	Children []*field
}

var (
	records  = map[string]*node{} // "struct x" -> decl
	recOrder []string
	enums    = map[string]*node{}
	enumOrd  []string
)

var reArr = regexp.MustCompile(`\s*(\[[^\]]*\])+\s*$`)

func stripQuals(t string) string {
	for {
		t = strings.TrimSpace(t)
		switch {
		case strings.HasPrefix(t, "const "):
			t = t[6:]
		case strings.HasPrefix(t, "volatile "):
			t = t[9:]
		default:
			return t
		}
	}
}

func baseType(q qtype) (base string, isArr bool) {
	t := q.DesugaredQualType
	if t == "" {
		t = q.QualType
	}
	if reArr.MatchString(t) {
		isArr = true
		t = reArr.ReplaceAllString(t, "")
	}
	return stripQuals(t), isArr
}

func isAnonType(t string) bool {
	return strings.Contains(t, "(unnamed") || strings.Contains(t, "(anonymous")
}

func walk(rec *node, prefix string) []*field {
	var out []*field
	var lastAnon *node
	for _, c := range rec.Inner {
		switch c.Kind {
		case "RecordDecl":
			if c.Name == "" {
				lastAnon = c
			} else if c.CompleteDefinition {
				addRecord(c)
			}
		case "FieldDecl":
			base, isArr := baseType(c.Type)
			f := &field{Name: c.Name, Type: c.Type.QualType, Bitfield: c.IsBitfield, Array: isArr}
			if c.Name == "" {
				if lastAnon == nil {
					die("anonymous member without a preceding record in %s", rec.Name)
				}
				f.Anon = true
				f.AnonKind = lastAnon.TagUsed
				f.Children = walk(lastAnon, prefix)
			} else {
				f.Path = prefix + c.Name
				switch {
				case isAnonType(base):
					if lastAnon == nil {
						die("field %s of anonymous type without a preceding record", c.Name)
					}
					f.AnonKind = lastAnon.TagUsed
					p := f.Path
					if isArr {
						p += "[0]"
					}
					f.Children = walk(lastAnon, p+".")
				case strings.HasPrefix(base, "struct ") || strings.HasPrefix(base, "union "):
					f.Ref = base
				case strings.HasPrefix(base, "enum "):
					f.Enum = strings.TrimPrefix(base, "enum ")
				}
			}
			out = append(out, f)
		}
	}
	return out
}

func addRecord(n *node) {
	k := n.TagUsed + " " + n.Name
	if _, ok := records[k]; !ok {
		recOrder = append(recOrder, k)
	}
	records[k] = n
}

func hasAttr(n *node, kind string) bool {
	for _, c := range n.Inner {
		if c.Kind == kind {
			return true
		}
	}
	return false
}

func fieldNames(rec *node) map[string]*node {
	m := map[string]*node{}
	for _, c := range rec.Inner {
		if c.Kind == "FieldDecl" && c.Name != "" {
			m[c.Name] = c
		}
	}
	return m
}

type mapDecl struct {
	Name   string
	Rec    *node
	Fields map[string]*node
	Inner  *node // record of the inner map template (__array(values, struct T))
	InnerT string
}

var reTypeof = regexp.MustCompile(`typeof\s*\((.*)\)\s*\*`)

// pointee of a __type()/__array() member as a printable C type name
func pointee(q qtype) string {
	t := q.QualType
	if m := reTypeof.FindStringSubmatch(t); m != nil {
		return strings.TrimSpace(m[1])
	}
	d := q.DesugaredQualType
	if d == "" {
		d = t
	}
	d = strings.TrimSpace(d)
	d = strings.TrimSuffix(d, "[]")
	d = strings.TrimSpace(d)
	d = strings.TrimSuffix(d, "*")
	return strings.TrimSpace(d)
}

func cstr(s string) string {
	b, _ := json.Marshal(s) // JSON string syntax is valid C string syntax for our inputs
	return string(b)
}

// jstr returns s as a JSON string literal embedded in a C string literal.
func jq(s string) string {
	b, _ := json.Marshal(s)
	q := string(b)
	q = strings.ReplaceAll(q, `\`, `\\`)
	q = strings.ReplaceAll(q, `"`, `\"`)
	q = strings.ReplaceAll(q, `%`, `%%`)
	return q
}

func joinContinuations(src string) []string {
	var out []string
	var cur string
	sc := bufio.NewScanner(strings.NewReader(src))
	sc.Buffer(make([]byte, 1<<20), 1<<20)
	for sc.Scan() {
		l := sc.Text()
		if strings.HasSuffix(strings.TrimRight(l, " \t"), `\`) {
			cur += strings.TrimSuffix(strings.TrimRight(l, " \t"), `\`) + " "
			continue
		}
		out = append(out, cur+l)
		cur = ""
	}
	if cur != "" {
		out = append(out, cur)
	}
	return out
}

var (
	reDefine  = regexp.MustCompile(`^\s*#\s*define\s+([A-Za-z_]\w*)(\(?)(.*)$`)
	reComment = regexp.MustCompile(`//.*$|/\*.*?\*/`)
	reIdent   = regexp.MustCompile(`[A-Za-z_]\w*`)
	reIntLit  = regexp.MustCompile(`^(0[xX][0-9a-fA-F]+|[0-9]+)([uUlL]*)$`)
	reTagDef  = regexp.MustCompile(`\b(struct|union|enum)\s+(?:__attribute__\s*\(\(.*?\)\)\s*)?([A-Za-z_]\w*)\s*\{`)
	reSecFn   = regexp.MustCompile(`SEC\("([^"]+)"\)\s*(?:static\s+)?(?:[A-Za-z_][\w\s\*]*?)\b([A-Za-z_]\w*)\s*\(`)
)

type macro struct{ Name, Body, File string }

func scanMacros(file, src string) []macro {
	var out []macro
	for _, l := range joinContinuations(src) {
		m := reDefine.FindStringSubmatch(l)
		if m == nil || m[2] == "(" {
			continue
		}
		body := strings.TrimSpace(reComment.ReplaceAllString(m[3], ""))
		if body == "" {
			continue
		}
		out = append(out, macro{m[1], body, file})
	}
	return out
}

func integerMacros(ms []macro) (ok []macro, rejected []macro) {
	cand := map[string]bool{}
	for _, m := range ms {
		cand[m.Name] = true
	}
	good := map[string]bool{}
	isGood := func(m macro) bool {
		if strings.ContainsAny(m.Body, "\"'[]{};=,.") {
			return false
		}
		for _, id := range reIdent.FindAllString(m.Body, -1) {
			if reIntLit.MatchString(id) || id == "BIT" || id == "sizeof" {
				continue
			}
			// 0x10UL etc. are caught by reIdent only from the letter on; check digits-prefix forms
			if good[id] {
				continue
			}
			return false
		}
		return true
	}
	// integer literals such as 120000000000ULL / 0xFC: strip them before identifier scanning
	reLit := regexp.MustCompile(`\b(0[xX][0-9a-fA-F]+|[0-9]+)[uUlL]*\b`)
	for changed := true; changed; {
		changed = false
		for _, m := range ms {
			if good[m.Name] {
				continue
			}
			mm := m
			mm.Body = reLit.ReplaceAllString(m.Body, "0")
			if isGood(mm) {
				good[m.Name] = true
				changed = true
			}
		}
	}
	seen := map[string]bool{}
	for _, m := range ms {
		if seen[m.Name] {
			continue
		}
		seen[m.Name] = true
		if good[m.Name] {
			ok = append(ok, m)
		} else {
			rejected = append(rejected, m)
		}
	}
	return
}

func main() {
	astPath := flag.String("ast", "", "clang -ast-dump=json output")
	srcPath := flag.String("src", "", "tproxy.c")
	defsPath := flag.String("defs", "", "ebpf_sync_defs.h")
	outPath := flag.String("out", "", "kdrv_gen.h")
	flag.Parse()
	raw, err := os.ReadFile(*astPath)
	if err != nil {
		die("%v", err)
	}
	var tu node
	if err := json.Unmarshal(raw, &tu); err != nil {
		die("ast json: %v", err)
	}
	srcB, err := os.ReadFile(*srcPath)
	if err != nil {
		die("%v", err)
	}
	defsB, err := os.ReadFile(*defsPath)
	if err != nil {
		die("%v", err)
	}
	src, defs := string(srcB), string(defsB)

	// ---- pass 1: top-level declarations
	var maps []*mapDecl
	type prog struct{ Name, Sec string }
	var progs []prog
	type param struct{ Name, Rec string }
	var params []param
	secOf := map[string]string{}
	for _, m := range reSecFn.FindAllStringSubmatch(src, -1) {
		secOf[m[2]] = m[1]
	}
	var pendingAnon *node
	for _, n := range tu.Inner {
		switch n.Kind {
		case "RecordDecl":
			if n.Name == "" {
				pendingAnon = n
			} else if n.CompleteDefinition {
				addRecord(n)
			}
		case "EnumDecl":
			if n.Name != "" {
				if _, ok := enums[n.Name]; !ok {
					enumOrd = append(enumOrd, n.Name)
				}
				enums[n.Name] = n
			}
		case "VarDecl":
			base, _ := baseType(n.Type)
			if hasAttr(n, "SectionAttr") {
				var rec *node
				if isAnonType(base) {
					rec = pendingAnon
				} else {
					rec = records[base]
				}
				if rec == nil {
					continue
				}
				fn := fieldNames(rec)
				if _, ok := fn["type"]; !ok {
					continue // e.g. the license string
				}
				md := &mapDecl{Name: n.Name, Rec: rec, Fields: fn}
				if v, ok := fn["values"]; ok {
					md.InnerT = pointee(v.Type)
					md.Inner = records[md.InnerT]
					if md.Inner == nil {
						die("map %s: inner map type %q not found", n.Name, md.InnerT)
					}
				}
				maps = append(maps, md)
			} else if strings.Contains(n.Type.QualType, "volatile") && strings.Contains(n.Type.QualType, "const") {
				if _, ok := records[base]; ok {
					params = append(params, param{n.Name, base})
				}
			}
		case "FunctionDecl":
			if hasAttr(n, "SectionAttr") && hasAttr(n, "CompoundStmt") {
				progs = append(progs, prog{n.Name, secOf[n.Name]})
			}
		}
	}
	if len(maps) == 0 {
		die("no SEC(\".maps\") declarations found — parser out of date?")
	}
	if len(progs) == 0 {
		die("no SEC() programs found")
	}

	// ---- pass 2: which records/enums are in the layout set, and why
	roles := map[string][]string{}
	addRole := func(k, r string) {
		for _, x := range roles[k] {
			if x == r {
				return
			}
		}
		roles[k] = append(roles[k], r)
	}
	mapRecs := map[*node]bool{}
	for _, m := range maps {
		mapRecs[m.Rec] = true
		if m.Inner != nil {
			mapRecs[m.Inner] = true
		}
	}
	fieldsOf := map[string][]*field{}
	getFields := func(k string) []*field {
		if f, ok := fieldsOf[k]; ok {
			return f
		}
		f := walk(records[k], "")
		fieldsOf[k] = f
		return f
	}
	usedEnums := map[string]bool{}
	var visit func(k, role string)
	var visitFields func(owner string, fs []*field)
	visitFields = func(owner string, fs []*field) {
		for _, f := range fs {
			if f.Ref != "" {
				if _, ok := records[f.Ref]; ok {
					visit(f.Ref, "nested_in:"+owner)
				}
			}
			if f.Enum != "" {
				usedEnums[f.Enum] = true
			}
			visitFields(owner, f.Children)
		}
	}
	visiting := map[string]bool{}
	visit = func(k, role string) {
		if records[k] == nil || mapRecs[records[k]] {
			return
		}
		addRole(k, role)
		if visiting[k] {
			return
		}
		visiting[k] = true
		visitFields(k, getFields(k))
	}
	recOfType := func(t string) string {
		b, _ := baseType(qtype{QualType: t})
		if _, ok := records[b]; ok {
			return b
		}
		return ""
	}
	type mapKV struct{ keyT, valT string }
	kv := map[string]mapKV{}
	for _, m := range maps {
		var e mapKV
		if f, ok := m.Fields["key"]; ok {
			e.keyT = pointee(f.Type)
			if r := recOfType(e.keyT); r != "" {
				visit(r, "map_key:"+m.Name)
			}
		}
		if f, ok := m.Fields["value"]; ok {
			e.valT = pointee(f.Type)
			if r := recOfType(e.valT); r != "" {
				visit(r, "map_value:"+m.Name)
			}
		}
		kv[m.Name] = e
	}
	for _, p := range params {
		visit(p.Rec, "param:"+p.Name)
	}
	definedHere := map[string]string{}
	for _, m := range reTagDef.FindAllStringSubmatch(src, -1) {
		definedHere[m[1]+" "+m[2]] = "tproxy.c"
	}
	for _, m := range reTagDef.FindAllStringSubmatch(defs, -1) {
		definedHere[m[1]+" "+m[2]] = "ebpf_sync_defs.h"
	}
	for _, k := range recOrder {
		if f, ok := definedHere[k]; ok {
			visit(k, "defined_in:"+f)
		}
	}
	for _, e := range enumOrd {
		if _, ok := definedHere["enum "+e]; ok {
			usedEnums[e] = true
		}
	}

	// ---- emit
	var b strings.Builder
	w := func(f string, a ...any) { fmt.Fprintf(&b, f, a...) }
	w("/* Code generated by kshimgen from the clang AST of tproxy.c. DO NOT EDIT. */\n\n")

	num := func(m *mapDecl, v, fld string) string { // __uint member -> its value
		if _, ok := m.Fields[fld]; ok {
			return fmt.Sprintf("(unsigned)(sizeof(*%s.%s)/sizeof(int))", v, fld)
		}
		return "0u"
	}
	size := func(m *mapDecl, v, tfld, nfld string) string { // __type member (sizeof pointee) or __uint member
		if _, ok := m.Fields[tfld]; ok {
			return fmt.Sprintf("(unsigned)sizeof(*%s.%s)", v, tfld)
		}
		return num(m, v, nfld)
	}
	w("static struct kshim_mapdef kshim_mapdefs[] = {\n")
	for _, m := range maps {
		v := m.Name
		vs := size(m, v, "value", "value_size")
		it, iks, ivs, ime, ifl := "0u", "0u", "0u", "0u", "0u"
		if m.Inner != nil {
			vs = "4u" // map-in-map values are 32-bit map ids/fds
			in := &mapDecl{Fields: fieldNames(m.Inner)}
			iv := fmt.Sprintf("(*(__typeof__(%s.values[0]))0)", v)
			it = num(in, iv, "type")
			iks = size(in, iv, "key", "key_size")
			ivs = size(in, iv, "value", "value_size")
			ime = num(in, iv, "max_entries")
			ifl = num(in, iv, "map_flags")
		}
		w("\t{ %s, (void *)&%s, %s, %s, %s, %s, %s, %s, %s, %s, %s, %s, %s, %s, %s },\n",
			cstr(m.Name), v, num(m, v, "type"), size(m, v, "key", "key_size"), vs, num(m, v, "max_entries"),
			num(m, v, "map_flags"), num(m, v, "pinning"), it, iks, ivs, ime, ifl, cstr(kv[m.Name].keyT), cstr(kv[m.Name].valT))
	}
	w("};\n\n")

	w("static struct kshim_progdef kshim_progs[] = {\n")
	for _, p := range progs {
		w("\t{ %s, %s, (void *)%s },\n", cstr(p.Name), cstr(p.Sec), p.Name)
	}
	w("};\n\n")

	w("static struct kshim_paramdef kshim_params[] = {\n")
	for _, p := range params {
		w("\t{ %s, (void *)&%s, sizeof(%s), %s },\n", cstr(p.Name), p.Name, p.Name, cstr(p.Rec))
	}
	w("};\n\n")

	// layout printer
	w("static void kshim_print_layout(FILE *o)\n{\n")
	w("\tfprintf(o, \"{\\n\\\"abi\\\":{\\\"pointer\\\":%%zu,\\\"long\\\":%%zu,\\\"int\\\":%%zu,\\\"little_endian\\\":%%d},\\n\", sizeof(void *), sizeof(long), sizeof(int), (int)(__BYTE_ORDER__ == __ORDER_LITTLE_ENDIAN__));\n")

	// maps
	w("\tfprintf(o, \"\\\"maps\\\":[\\n\");\n")
	w("\tfor (unsigned i = 0; i < sizeof(kshim_mapdefs)/sizeof(kshim_mapdefs[0]); i++) {\n")
	w("\t\tstruct kshim_mapdef *d = &kshim_mapdefs[i];\n")
	w("\t\tfprintf(o, \"%%s{\\\"name\\\":\\\"%%s\\\",\\\"type\\\":%%u,\\\"type_name\\\":\\\"%%s\\\",\\\"key_size\\\":%%u,\\\"value_size\\\":%%u,\\\"max_entries\\\":%%u,\\\"map_flags\\\":%%u,\\\"pinning\\\":%%u,\\\"key_type\\\":\\\"%%s\\\",\\\"value_type\\\":\\\"%%s\\\",\\\"inner\\\":{\\\"type\\\":%%u,\\\"key_size\\\":%%u,\\\"value_size\\\":%%u,\\\"max_entries\\\":%%u,\\\"map_flags\\\":%%u}}\", i ? \",\\n\" : \"\", d->name, d->type, kshim_map_type_name(d->type), d->key_size, d->value_size, d->max_entries, d->map_flags, d->pinning, d->key_type, d->value_type, d->inner_type, d->inner_key_size, d->inner_value_size, d->inner_max_entries, d->inner_map_flags);\n")
	w("\t}\n")
	w("\tfprintf(o, \"\\n],\\n\");\n")

	// programs
	w("\tfprintf(o, \"\\\"programs\\\":[\");\n")
	for i, p := range progs {
		sep := ""
		if i > 0 {
			sep = ","
		}
		w("\tfprintf(o, \"%s{\\\"name\\\":%s,\\\"section\\\":%s}\");\n", sep, jq(p.Name), jq(p.Sec))
	}
	w("\tfprintf(o, \"],\\n\");\n")

	// params
	w("\tfprintf(o, \"\\\"params\\\":[\");\n")
	for i, p := range params {
		sep := ""
		if i > 0 {
			sep = ","
		}
		w("\tfprintf(o, \"%s{\\\"name\\\":%s,\\\"record\\\":%s,\\\"size\\\":%%zu}\", sizeof(%s));\n", sep, jq(p.Name), jq(p.Rec), p.Name)
	}
	w("\tfprintf(o, \"],\\n\");\n")

	// records
	var emitFields func(T string, fs []*field, indent string)
	emitFields = func(T string, fs []*field, indent string) {
		for i, f := range fs {
			sep := ""
			if i > 0 {
				sep = ","
			}
			switch {
			case f.Bitfield:
				w("\tfprintf(o, \"%s\\n%s{\\\"name\\\":%s,\\\"type\\\":%s,\\\"bitfield\\\":true}\");\n", sep, indent, jq(f.Name), jq(f.Type))
			case f.Anon:
				w("\tfprintf(o, \"%s\\n%s{\\\"name\\\":\\\"\\\",\\\"anon\\\":true,\\\"kind\\\":%s,\\\"fields\\\":[\");\n", sep, indent, jq(f.AnonKind))
				emitFields(T, f.Children, indent+" ")
				w("\tfprintf(o, \"]}\");\n")
			default:
				acc := fmt.Sprintf("((%s *)0)->%s", T, f.Path)
				w("\tfprintf(o, \"%s\\n%s{\\\"name\\\":%s,\\\"path\\\":%s,\\\"type\\\":%s,\\\"offset\\\":%%zu,\\\"size\\\":%%zu", sep, indent, jq(f.Name), jq(f.Path), jq(f.Type))
				args := fmt.Sprintf("(size_t)__builtin_offsetof(%s, %s), sizeof(%s)", T, f.Path, acc)
				if f.Array {
					w(",\\\"elem_size\\\":%%zu")
					args += fmt.Sprintf(", sizeof(%s[0])", acc)
				}
				if f.Ref != "" {
					w(",\\\"ref\\\":%s", jq(f.Ref))
				}
				if f.Enum != "" {
					w(",\\\"enum\\\":%s", jq(f.Enum))
				}
				if f.Children != nil {
					w(",\\\"kind\\\":%s,\\\"fields\\\":[\", %s);\n", jq(f.AnonKind), args)
					emitFields(T, f.Children, indent+" ")
					w("\tfprintf(o, \"]}\");\n")
				} else {
					w("}\", %s);\n", args)
				}
			}
		}
	}
	w("\tfprintf(o, \"\\\"records\\\":[\");\n")
	first := true
	for _, k := range recOrder {
		if len(roles[k]) == 0 {
			continue
		}
		sep := ""
		if !first {
			sep = ","
		}
		first = false
		sort.Strings(roles[k])
		rj, _ := json.Marshal(roles[k])
		w("\tfprintf(o, \"%s\\n{\\\"name\\\":%s,\\\"kind\\\":%s,\\\"size\\\":%%zu,\\\"align\\\":%%zu,\\\"roles\\\":%s,\\\"fields\\\":[\", sizeof(%s), (size_t)_Alignof(%s));\n",
			sep, jq(k), jq(records[k].TagUsed), strings.ReplaceAll(strings.ReplaceAll(string(rj), `\`, `\\`), `"`, `\"`), k, k)
		emitFields(k, getFields(k), " ")
		w("\tfprintf(o, \"]}\");\n")
	}
	w("\tfprintf(o, \"\\n],\\n\");\n")

	// enums
	w("\tfprintf(o, \"\\\"enums\\\":[\");\n")
	first = true
	for _, e := range enumOrd {
		if !usedEnums[e] {
			continue
		}
		sep := ""
		if !first {
			sep = ","
		}
		first = false
		where := definedHere["enum "+e]
		w("\tfprintf(o, \"%s\\n{\\\"name\\\":%s,\\\"size\\\":%%zu,\\\"defined_in\\\":%s,\\\"values\\\":{\", sizeof(enum %s));\n", sep, jq(e), jq(where), e)
		j := 0
		for _, c := range enums[e].Inner {
			if c.Kind != "EnumConstantDecl" {
				continue
			}
			s2 := ""
			if j > 0 {
				s2 = ","
			}
			j++
			w("\tfprintf(o, \"%s%s:%%lld\", (long long)%s);\n", s2, jq(c.Name), c.Name)
		}
		w("\tfprintf(o, \"}}\");\n")
	}
	w("\tfprintf(o, \"\\n],\\n\");\n")

	// macros
	ms := append(scanMacros("ebpf_sync_defs.h", defs), scanMacros("tproxy.c", src)...)
	okM, rej := integerMacros(ms)
	w("\tfprintf(o, \"\\\"defines\\\":{\");\n")
	w("\t{ int n = 0; (void)n;\n")
	for _, m := range okM {
		w("#ifdef %s\n", m.Name)
		w("\tfprintf(o, \"%%s\\n%s:{\\\"value\\\":%%lld,\\\"file\\\":%s}\", n++ ? \",\" : \"\", (long long)(%s));\n", jq(m.Name), jq(m.File), m.Name)
		w("#endif\n")
	}
	w("\t}\n")
	w("\tfprintf(o, \"\\n},\\n\");\n")
	w("\tfprintf(o, \"\\\"non_integer_defines\\\":[\");\n")
	for i, m := range rej {
		sep := ""
		if i > 0 {
			sep = ","
		}
		w("\tfprintf(o, \"%s%s\");\n", sep, jq(m.Name))
	}
	w("\tfprintf(o, \"]\\n}\\n\");\n")
	w("}\n")

	if err := os.WriteFile(*outPath, []byte(b.String()), 0o644); err != nil {
		die("%v", err)
	}
	fmt.Printf("kshimgen: maps=%d programs=%d params=%d records=%d enums=%d integer_defines=%d\n", len(maps), len(progs), len(params), len(roles), len(usedEnums), len(okM))
}
